use crdts::{CmRDT, MVReg, Map};
fn main() {
    let mut m: Map<u8, MVReg<u8, u8>, u8> = Map::new();
    let ctx1 = m.read_ctx().derive_add_ctx(7);
    let op1 = m.update(1, ctx1, |r, c| r.write(10, c));
    assert!(m.validate_op(&op1).is_ok());
    m.apply(op1);
    let ctx2 = m.read_ctx().derive_add_ctx(7);
    let op2 = m.update(2, ctx2, |r, c| r.write(20, c));
    println!("validate_op(op2) = {:?}", m.validate_op(&op2));
    assert!(m.validate_op(&op2).is_ok(), "in-order op rejected at its origin");
}
