//! C13 demo B: insert_index with an index past the end appends, on a replica
//! whose state was built from remote, concurrently inserted elements.
use crdts::{CmRDT, List};

fn check(list: &List<char, u8>, model: &[char], what: &str) {
    let got: Vec<char> = list.iter().cloned().collect();
    assert_eq!(got, model, "{}", what);
    assert_eq!(list.last(), model.last(), "{}: last()", what);
    for (i, c) in model.iter().enumerate() {
        assert_eq!(list.position(i), Some(c), "{}: position({})", what, i);
    }
}

fn ins(list: &mut List<char, u8>, model: &mut Vec<char>, ix: usize, c: char, actor: u8) {
    let op = list.insert_index(ix, c, actor);
    list.apply(op);
    model.insert(ix.min(model.len()), c);
    check(list, model, &format!("insert {:?} at {}", c, ix));
}

fn main() {
    // two replicas insert their first element concurrently
    let op_p = List::<char, u8>::new().insert_index(0, 'p', 1);
    let op_q = List::<char, u8>::new().insert_index(7, 'q', 2); // clamps on empty
    let mut l: List<char, u8> = List::new();
    l.apply(op_p);
    l.apply(op_q);
    let mut m = vec!['p', 'q'];
    check(&l, &m, "after remote ops");

    ins(&mut l, &mut m, 1, 's', 3); // p s q
    ins(&mut l, &mut m, 3, 't', 3); // p s q t   (ix == len)
    ins(&mut l, &mut m, 5, 'u', 1); // p s q t u (ix == len + 1)
    ins(&mut l, &mut m, usize::MAX, 'v', 2);
    ins(&mut l, &mut m, 0, 'w', 2);
    ins(&mut l, &mut m, 100, 'x', 3);

    println!("demo_b: ok");
}
