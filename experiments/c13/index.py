"""C13 - edits land at the requested index: the *adjacency* clause.

What is decided: the identifier of a new element is requested (Identifier::between) between the two elements ADJACENT to the
requested position, and a delete names the element AT the requested position.  Positions are read off the iterator
algebra, not off the source text: `walk.next()` is position 0, `walk.skip(n).next()` is n, a second `next()` on the same
iterator is the successor, `walk.nth(n)` is n; index expressions are normalised to (base, offset) through `checked_sub`,
`-`, `+`.  What is NOT decided: that `between` then yields an identifier strictly between them (C14, partly decided) and
hence the behavioural "locally like a Vec" statement."""
from ..core import rule, MissingAnchor
from ..terms import drop_lv
from .common import *

NONE = ('none',)


def _strip_copy(t):
    t = drop_lv(t)
    while t[0] == 'call' and call_name(t) in ('clone', 'cloned', 'copied', 'to_owned') and len(t[2]) == 1:
        t = drop_lv(t[2][0])
    return t


def idx_norm(t):
    """index expression -> (base term or None, integer offset); None when not understood."""
    t = drop_lv(t)
    if t[0] == 'cast':
        return idx_norm(t[2])
    if t[0] == 'const' and isinstance(t[1], int) and not isinstance(t[1], bool):
        return (None, t[1])
    if t[0] == 'field' and t[2] == 'Some.0' and is_call(t[1], 'checked_sub') and len(t[1][2]) == 2:
        a, k = idx_norm(t[1][2][0]), idx_norm(t[1][2][1])
        if a and k and k[0] is None:
            return (a[0], a[1] - k[1])
        return None
    if t[0] == 'field' and t[2] == 'Some.0' and is_call(t[1], 'checked_add') and len(t[1][2]) == 2:
        a, k = idx_norm(t[1][2][0]), idx_norm(t[1][2][1])
        if a and k and k[0] is None:
            return (a[0], a[1] + k[1])
        return None
    if is_call(t, ('checked_sub', 'checked_add')) and len(t[2]) == 2:       # an Option seen through and_then / map (transparent)
        a, k = idx_norm(t[2][0]), idx_norm(t[2][1])
        if a and k and k[0] is None:
            return (a[0], a[1] - k[1] if call_name(t) == 'checked_sub' else a[1] + k[1])
        return None
    if t[0] == 'binop' and t[1] in ('Sub', 'Add'):
        a, k = idx_norm(t[2]), idx_norm(t[3])
        if a and k and k[0] is None:
            return (a[0], a[1] - k[1] if t[1] == 'Sub' else a[1] + k[1])
        if t[1] == 'Add' and a and k and a[0] is None:
            return (k[0], k[1] + a[1])
        return None
    if t[0] == 'call' and call_name(t) in ('saturating_sub', 'wrapping_sub', 'saturating_add', 'wrapping_add'):
        return None
    return (versionless(t), 0)


def _walk(it, field):
    """`it` iterates all keys / items of self.<field> in order (no adaptor)."""
    it = drop_lv(it)
    if it[0] != 'call' or call_name(it) not in ('keys', 'iter', 'into_iter', 'values') or not it[2]:
        return False
    return param_path(it[2][0]) == (1, (field,)) and len(iter_adaptors(it)) == 1


def pos_of(t, field):
    """Option<&element> term -> ('pos', base, off) | NONE | None (not a position of the walk over self.<field>)."""
    t = _strip_copy(t)
    if t[0] == 'agg' and t[1].endswith('option::Option') and t[2] == 'None':
        return NONE
    if t[0] == 'agg' and t[1].endswith('option::Option') and t[2] == 'Some' and t[3]:
        return pos_of(t[3][0][1], field)
    if t[0] == 'field' and t[2] == 'Some.0':
        return pos_of(t[1], field)
    if t[0] == 'field' and t[2] == 'Continue.0' and is_call(t[1], 'branch') and len(t[1][2]) == 1:
        return pos_of(t[1][2][0], field)          # `x?` on an Option: the value of x when it is Some
    if is_call(t, 'next') and len(t[2]) == 1:
        src = t[2][0]
        while src[0] in ('lv', 'at'):
            src = src[3] if src[0] == 'lv' else src[2]
        if src[0] == 'post' and src[2] == 0 and is_call(src[1], 'next'):
            p = pos_of(src[1], field)
            return ('pos', p[1], p[2] + 1) if p and p != NONE else None
        src = drop_lv(src)
        if is_call(src, 'skip') and len(src[2]) == 2 and _walk(src[2][0], field):
            n = idx_norm(src[2][1])
            return ('pos', n[0], n[1]) if n else None
        if _walk(src, field):
            return ('pos', None, 0)
        return None
    if is_call(t, 'nth') and len(t[2]) == 2:
        src = drop_lv(t[2][0])
        n = idx_norm(t[2][1])
        if n is None:
            return None
        if is_call(src, 'skip') and len(src[2]) == 2 and _walk(src[2][0], field):
            m = idx_norm(src[2][1])
            if m and (m[0] is None or n[0] is None):
                return ('pos', m[0] if m[0] is not None else n[0], m[1] + n[1])
            return None
        if _walk(src, field):
            return ('pos', n[0], n[1])
        return None
    if is_call(t, ('first', 'first_key_value')) and len(t[2]) == 1 and param_path(t[2][0]) == (1, (field,)):
        return ('pos', None, 0)
    return None


def _via_checked(t):
    return any(is_call(st, 'checked_sub') for st in subterms(drop_lv(t)))


def _is_clamp(t, field):
    """min(ix, self.<field>.len()) in either spelling."""
    t = drop_lv(t)
    if t[0] == 'call' and call_name(t) == 'min' and len(t[2]) == 2 and not cinfo(t[1])['local']:
        a, b = drop_lv(t[2][0]), drop_lv(t[2][1])
        for x, y in ((a, b), (b, a)):
            if value_path(x) == (2, ()) and is_call(y, 'len') and len(y[2]) == 1 and param_path(y[2][0]) == (1, (field,)):
                return True
    return False


@rule('IDX-ADJ', {
    'C13': 'x becomes the i-th element only if its identifier is requested between the (i-1)-th and the i-th element of the current '
           'sequence (clamped to the length), and delete_index(i) removes the i-th only if the op names the i-th identifier',
}, floor=6)
def idx_adj(ctx):
    """List::insert_index / delete_index, GList::insert / insert_after / insert_before: bounds adjacent to the requested position."""
    facts = ctx.facts
    # ---------------- List::insert_index
    from .posalg import PosAlg, index_atoms, NONE as PNONE, WORLDS
    body = ctx.inherent(LIST, 'insert_index')
    it = interp(facts, body)
    sites = [bb for bb, c in it.calls.items() if call_name(c.term) == 'between' and len(c.args) == 3]

    def is_index(x):
        x = drop_lv(x)
        return _is_clamp(x, 'seq') or value_path(x) == (2, ())
    if len(sites) != 1:
        ctx.shape('List::insert_index', body, 'exactly one Identifier::between call expected, found %d' % len(sites))
    else:
        bb = sites[0]
        errs = []
        want = {'empty': (PNONE, PNONE), 'zero': (PNONE, ('abs', 0)), 'mid': (('I', -1), ('I', 0)), 'end': (('last', 0), PNONE)}
        words = {'empty': 'an empty list', 'zero': 'index 0', 'mid': 'an index inside the list', 'end': 'the index just past the last element'}
        clamped = False
        for w in WORLDS:
            alg = PosAlg(facts, 'seq', is_index, world=w)
            rc = Reach(facts, body, Evaluator(facts, bool_atom=index_atoms(alg, is_index), assumption={'w': True}))
            if bb not in rc.reachable:
                errs.append('the identifier request is unreachable for %s' % words[w])
                continue
            for which, ai in (('lower', 0), ('upper', 1)):
                alts = rc.arg_terms(bb, ai)
                got = set()
                for a in alts:
                    for a2 in phi_alts(drop_lv(inline_option_maps(facts, a))):
                        p = alg.apos(a2)
                        got.add(alg.canon(p) if p is not None else None)
                        clamped = clamped or any(_is_clamp(st, 'seq') for st in subterms(drop_lv(a2)))
                if got != {want[w][ai]}:
                    errs.append('for %s the %s bound passed to between is %s, expected %s  (%s)' % (
                        words[w], which, sorted(map(str, got)), want[w][ai], [fmt(drop_lv(a), 4) for a in alts][:2]))
        if not errs and not clamped:
            errs.append('the index is not clamped to the length: an index beyond the end finds no neighbours and the element is not appended')
        ctx.check(not errs, 'List::insert_index', body, 'between((i-1)-th, i-th) of the walk over seq, i clamped to len', errs[0] if errs else '',
                  line=block_line(it, bb))
    # ---------------- List::delete_index
    body = ctx.inherent(LIST, 'delete_index')
    r = drop_lv(inline_option_maps(facts, normal(facts, interp(facts, body).ret)))
    ids = [dict(st[3]).get('id') for st in subterms(r) if st[0] == 'agg' and st[1].endswith('list::Op') and st[2] == 'Delete']
    alg = PosAlg(facts, 'seq', lambda x: value_path(drop_lv(x)) == (2, ()))
    ps = [alg.apos(i) for i in ids if i is not None]
    ps = [p_[1] if p_ and p_[0] == 'enum' else p_ for p_ in ps]
    ok = bool(ps) and all(p_ == ('pos', 'I', 0) for p_ in ps)
    ctx.check(ok, 'List::delete_index', body, 'Delete names the ix-th identifier of the walk over seq',
              'List::delete_index builds %s: the id is %s, not the ix-th key of self.seq' % (fmt(r, 6), ps))
    # ---------------- List::position_entry: the index at which the walk over seq meets the given identifier
    body = ctx.inherent(LIST, 'position_entry')
    r = drop_lv(normal(facts, interp(facts, body).ret))
    ok, why = False, 'not a search of the walk over self.seq for the given identifier: %s' % fmt(r, 6)
    if r[0] == 'call' and call_name(r) in ('position', 'find_map') and len(r[2]) == 2 and r[2][1][0] == 'closure':
        src = drop_lv(r[2][0])
        enum = False
        if is_call(src, 'enumerate') and len(src[2]) == 1:
            enum, src = True, drop_lv(src[2][0])
        base, k_, clo = iter_source(src)
        whole = param_path(base) == (1, ('seq',)) and not clo and not (set(iter_adaptors(src)) - {'iter', 'keys', 'into_iter'})
        cb = facts.cb(r[2][1][1])
        m = {('upvar', k): v for k, v in enumerate(r[2][1][2])}

        def classify(a, b_, tt):
            # the walked identifier (something inside the closure's item, param 2) against the captured argument (function param 2)
            va, vb = versionless(a), versionless(b_)
            for x, y, orient in ((va, vb, 'fwd'), (vb, va, 'rev')):
                if y[0] == 'upvar' and value_path(drop_lv(m.get(('upvar', y[1]), ('top',)))) == (2, ()) and any(st == ('param', 2) for st in subterms(x)):
                    return ('same', orient)
            return None
        v_eq = closure_value(facts, cb, classify=classify, assumption={'same': EQ})
        v_ne = [closure_value(facts, cb, classify=classify, assumption={'same': o}) for o in (LT, GT)]
        if call_name(r) == 'position':
            ok = whole and not enum and v_eq is True and all(v is False for v in v_ne)
        else:
            hit = isinstance(v_eq, tuple) and v_eq[0] == 'optsome'
            miss = all(v == ('optnone',) for v in v_ne)
            # the value handed out is the enumerate counter (field 0 of the item)
            cr = drop_lv(interp(facts, cb).ret)
            idx_ok = any(st[0] == 'agg' and st[2] == 'Some' and st[3] and versionless(st[3][0][1]) == ('field', ('param', 2), '0') for st in subterms(cr))
            ok = whole and enum and hit and miss and idx_ok
        why = 'the search over self.seq does not return the index exactly at the identifier equal to the argument (eq -> %s, other -> %s)' % (v_eq, v_ne)
    ctx.check(ok, 'List::position_entry', body, 'index of the identifier equal to the argument in the walk over seq', 'List::position_entry: ' + why)
    # ---------------- GList::insert
    body = ctx.inherent(GLIST, 'insert')
    it = interp(facts, body)

    def is_idx(x):
        return value_path(drop_lv(x)) == (2, ())

    def is_get(t):
        return is_call(t, 'get', self_adt='GList') and len(t[2]) == 2 and value_path(drop_lv(t[2][0])) == (1, ())
    afters = [bb for bb, c in it.calls.items() if is_call(c.term, 'insert_after') and len(c.args) == 3]
    befores = [bb for bb, c in it.calls.items() if is_call(c.term, 'insert_before') and len(c.args) == 3]
    errs = []
    if not afters or not befores:
        errs.append('expected insert_after(Some(get(idx-1))) and insert_before(get(idx)) calls')
    else:
        for w in WORLDS:
            alg = PosAlg(facts, 'list', is_idx, world=w, get_fn=is_get)
            rc = Reach(facts, body, Evaluator(facts, bool_atom=index_atoms(alg, is_idx), assumption={'w': True}))
            ra, rb = [b for b in afters if b in rc.reachable], [b for b in befores if b in rc.reachable]
            if not ra and not rb:
                errs.append('no insertion is reachable for %s' % w)
            for b in ra:
                got = set(alg.canon(alg.apos(a2)) for a in rc.arg_terms(b, 1) for a2 in phi_alts(drop_lv(a))
                          if not (drop_lv(a2)[0] == 'agg' and drop_lv(a2)[2] == 'None' and len(phi_alts(drop_lv(a))) > 1))
                wantp = {'mid': ('I', -1), 'end': ('last', 0)}.get(w)
                if w in ('zero', 'empty') or got != {wantp}:
                    errs.append('insert_after is reached with anchor %s for %s (expected the (idx-1)-th element, only for idx > 0)' % (sorted(map(str, got)), w))
            for b in rb:
                got = set(alg.canon(alg.apos(a2)) for a in rc.arg_terms(b, 1) for a2 in phi_alts(drop_lv(a)))
                if w in ('zero', 'empty'):
                    if got != {('abs', 0) if w == 'zero' else PNONE}:
                        errs.append('at index 0 insert_before is anchored at %s, expected the first element' % sorted(map(str, got)))
                else:
                    errs.append('insert_before is reachable for a positive index although the (idx-1)-th element exists')
            if w in ('mid', 'end') and not ra:
                errs.append('for a positive index (%s) the element is not inserted after the (idx-1)-th element' % w)
    ctx.check(not errs, 'GList::insert', body, 'after the (idx-1)-th element, or before the idx-th when there is none', 'GList::insert: ' + (errs[0] if errs else ''))
    # ---------------- GList::insert_after / insert_before: the other bound is the adjacent element
    for name, anchor_arg, other_arg, lower in (('insert_after', 0, 1, True), ('insert_before', 1, 0, False)):
        body = ctx.inherent(GLIST, name)
        r = drop_lv(inline_option_maps(facts, interp(facts, body).ret))
        calls = [st for st in subterms(r) if is_call(st, 'between') and len(st[2]) == 3]
        ok, why = False, 'no Identifier::between call'
        if len(calls) == 1:
            c = calls[0]
            anchor, other = drop_lv(c[2][anchor_arg]), drop_lv(c[2][other_arg])
            why = 'the anchor passed to between is not the given identifier'
            if value_path(anchor) == (2, ()):
                ok, why = _adjacent(facts, other, lower)
                if ok:
                    ok, why = _loop_guard_ok(facts, body, lower)
        ctx.check(ok, 'GList::' + name, body, 'between(anchor, %s element of the list)' % ('next' if lower else 'previous') if lower
                  else 'between(previous element of the list, anchor)', 'GList::%s: %s' % (name, why))


def _adjacent(facts, t, after):
    """t selects the element of self.list adjacent to the anchor (param 2): the first one above it / the last one below it."""
    from .posalg import _strip as _pstrip
    t = _pstrip(t)
    if t[0] == 'phi':
        # `match anchor { Some(a) => <selection>, None => None }`: without an anchor there is no other bound
        alts_ = [a for a in t[1] if not (a[0] == 'agg' and a[1].endswith('option::Option') and a[2] == 'None')]
        if len(alts_) != 1:
            return False, 'the other bound has several unrelated alternatives'
        t = _pstrip(alts_[0])
    sel = call_name(t) if t[0] == 'call' else None
    if sel == 'rfind':
        sel, t = 'find', ('call', t[1], (('call', '~rev', (t[2][0],)),) + tuple(t[2][1:]))
    if sel not in ('find', 'next', 'next_back', 'last', 'min', 'max') or not t[2]:
        return False, 'the other bound is %s, not a selection from a range of self.list' % fmt(t, 5)
    src = drop_lv(t[2][0])
    rev = False
    while src[0] == 'call' and (call_name(src) == 'rev' or src[1] == '~rev') and len(src[2]) == 1:
        rev = not rev
        src = drop_lv(src[2][0])
    if not (is_call(src, 'range') and len(src[2]) == 2 and param_path(src[2][0]) == (1, ('list',))):
        return False, 'the selection does not range over self.list'
    b = drop_lv(src[2][1])
    if b[0] != 'tuple' or len(b[1]) != 2:
        return False, 'range bounds not understood'
    lo, hi = drop_lv(b[1][0]), drop_lv(b[1][1])

    def bound(x):
        if x[0] == 'agg' and x[1].endswith('ops::Bound'):
            if x[2] == 'Unbounded':
                return ('unbounded',)
            v = _strip_copy(x[3][0][1]) if x[3] else None
            return (x[2].lower(), v is not None and value_path(v) in ((2, ()), (2, ('Some.0',))))   # the anchor, seen through its Option
        return None
    bl, bh = bound(lo), bound(hi)
    want = (('excluded', True), ('unbounded',)) if after else (('unbounded',), ('excluded', True))
    if (bl, bh) != want:
        return False, 'the range is %s..%s, expected %s' % (bl, bh, 'everything strictly above the anchor' if after else 'everything strictly below the anchor')
    # which end of the range is taken
    first_end = sel in ('next', 'find', 'min') and not rev or sel in ('next_back', 'last', 'max') and rev
    last_end = sel in ('next_back', 'last', 'max') and not rev or sel in ('next', 'find', 'min') and rev
    if after and not first_end or (not after) and not last_end:
        return False, 'the %s end of the range is taken: the element is not adjacent to the anchor' % ('far' if True else '')
    if sel == 'find':
        if len(t[2]) != 2 or t[2][1][0] != 'closure':
            return False, 'find without a literal predicate'
        cb = facts.cb(t[2][1][1])
        m = {('upvar', k): v for k, v in enumerate(t[2][1][2])}

        def classify(a, b_, tt):
            sa, sb = versionless(subst(a, m)), versionless(subst(b_, m))
            for x, y, orient in ((sa, sb, 'fwd'), (sb, sa, 'rev')):
                if x == ('param', 2) and value_path(y) == (2, ()):      # closure item vs the anchor
                    return ('rel', orient)
            return None
        # the closure's own item is its param 2; the anchor is the captured upvar mapped to the function's param 2 - to keep the
        # two apart evaluate on the closure's coordinates
        def classify2(a, b_, tt):
            va, vb = versionless(a), versionless(b_)
            for x, y, orient in ((va, vb, 'fwd'), (vb, va, 'rev')):
                if x == ('param', 2) and y[0] == 'upvar':
                    return ('rel', orient)
            return None
        v = closure_value(facts, cb, classify=classify2, assumption={'rel': GT if after else LT})
        if v is not True:
            return False, 'the find predicate rejects elements of the range (it is %s for an element %s the anchor): no adjacent element is found' % (
                v, 'above' if after else 'below')
    return True, ''


def _loop_guard_ok(facts, body, after):
    """When the adjacent element is picked by an explicit loop over the range (hand-written, or a `find` spliced into a loop),
    the first element of the range must be taken: with the walked element above (below) the anchor - which the range
    guarantees - every path through the loop body leaves the loop instead of moving on to the next element."""
    from .loops import loops_of
    it = interp(facts, body)
    for lp in loops_of(it):
        src = drop_lv(lp.src)
        if not any(is_call(st, 'range') and len(st[2]) == 2 and param_path(st[2][0]) == (1, ('list',)) for st in subterms(src)):
            continue

        def classify(a, b_, tt, lp=lp):
            from .loops import item_derived
            for x, y, orient in ((a, b_, 'fwd'), (b_, a, 'rev')):
                vy = value_path(drop_lv(y))
                if item_derived(x, lp) and vy in ((2, ()), (2, ('Some.0',))):
                    return ('rel', orient)
            return None
        rc = Reach(facts, body, Evaluator(facts, classify=classify, assumption={'rel': GT if after else LT}))
        # forward reachability from the loop body in the pruned graph: the loop head must not come back
        seen, stack = set(), [lp.start]
        while stack:
            x = stack.pop()
            if x in seen:
                continue
            seen.add(x)
            stack.extend(y for y in rc.edges.get(x, []) if y not in seen)
        if lp.head in seen:
            return False, 'the loop over the range can skip an element that lies %s the anchor: the element taken is not adjacent' % (
                'above' if after else 'below')
    return True, ''
