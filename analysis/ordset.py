"""Ordering-set evaluation (DESIGN §2.2 A2).

An *assumption* fixes the outcome of the comparisons a rule cares about; the
evaluator decides switch discriminants under that assumption and computes which
blocks stay reachable, and whether every normal path must pass a set of blocks.
Nothing is executed: terms are rewritten to abstract outcomes.
"""
from .interp import cinfo, interp, CALLEES
from .terms import subst, is_call, call_name, versionless, CMP_METHODS

LT, EQ, GT, NONE = 'Lt', 'Eq', 'Gt', 'None'
TOTAL = (LT, EQ, GT)
PARTIAL = (LT, EQ, GT, NONE)
MIRROR = {LT: GT, GT: LT, EQ: EQ, NONE: NONE, 'Ne': 'Ne'}

ORD_CONST = {'Less': LT, 'Equal': EQ, 'Greater': GT}
ORD_INT = {LT: -1, EQ: 0, GT: 1}


def cmp_bool(op, o):
    """Truth of `a <op> b` when ordering(a,b) = o (None = incomparable)."""
    if o == 'Ne':
        return {'Eq': False, 'Ne': True}.get(op)
    return {
        'Lt': o == LT, 'lt': o == LT,
        'Le': o in (LT, EQ), 'le': o in (LT, EQ),
        'Gt': o == GT, 'gt': o == GT,
        'Ge': o in (GT, EQ), 'ge': o in (GT, EQ),
        'Eq': o == EQ, 'eq': o == EQ,
        'Ne': o != EQ, 'ne': o != EQ,
    }.get(op)


def is_cmp_term(t):
    if t[0] == 'binop' and t[1] in ('Lt', 'Le', 'Gt', 'Ge', 'Eq', 'Ne'):
        return True
    if t[0] == 'call' and len(t[2]) == 2:
        info = cinfo(t[1])
        if info['name'] in CMP_METHODS and (info['trait'] or '').split('::')[-1] in ('PartialOrd', 'Ord', 'PartialEq'):
            return True
    return False


def cmp_parts(t):
    if t[0] == 'binop':
        return t[1], t[2], t[3]
    return cinfo(t[1])['name'], t[2][0], t[2][1]


class Evaluator:
    """classify(a, b, cmp_term) -> (var, 'fwd'|'rev') or None; bool_atom(term) -> var or None.
    assumption: dict var -> outcome (Lt/Eq/Gt/None/Ne for comparisons, True/False for predicates)."""

    def __init__(self, facts, classify=None, bool_atom=None, assumption=None, expand_local=True):
        self.facts = facts
        self.classify = classify
        self.bool_atom = bool_atom
        self.assumption = assumption or {}
        self.expand_local = expand_local
        self.hits = {}     # var -> set of comparison terms classified
        self.memo = {}

    def ev(self, t, depth=0):
        if depth > 25:
            return None
        key = t
        if key in self.memo:
            return self.memo[key]
        r = self._ev(t, depth)
        self.memo[key] = r
        return r

    def _ev(self, t, depth):
        k = t[0]
        if k == 'const':
            v = t[1]
            if isinstance(v, bool):
                return v
            if isinstance(v, int):
                if t[2] == 'bool':
                    return bool(v)
                return v
            return None
        if k == 'lv':
            # a loop-head value: equal to its initialiser when the loop never touches the local (Reach tells us which)
            inv = getattr(self, 'invariant_lv', None)
            if inv is not None and inv(t[1], t[2]):
                return self.ev(t[3], depth + 1)
            return None
        if k == 'phi':
            vals = [self.ev(a, depth + 1) for a in t[1]]
            if vals and all(v is not None and v == vals[0] for v in vals):
                return vals[0]
            if self.bool_atom is None or self.bool_atom(t) is None:     # the merged value itself may be what an assumption is about
                return None
        if k == 'cast':
            return self.ev(t[2], depth + 1)
        if self.bool_atom is not None:
            var = self.bool_atom(t)
            if var is not None:
                neg = False
                conv = None
                if isinstance(var, tuple) and var[0] == 'not':
                    neg, var = True, var[1]
                elif isinstance(var, tuple) and var[0] == 'map':
                    conv, var = var[2], var[1]
                self.hits.setdefault(var, set()).add(t)
                if var in self.assumption:
                    v = self.assumption[var]
                    if conv is not None:
                        return conv.get(v)
                    return (not v) if neg else v
                return None
        if k == 'binop' and t[1] in ('BitAnd', 'BitOr'):
            va, vb = self.ev(t[2], depth + 1), self.ev(t[3], depth + 1)
            if t[1] == 'BitAnd':
                if va is False or vb is False:
                    return False
                return True if (va is True and vb is True) else None
            if va is True or vb is True:
                return True
            return False if (va is False and vb is False) else None
        rw = self._rewrite_cmp(t)
        if rw is not None:
            return self.ev(rw, depth + 1)
        if is_cmp_term(t):
            op, a, b = cmp_parts(t)
            if self.classify is not None:
                c = self.classify(a, b, t)
                if c is not None:
                    var, orient = c
                    self.hits.setdefault(var, set()).add(t)
                    if var not in self.assumption:
                        return None
                    o = self.assumption[var]
                    if orient == 'rev':
                        o = MIRROR[o]
                    if op == 'partial_cmp':
                        return ('optord', o)
                    if op == 'cmp':
                        return ('ord', o) if o != NONE else None
                    return cmp_bool(op, o)
            # equality / comparison of two evaluable values
            va, vb = self.ev(a, depth + 1), self.ev(b, depth + 1)
            if va is not None and vb is not None:
                if op in ('Eq', 'eq'):
                    return va == vb
                if op in ('Ne', 'ne'):
                    return va != vb
                if isinstance(va, int) and isinstance(vb, int) and not isinstance(va, bool):
                    o = LT if va < vb else (GT if va > vb else EQ)
                    if op == 'partial_cmp':
                        return ('optord', o)
                    if op == 'cmp':
                        return ('ord', o)
                    return cmp_bool(op, o)
            return None
        if k == 'unop' and t[1] == 'Not':
            v = self.ev(t[2], depth + 1)
            if isinstance(v, bool):
                return not v
            return None
        if k == 'agg':
            path = t[1]
            if path.endswith('cmp::Ordering') and t[2] in ORD_CONST:
                return ('ord', ORD_CONST[t[2]])
            if path.endswith('option::Option'):
                if t[2] == 'None':
                    return ('optnone',)
                inner = self.ev(t[3][0][1], depth + 1) if t[3] else None
                if inner is not None and isinstance(inner, tuple) and inner[0] == 'ord':
                    return ('optord', inner[1])
                return ('optsome', inner)
            return None
        if k == 'discr':
            v = self.ev(t[1], depth + 1)
            if v is None:
                return None
            if isinstance(v, bool):
                return int(v)
            if isinstance(v, tuple):
                if v[0] == 'optord':
                    return 0 if v[1] == NONE else 1
                if v[0] == 'optnone':
                    return 0
                if v[0] == 'optsome':
                    return 1
                if v[0] == 'ord':
                    return ORD_INT[v[1]]
            return None
        if k == 'field' and t[2] == 'Some.0':
            v = self.ev(t[1], depth + 1)
            if isinstance(v, tuple):
                if v[0] == 'optord' and v[1] != NONE:
                    return ('ord', v[1])
                if v[0] == 'optsome':
                    return v[1]
            return None
        if k == 'call':
            n = call_name(t)
            info = cinfo(t[1])
            d = info['def'] or ''
            if n in ('is_none', 'is_some') and 'option::Option' in d and t[2]:
                v = self.ev(t[2][0], depth + 1)
                if not isinstance(v, tuple):
                    dd = self.ev(('discr', t[2][0]), depth + 1)
                    if dd in (0, 1) and not isinstance(dd, bool):
                        v = ('optsome', None) if dd == 1 else ('optnone',)
                if isinstance(v, tuple):
                    none = (v[0] == 'optnone') or (v[0] == 'optord' and v[1] == NONE)
                    return none if n == 'is_none' else (not none)
                return None
            if n in ('is_lt', 'is_le', 'is_gt', 'is_ge', 'is_eq', 'is_ne') and 'cmp::Ordering' in d and t[2]:
                v = self.ev(t[2][0], depth + 1)
                if isinstance(v, tuple) and v[0] == 'ord':
                    return cmp_bool(n[3:].capitalize(), v[1])
                return None
            if n == 'reverse' and 'cmp::Ordering' in d and t[2]:
                v = self.ev(t[2][0], depth + 1)
                if isinstance(v, tuple) and v[0] == 'ord':
                    return ('ord', MIRROR[v[1]])
                return None
            if n in ('then', 'then_with') and 'cmp::Ordering' in d and len(t[2]) == 2:
                v = self.ev(t[2][0], depth + 1)
                if isinstance(v, tuple) and v[0] == 'ord':
                    if v[1] != EQ:
                        return v
                    w = self.ev(t[2][1], depth + 1) if n == 'then' else self._clo(t[2][1], None, depth)
                    return w if isinstance(w, tuple) and w[0] == 'ord' else None
                return None
            cv = self._ev_combinator(t, n, d, depth)
            if cv is not NotImplemented:
                return cv
            if self.expand_local and info['local'] and info['uid']:
                s = local_summary(self.facts, t)
                if s is not None:
                    return self.ev(s, depth + 1)
            return None
        return None

    # ---- equivalent spellings of a comparison
    def _rewrite_cmp(self, t):
        """`(a..b).is_empty()` is `a >= b`; `max(a, b) != a` is `b > a`, `min(a, b) != a` is `b < a`, and so on."""
        from .terms import drop_lv
        if t[0] == 'call' and call_name(t) == 'is_empty' and len(t[2]) == 1:
            r = drop_lv(t[2][0])
            if r[0] == 'agg' and r[1].endswith('ops::Range') and len(r[3]) == 2:
                f = dict(r[3])
                if 'start' in f and 'end' in f:
                    return ('binop', 'Ge', f['start'], f['end'])
        if is_cmp_term(t):
            op, a, b = cmp_parts(t)
            if op in ('Eq', 'Ne', 'eq', 'ne'):
                ta, tb = drop_lv(a), drop_lv(b)
                if ta[0] == 'tuple' and tb[0] == 'tuple' and len(ta[1]) == len(tb[1]) and ta[1]:
                    # (a1, a2) == (b1, b2)  is  a1 == b1 & a2 == b2
                    conj = None
                    for x_, y_ in zip(ta[1], tb[1]):
                        e_ = ('binop', 'Eq', x_, y_)
                        conj = e_ if conj is None else ('binop', 'BitAnd', conj, e_)
                    return conj if op in ('Eq', 'eq') else ('unop', 'Not', conj)
                for x, y in ((a, b), (b, a)):
                    xs = drop_lv(x)
                    if xs[0] == 'call' and call_name(xs) in ('max', 'min') and len(xs[2]) == 2 and not cinfo(xs[1])['local']:
                        p, q = xs[2]
                        ys = drop_lv(y)
                        mx = call_name(xs) == 'max'
                        ne = op in ('Ne', 'ne')
                        if drop_lv(p) == ys:      # max(p, q) == p  <=>  q <= p ;  min(p, q) == p  <=>  q >= p
                            return ('binop', ('Gt' if mx else 'Lt') if ne else ('Le' if mx else 'Ge'), q, p)
                        if drop_lv(q) == ys:
                            return ('binop', ('Gt' if mx else 'Lt') if ne else ('Le' if mx else 'Ge'), p, q)
        return None

    # ---- Option / bool combinators with pure closures, at term level
    def _clo(self, clo, payload, depth):
        from .terms import subst
        if clo[0] != 'closure':
            return None
        cb = self.facts.cb(clo[1]) if hasattr(self.facts, 'cb') else None
        if cb is None:
            return None
        m = {('upvar', k): v for k, v in enumerate(clo[2])}
        if payload is not None:
            m[('param', 2)] = payload
        rt = subst(interp(self.facts, cb).ret, m)
        v = self.ev(rt, depth + 1)
        if v is None:
            # an Option-valued result the evaluator cannot compute but whose presence an atom decides
            d = self.ev(('discr', rt), depth + 1)
            if d == 0 and not isinstance(d, bool):
                return ('optnone',)
            if d == 1 and not isinstance(d, bool):
                return ('optsome', None)
        return v

    def _ev_combinator(self, t, n, d, depth):
        args = t[2]
        if not args:
            return NotImplemented
        on_opt = 'option::Option' in d
        on_bool = d.startswith('bool::') or d.startswith('core::bool::') or (cinfo(t[1])['self_s'] == 'bool')
        if on_bool and n in ('then', 'then_some') and len(args) == 2:
            b = self.ev(args[0], depth + 1)
            if not isinstance(b, bool):
                return None
            if not b:
                return ('optnone',)
            inner = self._clo(args[1], None, depth) if n == 'then' else self.ev(args[1], depth + 1)
            return ('optord', inner[1]) if isinstance(inner, tuple) and inner and inner[0] == 'ord' else ('optsome', inner)
        if not on_opt or n not in ('or', 'or_else', 'and_then', 'map', 'filter', 'map_or', 'unwrap_or', 'is_some_and', 'is_none_or', 'xor'):
            return NotImplemented
        o = self.ev(args[0], depth + 1)
        if not isinstance(o, tuple) or o[0] not in ('optnone', 'optsome', 'optord'):
            # an Option the evaluator cannot compute but whose presence an atom decides (a lookup known to hit / miss)
            d = self.ev(('discr', args[0]), depth + 1)
            if d == 0 and not isinstance(d, bool):
                o = ('optnone',)
            elif d == 1 and not isinstance(d, bool):
                o = ('optsome', None)
            else:
                return None
        none = o[0] == 'optnone' or (o[0] == 'optord' and o[1] == NONE)
        payload = ('field', args[0], 'Some.0')
        if n in ('or', 'or_else') and len(args) == 2:
            if not none:
                return o
            return self.ev(args[1], depth + 1) if n == 'or' else self._clo(args[1], None, depth)
        if n == 'and_then' and len(args) == 2:
            return ('optnone',) if none else self._clo(args[1], payload, depth)
        if n == 'map' and len(args) == 2:
            if none:
                return ('optnone',)
            inner = self._clo(args[1], payload, depth)
            return ('optord', inner[1]) if isinstance(inner, tuple) and inner and inner[0] == 'ord' else ('optsome', inner)
        if n == 'filter' and len(args) == 2:
            if none:
                return ('optnone',)
            keep = self._clo(args[1], payload, depth)
            return o if keep is True else ('optnone',) if keep is False else None
        if n == 'map_or' and len(args) == 3:
            return self.ev(args[1], depth + 1) if none else self._clo(args[2], payload, depth)
        if n == 'unwrap_or' and len(args) == 2:
            if none:
                return self.ev(args[1], depth + 1)
            return ('ord', o[1]) if o[0] == 'optord' else o[1]
        if n == 'is_some_and' and len(args) == 2:
            return False if none else self._clo(args[1], payload, depth)
        if n == 'is_none_or' and len(args) == 2:
            return True if none else self._clo(args[1], payload, depth)
        return NotImplemented


def local_summary(facts, callterm, allow_writes=False):
    """Return term of a crate-local callee with the call's arguments substituted, when the
    callee is side-effect free on its parameters (or allow_writes) and its return term is precise."""
    info = cinfo(callterm[1])
    body = facts.by_uid.get(info['uid'])
    if body is None or body.derived:
        return None
    if body.arg_count != len(callterm[2]):
        return None
    it = interp(facts, body)
    if not allow_writes:
        for w in it.all_mutations():
            root = w.loc[0]
            if root[0] == 'P':
                return None
    ret = it.ret
    if ret[0] in ('top', 'undef'):
        return None
    m = {('param', i + 1): a for i, a in enumerate(callterm[2])}
    return subst(ret, m)


def local_post_summary(facts, callterm, i):
    """Value of the pointee of argument i after a call to a crate-local function, in terms of the call's arguments
    (None when the callee is unknown, writes other parameters too, or its final value is not precise)."""
    info = cinfo(callterm[1])
    body = facts.by_uid.get(info['uid'])
    if body is None or body.derived or body.arg_count != len(callterm[2]):
        return None
    it = interp(facts, body)
    vals = set()
    for bb, st in it.ret_store.items():
        vals.add(st.get(('P', i + 1), ('param', i + 1)))
    if len(vals) != 1:
        return None
    v = next(iter(vals))
    from .terms import subterms
    if any(x[0] in ('top', 'lv', 'phi') for x in subterms(v)):
        return None
    m = {('param', k + 1): a for k, a in enumerate(callterm[2])}
    return subst(v, m)


class Reach:
    """CFG reachability of one body under an assumption."""

    def __init__(self, facts, body, evaluator):
        self.facts = facts
        self.body = body
        self.it = interp(facts, body)
        self.evr = evaluator
        self.edges = {}
        self.unknown_switches = []
        self.decided_by_flow = {}
        self._rel = {}
        self._inv_memo = {}
        if getattr(evaluator, 'invariant_lv', None) is None:
            evaluator.invariant_lv = self._lv_invariant
        for bb in self.it.rpo:
            self.edges[bb] = self._succ(bb)
        self.reachable = self._reach(0, set())
        self._refine_const_locals()

    def _lv_invariant(self, head, name):
        """The local behind a loop-head value `lv@head(name)` is neither assigned, nor written by a call, nor mutably
        borrowed anywhere inside the loop: the widening was spurious and the value is the one from before the loop."""
        key = (head, name)
        if key in self._inv_memo:
            return self._inv_memo[key]
        res = False
        if isinstance(name, str) and name.startswith('L') and name[1:].isdigit():
            n = int(name[1:])
            it = self.it
            loop = {head}
            stack = [u for (u, h) in it.back_edges if h == head]
            while stack:
                x = stack.pop()
                if x in loop:
                    continue
                loop.add(x)
                stack.extend(it.preds.get(x, []))
            res = True
            for b in loop:
                blk = self.body.blocks[b]
                for st in blk['stmts']:
                    if st['k'] == 'assign':
                        if st['place']['local'] == n:
                            res = False
                        rv = st['rv']
                        if rv.get('k') in ('ref', 'rawptr') and rv.get('mut') and rv['place']['local'] == n:
                            res = False
                t = blk['term']
                if t['k'] == 'call' and t['dest']['local'] == n:
                    res = False
        self._inv_memo[key] = res
        return res

    def _succ(self, bb):
        sw = self.it.switches.get(bb)
        if sw is None:
            return list(self.it.succs[bb])
        v = self.evr.ev(sw.discr)
        if v is None or isinstance(v, tuple):
            self.unknown_switches.append(bb)
            return list(self.it.succs[bb])
        return self._take(bb, sw, v)

    def _take(self, bb, sw, v):
        if isinstance(v, bool):
            v = int(v)
        for val, tb in sw.targets:
            if val == v:
                return [tb] if not self.body.blocks[tb]['cleanup'] else []
        return [sw.otherwise]

    # ---- path-sensitive refinement for locals that only ever hold constants on the surviving paths
    # (`let seen = matches!(..)`, `a || b`, drop flags): under the assumption some definitions become
    # unreachable, and the switch on the local is decided by the constants that still reach it.
    def _local_defs(self, local):
        out = {}
        for bb in self.it.rpo:
            last = None
            for s in self.body.blocks[bb]['stmts']:
                if s['k'] == 'assign' and s['place']['local'] == local:
                    if s['place']['proj']:
                        last = ('x', bb)
                        continue
                    rv = s['rv']
                    if rv['k'] == 'use' and rv['op']['k'] == 'const' and rv['op'].get('val') is not None:
                        last = ('c', rv['op']['val'])
                    elif rv['k'] == 'use' and rv['op']['k'] in ('copy', 'move') and not rv['op']['place']['proj']:
                        last = ('copy', rv['op']['place']['local'], bb)
                    elif rv['k'] == 'unop' and rv['op'] == 'Not' and rv['op1']['k'] in ('copy', 'move') and not rv['op1']['place']['proj']:
                        last = ('not', rv['op1']['place']['local'], bb)
                    elif rv['k'] == 'discr' and not rv['place']['proj']:
                        last = ('discr', rv['place']['local'], bb)
                    elif rv['k'] == 'agg' and rv.get('agg') == 'adt' and rv.get('is_enum') and 'vidx' in rv:
                        last = ('variant', rv['vidx'])
                    else:
                        # any other expression whose value the evaluator can decide under the assumption (`a == b`, `x < y`)
                        last = ('x', bb)
                        si_ = self.body.blocks[bb]['stmts'].index(s)
                        av = self.it.assign_vals.get((bb, si_))
                        if av is not None and av[0] == local:
                            v_ = self.evr.ev(av[1])
                            if isinstance(v_, bool):
                                last = ('c', int(v_))
                            elif isinstance(v_, int):
                                last = ('c', v_)
            t = self.body.blocks[bb]['term']
            if t['k'] == 'call' and t['dest']['local'] == local:
                # the value of a call: decided if the evaluator can evaluate the call term
                c = self.it.calls.get(bb)
                v = self.evr.ev(c.term) if c is not None else None
                if isinstance(v, bool):
                    last_call = ('c', int(v))
                elif isinstance(v, int):
                    last_call = ('c', v)
                else:
                    last_call = ('x', bb)
                    # an enum-valued call whose variant the evaluator can decide under the assumption (an Option known to be Some)
                    dv = self.evr.ev(('discr', c.term)) if c is not None else None
                    if isinstance(dv, int) and not isinstance(dv, bool):
                        last_call = ('variant', dv)
                out[(bb, 'term')] = last_call
            if last is not None:
                out[(bb, 'stmts')] = last
        return out

    def _flow(self, local, region=None, start=None, edges=None):
        """Reaching definitions of `local` (IN, OUT per block) over the pruned CFG, optionally restricted to the blocks
        reachable from `start` (then IN[start] is taken from the unrestricted analysis)."""
        defs = self._local_defs(local)
        edges = edges or self.edges
        blocks = region if region is not None else self.reachable
        preds = {}
        for x in blocks:
            for y in edges.get(x, []):
                if y in blocks:
                    preds.setdefault(y, []).append(x)
        IN = {b: set() for b in blocks}
        OUT = {b: set() for b in blocks}
        seed = None
        if region is not None and start is not None:
            gIN, _ = self._flow(local)
            seed = set(gIN.get(start, set()))
        changed = True
        guard = 0
        while changed and guard < 200:
            guard += 1
            changed = False
            for b in self.it.rpo:
                if b not in blocks:
                    continue
                if region is None:
                    inn = {('undef',)} if b == 0 else set()
                else:
                    inn = set(seed) if b == start else set()
                for p_ in preds.get(b, []):
                    inn |= OUT[p_]
                d = defs.get((b, 'stmts'))
                after_stmts = {d} if d is not None else inn
                dt = defs.get((b, 'term'))
                out = {dt} if dt is not None else after_stmts
                if inn != IN[b] or out != OUT[b]:
                    IN[b], OUT[b] = inn, out
                    changed = True
        return IN, OUT

    def _values_at(self, local, at_bb, depth=0, region=None, start=None, edges=None):
        """Set of possible constant values of `local` at the end of block at_bb's statements over the pruned CFG
        (None in the set = unknown)."""
        if depth > 4:
            return {None}
        defs = self._local_defs(local)
        if not defs:
            return {None}
        IN, OUT = self._flow(local, region, start, edges)
        d = defs.get((at_bb, 'stmts'))
        cur = {d} if d is not None else IN.get(at_bb, set())
        vals = set()
        for x in cur:
            if x[0] == 'c':
                vals.add(x[1])
            elif x[0] == 'variant':
                vals.add(('variant', x[1]))
            elif x[0] == 'discr':
                inner = self._values_at(x[1], x[2], depth + 1, region, start, edges)
                for v in inner:
                    vals.add(v[1] if isinstance(v, tuple) and v[0] == 'variant' else None)
            elif x[0] in ('copy', 'not'):
                inner = self._values_at(x[1], x[2], depth + 1, region, start, edges)
                for v in inner:
                    if v is None or isinstance(v, tuple):
                        vals.add(v if (x[0] == 'copy' and v is not None) else None)
                    else:
                        vals.add(v if x[0] == 'copy' else int(not v))
            else:
                vals.add(None)
        return vals or {None}

    def rel_edges(self, start, stops=()):
        """Edges refined for paths that begin at `start` (per-iteration questions): a switch on a constant-holding local
        is decided by the definitions that reach it along paths from `start` only."""
        if start == 0:
            return self.edges
        key = (start, tuple(sorted(stops)))
        if key in self._rel:
            return self._rel[key]
        edges = dict(self.edges)
        for _round in range(6):
            region = self._reach(start, set(stops) - {start}, edges)
            progress = False
            for bb in self.unknown_switches:
                if bb not in region or bb in self.decided_by_flow:
                    continue
                t = self.body.blocks[bb]['term']
                d = t.get('discr')
                if not d or d['k'] not in ('copy', 'move') or d['place']['proj']:
                    continue
                cur = edges.get(bb)
                if cur is not None and len(cur) <= 1:
                    continue
                vals = self._values_at(d['place']['local'], bb, 0, region, start, edges)
                if vals == {0, 1}:
                    lq = self._loop_quant_value(d['place']['local'], bb)
                    if lq is not None:
                        vals = {lq}
                if len(vals) == 1 and None not in vals and not isinstance(next(iter(vals)), tuple):
                    edges[bb] = self._take(bb, self.it.switches[bb], next(iter(vals)))
                    progress = True
            if not progress:
                break
        self._rel[key] = edges
        return edges

    def arg_terms(self, bb, i):
        """Path-sensitive alternatives of argument i of the call ending block bb (a phi of the arms of an earlier
        `match` is resolved to the arms that survive the assumption)."""
        c = self.it.calls.get(bb)
        if c is None or i >= len(c.args):
            return set()
        v = c.args[i].val
        if v[0] != 'phi' and v != ('top',):
            return {v}
        op = self.body.blocks[bb]['term']['args'][i]
        if op['k'] in ('copy', 'move') and all(e['k'] == 'deref' for e in op['place']['proj']):
            ts = self.reaching_terms(op['place']['local'], bb)
            out = set()
            for t in ts:
                out |= set(t[1]) if t[0] == 'phi' else {t}
            return out
        return set(v[1]) if v[0] == 'phi' else {v}

    def _reaching_def_sites(self, local, at_bb):
        """(bb, stmt index | 'dest') of the definitions of `local` reaching the end of at_bb's statements on surviving paths."""
        defs = {}
        for (bb, si), (l, val, rv) in self.it.assign_vals.items():
            if l == local:
                defs.setdefault(bb, []).append(si)
        preds = {}
        for x in self.reachable:
            for y in self.edges.get(x, []):
                preds.setdefault(y, []).append(x)

        def last_in(bb):
            ds = defs.get(bb)
            if not ds:
                return None
            if 'dest' in ds:
                return (bb, 'dest')
            return (bb, max(ds))
        IN = {b: set() for b in self.reachable}
        OUT = {b: set() for b in self.reachable}
        changed, guard = True, 0
        while changed and guard < 200:
            guard += 1
            changed = False
            for b in self.it.rpo:
                if b not in self.reachable:
                    continue
                inn = {('entry',)} if b == 0 else set()
                for p_ in preds.get(b, []):
                    inn |= OUT[p_]
                l = last_in(b)
                out = {l} if l is not None else inn
                if inn != IN[b] or out != OUT[b]:
                    IN[b], OUT[b] = inn, out
                    changed = True
        ds = [x for x in defs.get(at_bb, []) if x != 'dest']
        return {(at_bb, max(ds))} if ds else IN.get(at_bb, set())

    def _agg_operand_sites(self, local, at_bb, idx, depth):
        """`local` holds an aggregate built from plain locals on every surviving path (possibly copied around): the
        (operand local, block) pairs of its field `idx`; None when some reaching definition is anything else."""
        if depth > 5:
            return None
        out = []
        sites = self._reaching_def_sites(local, at_bb)
        if not sites:
            return None
        for d2 in sites:
            if d2 == ('entry',) or d2[1] == 'dest':
                return None
            b2, s2 = d2
            rv2 = self.body.blocks[b2]['stmts'][s2].get('rv') or {}
            o2 = rv2.get('ops') or []
            if rv2.get('k') == 'agg' and rv2.get('agg') in ('tuple', 'adt') and idx < len(o2) \
                    and o2[idx]['k'] in ('copy', 'move') and not o2[idx]['place']['proj']:
                out.append((o2[idx]['place']['local'], b2))
            elif rv2.get('k') == 'use' and rv2['op']['k'] in ('copy', 'move') and not rv2['op']['place']['proj']:
                inner = self._agg_operand_sites(rv2['op']['place']['local'], b2, idx, depth + 1)
                if inner is None:
                    return None
                out += inner
            else:
                return None
        return out

    def reaching_terms(self, local, at_bb, depth=0):
        """Value terms of the definitions of `local` that reach the end of the statements of block at_bb on the paths
        that survive the assumption (path-sensitive provenance).  Copies/moves of plain locals are followed."""
        if depth > 6:
            return {('top',)}
        defs = {}
        for (bb, si), (l, val, rv) in self.it.assign_vals.items():
            if l == local:
                defs.setdefault(bb, []).append((si, val, rv))
        preds = {}
        for x in self.reachable:
            for y in self.edges.get(x, []):
                preds.setdefault(y, []).append(x)

        def last_in(bb):
            ds = defs.get(bb)
            if not ds:
                return None
            dd = [d for d in ds if d[0] == 'dest']
            if dd:
                return (bb, 'dest')
            return (bb, max(d[0] for d in ds))

        def last_stmt_in(bb):
            ds = [d[0] for d in defs.get(bb, []) if d[0] != 'dest']
            return (bb, max(ds)) if ds else None
        IN = {b: set() for b in self.reachable}
        OUT = {b: set() for b in self.reachable}
        changed = True
        guard = 0
        while changed and guard < 200:
            guard += 1
            changed = False
            for b in self.it.rpo:
                if b not in self.reachable:
                    continue
                inn = {('entry',)} if b == 0 else set()
                for p_ in preds.get(b, []):
                    inn |= OUT[p_]
                l = last_in(b)
                out = {l} if l is not None else inn
                if inn != IN[b] or out != OUT[b]:
                    IN[b], OUT[b] = inn, out
                    changed = True
        l = last_stmt_in(at_bb)
        cur = {l} if l is not None else IN.get(at_bb, set())
        terms = set()
        for d in cur:
            if d == ('entry',):
                if 1 <= local <= self.body.arg_count:
                    terms.add(('param', local))
                continue
            bb, si = d
            _l, val, rv = self.it.assign_vals[(bb, si)]
            if rv is not None and rv['k'] == 'use' and rv['op']['k'] in ('copy', 'move') and not rv['op']['place']['proj']:
                terms |= self.reaching_terms(rv['op']['place']['local'], bb, depth + 1)
            elif rv is not None and rv['k'] == 'ref' and rv['place']['proj'] and all(e['k'] == 'deref' for e in rv['place']['proj']):
                # a reborrow `&*r`: references are transparent, follow r
                terms |= self.reaching_terms(rv['place']['local'], bb, depth + 1)
            elif rv is not None and rv['k'] == 'use' and rv['op']['k'] in ('copy', 'move') and \
                    all(e['k'] in ('field', 'downcast') and e.get('owner') != 'closure' for e in rv['op']['place']['proj']):
                # a projection of a local (tuple / struct destructuring): project every reaching value of the base
                from .interp import proj as _proj
                # the base was built by an aggregate of plain locals (`(prev, next)` then `.0`): follow the operand itself, so
                # that the provenance stays path-sensitive through the tuple
                pj = [e for e in rv['op']['place']['proj'] if e['k'] != 'downcast']
                followed = False
                if len(pj) == 1 and pj[0]['k'] == 'field' and 'idx' in pj[0]:
                    ops = self._agg_operand_sites(rv['op']['place']['local'], bb, pj[0]['idx'], 0)
                    if True:
                        if ops:
                            for l2, b2 in ops:
                                terms |= self.reaching_terms(l2, b2, depth + 1)
                            followed = True
                if followed:
                    continue
                base = self.reaching_terms(rv['op']['place']['local'], bb, depth + 1)
                for bt in base:
                    cur = bt
                    ok = True
                    for e in rv['op']['place']['proj']:
                        if e['k'] == 'downcast':
                            continue
                        n = self.it.elem_name(e)
                        if isinstance(n, tuple):
                            ok = False
                            break
                        cur = _proj(cur, n)
                    terms.add(cur if ok else val)
            else:
                terms.add(val)
        return terms

    def _refine_const_locals(self):
        for _round in range(6):
            progress = False
            for bb in list(self.unknown_switches):
                if bb not in self.reachable or bb in self.decided_by_flow:
                    continue
                t = self.body.blocks[bb]['term']
                d = t.get('discr')
                if not d or d['k'] not in ('copy', 'move') or d['place']['proj']:
                    continue
                vals = self._values_at(d['place']['local'], bb)
                if vals == {0, 1}:
                    lq = self._loop_quant_value(d['place']['local'], bb)
                    if lq is not None:
                        vals = {lq}
                if len(vals) == 1 and None not in vals and not isinstance(next(iter(vals)), tuple):
                    v = next(iter(vals))
                    sw = self.it.switches[bb]
                    self.edges[bb] = self._take(bb, sw, v)
                    self.decided_by_flow[bb] = v
                    progress = True
            if not progress:
                break
            self.reachable = self._reach(0, set())

    def loop_quant_term(self, local, bb):
        """(term, negated) when the boolean `local` read in block bb is — through copies and negations — a loop-form
        quantifier (rules/loops.loop_quant_of_local): the term ('loopq', key) stands for `local holds its in-loop value`."""
        from .rules.loops import loop_quant_of_local
        neg = False
        for _ in range(6):
            d = loop_quant_of_local(self.facts, self.body, self.it, local, bb)
            if d is not None:
                return ('loopq', d['key']), (neg != (d['b'] == 0)), d
            defs = self._local_defs(local)
            IN, OUT = self._flow(local)
            dd = defs.get((bb, 'stmts'))
            cur = {dd} if dd is not None else IN.get(bb, set())
            if len(cur) != 1:
                return None
            x = next(iter(cur))
            if x[0] == 'copy':
                local, bb = x[1], x[2]
            elif x[0] == 'not':
                local, bb, neg = x[1], x[2], not neg
            else:
                return None
        return None

    def _loop_quant_value(self, local, bb):
        """0/1 when the evaluator's assumption decides the loop-form quantifier behind `local` at bb, else None."""
        if self.evr.bool_atom is None:
            return None
        r = self.loop_quant_term(local, bb)
        if r is None:
            return None
        term, neg, d = r
        v = self.evr.ev(term)       # True = some iteration reached a site
        if not isinstance(v, bool):
            return None
        return int(v != neg)

    def _reach(self, start, removed, edges=None):
        edges = edges if edges is not None else (self.rel_edges(start, tuple(removed)) if (start != 0 and hasattr(self, '_rel') and self.unknown_switches) else self.edges)
        seen = set()
        if start in removed:
            return seen
        stack = [start]
        while stack:
            x = stack.pop()
            if x in seen or x in removed:
                continue
            seen.add(x)
            for y in edges.get(x, []):
                if y not in seen and y not in removed:
                    stack.append(y)
        return seen

    def return_blocks(self):
        return [bb for bb in self.it.rpo if self.body.blocks[bb]['term']['k'] == 'return']

    def must_pass(self, sites, start=0, stops=()):
        """Every normal path from `start` to Return (or to a block in `stops`) passes a block in sites."""
        sites = set(sites)
        if start in sites:
            return True
        edges = self.rel_edges(start, tuple(stops)) if start != 0 else self.edges
        seen = self._reach(start, sites, edges)
        for r in self.return_blocks():
            if r in seen:
                return False
        for x in seen:
            for y in edges.get(x, []):
                if y in stops and y not in sites:
                    return False
        return True

    def escape_path(self, sites, start=0, stops=()):
        """A witness path from start to Return/stop avoiding sites (for reports)."""
        sites = set(sites)
        prev = {start: None}
        queue = [start]
        goal = None
        rets = set(self.return_blocks())
        while queue and goal is None:
            x = queue.pop(0)
            if x in rets:
                goal = x
                break
            for y in self.edges.get(x, []):
                if y in sites:
                    continue
                if y in stops:
                    prev[y] = x
                    goal = y
                    break
                if y not in prev:
                    prev[y] = x
                    queue.append(y)
        if goal is None:
            return None
        path = []
        while goal is not None:
            path.append(goal)
            goal = prev[goal]
        return path[::-1]

    def path_to(self, target, start=0):
        prev = {start: None}
        queue = [start]
        while queue:
            x = queue.pop(0)
            if x == target:
                break
            for y in self.edges.get(x, []):
                if y not in prev:
                    prev[y] = x
                    queue.append(y)
        if target not in prev:
            return None
        path = []
        g = target
        while g is not None:
            path.append(g)
            g = prev[g]
        return path[::-1]

    def can_reach(self, sites, start=0):
        seen = self._reach(start, set())
        return any(s in seen for s in sites)


def ordering_set(facts, body, var, domain, classify=None, bool_atom=None, fixed=None, sites=None, start=0):
    """For each outcome o of `var`, whether any/all of `sites` is reachable / must be passed.
    Returns dict o -> {'may': set of reachable sites, 'must': bool, 'hits': n}."""
    out = {}
    for o in domain:
        asm = dict(fixed or {})
        asm[var] = o
        evr = Evaluator(facts, classify, bool_atom, asm)
        r = Reach(facts, body, evr)
        may = set(s for s in sites if s in r.reachable)
        out[o] = {'may': may, 'must': r.must_pass(sites, start), 'hits': sum(len(v) for v in evr.hits.values()),
                  'hit_terms': dict(evr.hits), 'reach': r}
    return out
