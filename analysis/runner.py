"""./check <ID> quick|thorough  — decide one property from /repo's current source (static analysis only)."""
import json
import os
import zlib
import sys
import time

from . import core, extract, facts as F
from . import rules  # noqa: registers the rule table
from .props import PROPS

VERIF = core.VERIF


def fmt_result(r):
    return '%s:%s  rule %s instance %s in %s: %s' % (r.file, r.line, r.rule, r.instance, r.fn, r.msg)


def main(argv):
    if len(argv) < 2:
        print('usage: check <ID> quick|thorough')
        return 2
    pid = argv[1]
    tier = argv[2] if len(argv) > 2 else os.environ.get('VERIF_TIER', 'quick')
    if tier not in ('quick', 'thorough'):
        tier = 'quick'
    seed = int(os.environ.get('VERIF_SEED', '0') or 0)
    if pid not in PROPS:
        print('unknown or unclaimed property %s' % pid)
        return 2
    t0 = time.time()
    feature_sets = ['default', 'release', 'noqc']   # every configuration CFG-COVER counts as analysed
    all_results = []
    infos = []
    bodies_total = 0
    analysed = set()
    try:
        for fs in feature_sets:
            fd, info = extract.extract(fs)
            infos.append(info)
            facts = F.Facts(fd)
            bodies_total = max(bodies_total, len(facts.bodies))
            ctx = core.Ctx(facts, fs)
            core.run_rules(ctx, prop=pid)
            analysed |= ctx.analysed
            for r in ctx.results:
                if r.props is not None and pid not in r.props:
                    continue
                all_results.append((fs, r))
    except extract.InfraError as e:
        print('INFRASTRUCTURE ERROR (no verdict): %s' % e)
        return 2

    extra = {}
    if tier == 'thorough':
        from . import thorough
        extra = thorough.run(pid)

    known, fixed = core.load_known()
    # de-duplicate across feature sets by key
    seen = {}
    for fs, r in all_results:
        seen.setdefault((r.key, r.status), (fs, r))
    uniq = [v[1] for v in seen.values()]
    bad = [r for r in uniq if r.status in ('violation', 'shape')]
    oks = [r for r in uniq if r.status == 'ok']
    known_hits, new_viol = [], []
    for r in bad:
        if (pid, r.key) in known:
            known_hits.append(r)
        else:
            new_viol.append(r)
    for wv in extra.get('witness_violations', []):
        new_viol.append(wv)

    vdir = os.path.join(VERIF, 'evidence', 'violations')
    os.makedirs(vdir, exist_ok=True)
    for r in known_hits:
        print('KNOWN-FINDING: property=%s %s [%s]' % (pid, known[(pid, r.key)], r.key))
    for r in new_viol:
        path = os.path.join(vdir, '%s-%s-%s.json' % (pid, r.rule, zlib.crc32(r.key.encode()) % 100000))
        with open(path, 'w') as f:
            json.dump({'property': pid, **r.to_json(), 'how_to_replay': './check %s %s' % (pid, tier)}, f, indent=1)
        print('  ' + fmt_result(r))
        print('VIOLATION property=%s replay=%s' % (pid, path))

    rules_run = sorted(set(r.rule for r in uniq))
    nontrivial = sorted(set(r.key for r in uniq if r.status in ('ok', 'violation') and r.nontrivial))
    spec = PROPS[pid]
    samples = [r.to_json() for r in (bad + oks)[:12]]
    ev = {
        'property_id': pid, 'tier': tier, 'seed': seed, 'level': 'other',
        'coverage': {
            'explanation': spec['explanation'],
            'decides': spec['decides'], 'does_not_decide': spec['not_decided'],
            'technique': 'static analysis: rustc_private MIR fact extraction + origin-term abstract interpretation + '
                         'ordering-set (guard outcome) reachability + effect summaries; nothing is executed',
            'evaluations': len(uniq), 'distinct_nontrivial': len(nontrivial),
            'rule': 'one evaluation = one rule instance (function x clause) decided over all paths of the MIR; '
                    'non-trivial = the verdict was computed from at least one comparison/effect site found in the code',
            'obligations': len(uniq), 'discharged': len(oks) + len(known_hits),
            'rules': rules_run,
            'rule_instances': [r.key for r in uniq],
            'functions_analysed': sorted(analysed), 'bodies_in_crate': bodies_total,
            'feature_sets': feature_sets, 'extraction': infos,
            'known_findings': [r.key for r in known_hits],
            'samples': samples,
            **{k: v for k, v in extra.items() if k != 'witness_violations'},
        },
        'assumptions': [
            'normal-flow CFG only (state after a panic/unwind is out of scope)',
            'direct writes to pub fields and hostile deserialised input are outside "API call"',
            'MIR is polymorphic: every instantiation of the type parameters is covered; calls on bare type parameters are opaque',
            'a structural clause holding does not prove the behavioural property (see coverage.does_not_decide)',
        ],
        'wall_s': round(time.time() - t0, 2),
        'violations': len(new_viol),
    }
    os.makedirs(os.path.join(VERIF, 'evidence'), exist_ok=True)
    with open(os.path.join(VERIF, 'evidence', pid + '.json'), 'w') as f:
        json.dump(ev, f, indent=1, sort_keys=False)
    print('%s %s: %d rule instances over %d rules, %d ok, %d known findings, %d violations (%.1fs)'
          % (pid, tier, len(uniq), len(rules_run), len(oks), len(known_hits), len(new_viol), time.time() - t0))
    return 1 if new_viol else 0


if __name__ == '__main__':
    sys.exit(main(sys.argv))
