"""Development tool (not a registered check): systematic search for blind spots of the rules.

Generates small syntactic mutants of /repo's non-test source (one token-level edit each), analyses every mutant that still
compiles with ALL rules (scratch copies; /repo is never touched) and reports the mutants no rule objects to.  With
--tests the silent mutants are additionally run against the repository's own test suite in scratch worktrees, only to
*triage* them (a silent mutant the tests kill is certainly behaviour-changing, i.e. a blind spot; one the tests also pass
is either equivalent or a subtle break and is read by hand).  Nothing here decides a property; the output guides which
rules to strengthen and which mutants to add to selftest/.

usage: python3 -m analysis.mutscan [--files a.rs,b.rs] [--tests] [--out /tmp/mutscan.json] [--jobs N]
"""
import json
import os
import re
import shutil
import subprocess
import sys
import tempfile
import time

from . import core, extract, facts as F
from . import rules  # noqa

REPO = extract.REPO
SKIP_IMPL = re.compile(r'^impl.*\b(Arbitrary|Debug|Display|fmt::Display|fmt::Debug|Error)\b.* for ')

# (name, regex, replacement) applied to one occurrence on a code line
OPS = [
    ('ge->gt', r'>=', '>'), ('le->lt', r'<=', '<'),
    ('gt->ge', r'(?<= )>(?= )', '>='), ('lt->le', r'(?<= )<(?= )', '<='),
    ('gt->lt', r'(?<= )>(?= )', '<'), ('lt->gt', r'(?<= )<(?= )', '>'),
    ('if-true', r'\bif (?!let\b)([^{]+) \{\s*$', 'if true {'), ('if-false', r'\bif (?!let\b)([^{]+) \{\s*$', 'if false {'),
    ('and-left', r'([\w.()&*!]+) && ([\w.()&*!]+)', r'\1'), ('and-right', r'([\w.()&*!]+) && ([\w.()&*!]+)', r'\2'),
    ('stmt-drop', r'^\s*(self|other|[a-z_]+)(\.[a-z_]+)+\(.*\);\s*$', ''),
    ('break->continue', r'\bbreak;', 'continue;'),
    ('block-return', r'^(\s*)(if|for|while) ([^{]*)\{\s*$', r'\1\2 \3{ return;'),
    ('stmt->return', r'^(\s*)(self|other|[a-z_]+)(\.[a-z_]+)+\(.*\);\s*$', r'\1return;'),
    ('arg-swap', r'\((&?[a-z_][\w.]*), (&?[a-z_][\w.]*)\)', r'(\2, \1)'),
    ('rev-drop', r'\.rev\(\)', ''),
    ('plus->minus', r' \+ ', ' - '), ('minus->plus', r' - ', ' + '),
    ('pluseq->minuseq', r' \+= ', ' -= '),
    ('iter->skip1', r'\.iter\(\)', '.iter().skip(1)'),
    ('values->skip1', r'\.values\(\)', '.values().skip(1)'),
    ('into_iter->skip1', r'\.into_iter\(\)', '.into_iter().skip(1)'),
    ('clone->default', r'([a-z_.]+)\.clone\(\)', 'Default::default()'),
    ('eq->ne', r'==', '!='), ('ne->eq', r'!=', '=='),
    ('and->or', r'&&', '||'), ('or->and', r'\|\|', '&&'),
    ('plus1->plus2', r'\+ 1\b', '+ 2'), ('plus1->plus0', r'\+ 1\b', '+ 0'),
    ('zero->one', r'(?<![\w.])0(?![\w.])', '1'), ('one->zero', r'(?<![\w.+\- ] )(?<![\w.])1(?![\w.])', '0'),
    ('true->false', r'\btrue\b', 'false'), ('false->true', r'\bfalse\b', 'true'),
    ('min->max', r'\bmin\(', 'max('), ('max->min', r'\bmax\(', 'min('),
    ('self->other', r'\bself\.(clock|entries|deferred|dots|vals|val|dag|orphans|roots|seq|p|n|inner|value)\b', r'other.\1'),
    ('other->self', r'\bother\.(clock|entries|deferred|dots|vals|val|dag|orphans|roots|seq|p|n|inner|value)\b', r'self.\1'),
    ('not-drop', r'!(?=[a-z_(])', ''),
    ('some->none', r'\bSome\(([a-z_.&()*]+)\)', 'None'),
    ('greater->less', r'Ordering::Greater', 'Ordering::Less'), ('less->greater', r'Ordering::Less', 'Ordering::Greater'),
    ('equal->less', r'Ordering::Equal', 'Ordering::Less'),
    ('is_empty-neg', r'\.is_empty\(\)', '.is_empty() == false'),
    ('clone_without->clone', r'\.clone_without\([^)]*\)', '.clone()'),
    ('insert->or_insert', r'\.insert\(([^,()]+), ([^()]+)\);', r'.entry(\1).or_insert(\2);'),
    # a step that must happen on every path made conditional on something unrelated that is false now and then: the site stays,
    # only its "always" goes away (finds rules that see a call but never ask whether every path reaches it)
    ('stmt-guard', r'^(\s*)((self|other|[a-z_]+)(\.[a-z_]+)+\(.*\);)\s*$', r'\1if std::env::args().count() != 7 { \2 }'),
    ('closure-guard', r'\.(filter|retain|any|find)\((\|[^|]*\|) ([^{}]*)\)(?=[.;,)]|$)', r'.\1(\2 (\3) && std::env::args().count() != 7)'),
    ('all-guard', r'\.all\((\|[^|]*\|) ([^{}]*)\)(?=[.;,)]|\s*\{|$)', r'.all(\1 (\2) || std::env::args().count() == 7)'),
    ('loop-break', r'^(\s*)(for .*\{)\s*$', r'\1\2 if std::env::args().count() == 7 { break; }'),
    ('if-guard', r'^(\s*)(\} else )?if (?!let\b)([^{]+) \{\s*$', r'\1\2if (\3) && std::env::args().count() != 7 {'),
    ('return-guard', r'^(\s*)(return\b[^;]*;)\s*$', r'\1if std::env::args().count() != 7 { \2 }'),
    # a mutator that gives up now and then before doing anything (finds rules that accept a correct body without asking
    # whether every path runs it: a second "fast" implementation in front of the checked one hides the same way)
    ('fn-early-return', r'^(\s*)((?:pub )?fn \w+(?:<[^>]*>)?\(&mut self[^)]*\) \{)\s*$', r'\1\2 if std::env::args().count() == 7 { return; }'),
    # .. or that takes a second, wrong way now and then (here: forgetting everything) instead of the checked one
    ('fn-early-reset', r'^(\s*)((?:pub )?fn \w+(?:<[^>]*>)?\(&mut self[^)]*\) \{)\s*$', r'\1\2 if std::env::args().count() == 7 { *self = Default::default(); return; }'),
    # .. and the same for functions with a result: a "fast path" that answers with a plausible constant now and then
    ('fn-early-bool', r'^(\s*)((?:pub )?fn \w+(?:<[^>]*>)?\([^)]*\) -> bool \{)\s*$', r'\1\2 if std::env::args().count() == 7 { return false; }'),
    ('fn-early-bool', r'^(\s*)((?:pub )?fn \w+(?:<[^>]*>)?\([^)]*\) -> bool \{)\s*$', r'\1\2 if std::env::args().count() == 7 { return true; }'),
    ('fn-early-none', r'^(\s*)((?:pub )?fn \w+(?:<[^>]*>)?\([^)]*\) -> Option<[^{]*> \{)\s*$', r'\1\2 if std::env::args().count() == 7 { return None; }'),
    ('fn-early-ok', r'^(\s*)((?:pub )?fn \w+(?:<[^>]*>)?\([^)]*\) -> Result<\(\), [^{]*> \{)\s*$', r'\1\2 if std::env::args().count() == 7 { return Ok(()); }'),
    ('fn-early-zero', r'^(\s*)((?:pub )?fn \w+(?:<[^>]*>)?\([^)]*\) -> (?:u64|usize) \{)\s*$', r'\1\2 if std::env::args().count() == 7 { return 0; }'),
    ('fn-early-default', r'^(\s*)((?:pub )?fn \w+(?:<[^>]*>)?\([^)]*\) -> (?:Self|VClock<A>|Content<T>|ReadCtx<[^{]*>|BigInt|Vec<[^{]*>) \{)\s*$', r'\1\2 if std::env::args().count() == 7 { return Default::default(); }'),
    ('fn-early-self', r'^(\s*)((?:pub )?fn \w+(?:<[^>]*>)?\(&self[^)]*\) -> (?:Self|VClock<A>) \{)\s*$', r'\1\2 if std::env::args().count() == 7 { return self.clone(); }'),
    ('return-drop', r'^\s*return;\s*$', ''),
    ('continue-drop', r'^\s*continue;\s*$', ''),
]


def code_regions(path):
    """Yield (line_no, text) of non-test, non-comment code lines outside Arbitrary/Debug/Display impls."""
    lines = open(path).read().split('\n')
    out = []
    skip_depth = None
    depth = 0
    in_test = False
    for i, ln in enumerate(lines):
        s = ln.strip()
        if re.match(r'#\[cfg\((all\()?test', s):
            in_test = True
        if in_test:
            continue   # test modules are at the end of each file
        opens, closes = ln.count('{'), ln.count('}')
        if skip_depth is None and SKIP_IMPL.match(ln):
            skip_depth = depth
        d0 = depth
        depth += opens - closes
        if skip_depth is not None:
            if depth <= skip_depth and closes:
                skip_depth = None
            continue
        if not s or s.startswith('//') or s.startswith('#[') or s.startswith('use ') or s.startswith('pub use '):
            continue
        code = ln.split('//')[0]
        if '"' in code:
            continue   # leave string literals (messages) alone
        out.append((i, code))
    return lines, out


def gen_mutants(files):
    ms = []
    for f in files:
        path = os.path.join(REPO, 'src', f)
        lines, regs = code_regions(path)
        for i, code in regs:
            for name, rx, rep in OPS:
                for k, m in enumerate(re.finditer(rx, code)):
                    new = code[:m.start()] + m.expand(rep) + code[m.end():]
                    if new == code:
                        continue
                    ms.append({'file': f, 'line': i + 1, 'op': name, 'k': k, 'old': lines[i], 'new': new + ('' if '//' not in lines[i] else '')})
        # two adjacent plain statements exchanged (both still execute, in the other order)
        stmt = re.compile(r'^(\s*)[^/\s].*;\s*$')
        simple = re.compile(r'^\s*(let |return\b|break\b|continue\b|use |pub |fn |#)')
        regd = dict(regs)
        for i, code in regs:
            if i + 1 in regd and stmt.match(code) and stmt.match(regd[i + 1]) and not simple.match(code) and not simple.match(regd[i + 1]):
                if stmt.match(code).group(1) == stmt.match(regd[i + 1]).group(1) and code.count('(') == code.count(')') \
                        and regd[i + 1].count('(') == regd[i + 1].count(')'):
                    ms.append({'file': f, 'line': i + 1, 'op': 'stmt-swap', 'k': 0, 'old': lines[i], 'new': regd[i + 1] + '\n' + code, 'drop_next': True})
    return ms


def make_tree(mut):
    tmp = tempfile.mkdtemp(prefix='crdt-mut-')
    shutil.copytree(os.path.join(REPO, 'src'), os.path.join(tmp, 'src'))
    p = os.path.join(tmp, 'src', mut['file'])
    lines = open(p).read().split('\n')
    lines[mut['line'] - 1] = mut['new']
    if mut.get('drop_next'):
        del lines[mut['line']]
    open(p, 'w').write('\n'.join(lines))
    return tmp


def analyse(arg):
    mut, cmdline = arg
    tmp = make_tree(mut)
    try:
        try:
            fd = extract.extract_variant(tmp, cmdline)
        except extract.InfraError:
            return dict(mut, status='nocompile')
        facts = F.Facts(fd)
        ctx = core.Ctx(facts)
        core.run_rules(ctx)
        known, _ = core.load_known()
        kk = set(k for _, k in known)
        bad = [r for r in ctx.results if r.status in ('violation', 'shape') and r.key not in kk]
        return dict(mut, status='fired' if bad else 'silent', rules=sorted(set('%s/%s' % (r.rule, r.instance) for r in bad))[:6])
    except Exception as e:  # pragma: no cover
        return dict(mut, status='error', why=repr(e))
    finally:
        shutil.rmtree(tmp, ignore_errors=True)


def run_tests(arg):
    """Triage only: does the repository's own suite kill this mutant?  Runs in a scratch copy with a per-worker target dir."""
    mut = arg
    work = '/tmp/mutscan-w%d' % os.getpid()   # one directory (and target dir) per worker process
    os.makedirs(work, exist_ok=True)
    for d in ('src', 'test', 'examples'):
        shutil.rmtree(os.path.join(work, d), ignore_errors=True)
        if os.path.isdir(os.path.join(REPO, d)):
            shutil.copytree(os.path.join(REPO, d), os.path.join(work, d))
    for f in ('Cargo.toml', 'Cargo.lock'):
        shutil.copy(os.path.join(REPO, f), os.path.join(work, f))
    p = os.path.join(work, 'src', mut['file'])
    lines = open(p).read().split('\n')
    lines[mut['line'] - 1] = mut['new']
    open(p, 'w').write('\n'.join(lines))
    env = dict(os.environ, CARGO_NET_OFFLINE='true', CARGO_TARGET_DIR=os.path.join(work, 'target'))
    try:
        r = subprocess.run(['cargo', 'test', '--offline', '--no-fail-fast', '--', '--skip', 'prop_op_reordering_converges'],
                           cwd=work, env=env, capture_output=True, text=True, timeout=600)
        res = re.findall(r'^test result: (\w+)\. (\d+) passed; (\d+) failed', r.stdout, re.M)
        killed = r.returncode != 0
        failed = re.findall(r'^test (\S+) \.\.\. FAILED', r.stdout, re.M)[:5]
        return dict(mut, tests='killed' if killed else 'survived', failed=failed, suites=len(res))
    except subprocess.TimeoutExpired:
        return dict(mut, tests='timeout')


def main():
    args = sys.argv[1:]
    files = None
    out = '/tmp/mutscan.json'
    jobs = 14
    if '--files' in args:
        files = args[args.index('--files') + 1].split(',')
    if '--out' in args:
        out = args[args.index('--out') + 1]
    if '--jobs' in args:
        jobs = int(args[args.index('--jobs') + 1])
    if files is None:
        files = sorted(f for f in os.listdir(os.path.join(REPO, 'src')) if f.endswith('.rs') and f not in ('vvwe.rs',))
    ms = gen_mutants(files)
    if '--ops' in args:
        keep = set(args[args.index('--ops') + 1].split(','))
        ms = [m for m in ms if m['op'] in keep]
    print('%d mutants over %s' % (len(ms), ','.join(files)), flush=True)
    cmdline = extract.rustc_cmdline('default')
    from concurrent.futures import ProcessPoolExecutor
    t0 = time.time()
    with ProcessPoolExecutor(max_workers=jobs) as ex:
        res = list(ex.map(analyse, [(m, cmdline) for m in ms], chunksize=4))
    cnt = {}
    for r in res:
        cnt[r['status']] = cnt.get(r['status'], 0) + 1
    print('analysed in %.0fs: %s' % (time.time() - t0, cnt), flush=True)
    silent = [r for r in res if r['status'] == 'silent']
    if '--tests' in args and silent:
        slots = 5
        t0 = time.time()
        tested = []
        with ProcessPoolExecutor(max_workers=slots) as ex:
            tested = list(ex.map(run_tests, silent))
        by = {(t['file'], t['line'], t['op'], t['k']): t for t in tested}
        for r in res:
            t = by.get((r['file'], r['line'], r['op'], r['k']))
            if t:
                r['tests'] = t.get('tests')
                r['failed'] = t.get('failed')
        print('tests in %.0fs' % (time.time() - t0), flush=True)
    json.dump(res, open(out, 'w'), indent=1)
    for r in res:
        if r['status'] == 'silent':
            print('SILENT %s:%d [%s] %s  =>  %s   %s' % (r['file'], r['line'], r['op'], r['old'].strip()[:70], r['new'].strip()[:70],
                                                      (r.get('tests') or '') + ' ' + ','.join(r.get('failed') or [])))


if __name__ == '__main__':
    main()
