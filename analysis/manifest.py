"""Regenerate /verif/MANIFEST.json from the property table (python3 -m analysis.manifest)."""
import json
import os

from .props import PROPS, NOT_APPLICABLE

VERIF = os.path.dirname(os.path.dirname(os.path.abspath(__file__)))


def rules_for(pid):
    from . import core, rules  # noqa: F401  (registers the rule table)
    return sorted(rd.id for rd in core.RULES if pid in rd.props)


def main():
    checks = []
    for pid in sorted(PROPS):
        p = PROPS[pid]
        checks.append({
            'property_id': pid,
            'quick_cmd': './check %s quick' % pid,
            'thorough_cmd': './check %s thorough' % pid,
            'evidence_file': '/verif/evidence/%s.json' % pid,
            'replay_cmd_template': './check %s quick  # re-derives the report written to {path}' % pid,
            'engine': 'mir-rules',
            'level_claimed': {
                'category': 'other',
                'text': 'Static structural check of necessary conditions (clause level), decided over all MIR paths: '
                        + p['decides'] + '. Rules serving this property (rule table, each with a stated necessity argument): '
                        + ', '.join(rules_for(pid)) + '. Not decided: ' + p['not_decided'] + '.',
                'design_ref': p.get('design_ref', 'DESIGN.md §4 ' + pid),
            },
            'level_note': 'Trusted base: rustc nightly MIR (mir-opt-level=0) of the crate as built by cargo, the driver in '
                          'driver/, the abstract interpreter and rule table in analysis/. Normal-flow CFG only; pub-field '
                          'writes and hostile deserialisation out of scope. A clause holding does not prove the behaviour.',
            'technique': p.get('technique', 'static analysis: custom rustc_private MIR dataflow (origin terms, guard-outcome '
                                            'reachability, effect summaries, who-may-write), no execution'),
        })
    m = {
        'version': 1,
        'setup_cmd': './setup.sh',
        'hooks': {
            'guard': 'crdts_verif',
            'enable': 'none needed: the checks read the type-checked source (MIR) of the unmodified crate; no hook code exists',
            'baseline_off_cmd': 'cd /repo && cargo nextest run --workspace --no-fail-fast --tool-config-file pb:/w/lib/nextest.toml '
                                '--profile pb --test-threads 8 --offline',
            'source_commits': [],
            'add_only': True,
        },
        'engines': [
            {'name': 'mir-rules', 'path': 'driver/ + analysis/', 'serves_properties': sorted(PROPS),
             'kind_free_text': 'rustc_private MIR fact extractor + Python rule engine (abstract interpretation, ordering-set '
                               'reachability, effect summaries); compile_fail/no_run witnesses in witness/'},
        ],
        'checks': checks,
        'not_applicable': [{'property_id': k, 'reason': v} for k, v in sorted(NOT_APPLICABLE.items())],
        'notes': 'Technique family: static analysis only. Exit 0 = clause holds on every path analysed; exit 1 + VIOLATION line = '
                 'a specific construct breaks a rule; exit 2 = infrastructure (tree does not compile), no verdict. '
                 'known_findings.txt lists genuine defects of the pinned tree (KNOWN-FINDING lines, exit 0).',
    }
    with open(os.path.join(VERIF, 'MANIFEST.json'), 'w') as f:
        json.dump(m, f, indent=1)
    print('MANIFEST.json: %d checks, %d not applicable' % (len(checks), len(m['not_applicable'])))


if __name__ == '__main__':
    main()
