"""Record a sub-agent's seeded change under /verif/seeded/<id>/ after it was verified in its scratch worktree.
usage: python3 -m analysis.record_seed <prop> <a|b> "<what it needs to manifest>"
Applies the patch to /repo, runs ./check <prop> quick (and every other claimed property's rules through seedcheck),
and undoes it straight afterwards (git -C /repo checkout -- .)."""
import json
import os
import re
import shutil
import subprocess
import sys

from . import core, seedcheck

VERIF = core.VERIF


def main():
    pid, x, needs = sys.argv[1], sys.argv[2].lower(), sys.argv[3]
    X = x.upper()
    W = '%s-%s' % (os.environ.get('SEED_PREFIX', '/tmp/seed'), pid)
    ver = open(os.path.join(W, 'out', 'verify_%s.txt' % x)).read()
    flags = dict(re.findall(r'^(\w+)=(.*)$', ver, re.M))
    results = re.findall(r'^test result: (.*)$', ver, re.M)
    confirmed = (flags.get('PRISTINE_DEMO') == 'pass' and flags.get('BUILD') == 'ok' and flags.get('PATCHED_DEMO', '').startswith('fails')
                 and len(results) == 3 and all(r.startswith('ok') for r in results))
    sid = '%s-%s' % (pid, os.environ.get('SEED_SUFFIX_' + X, x))
    d = os.path.join(VERIF, 'seeded', sid)
    os.makedirs(d, exist_ok=True)
    patch = os.path.join(W, 'out', 'patch%s.diff' % X)
    shutil.copy(patch, os.path.join(d, 'patch.diff'))
    shutil.copy(os.path.join(W, 'out', 'demo_%s.rs' % x), os.path.join(d, 'demo.rs'))
    # all rules, scratch copy
    bad, err = seedcheck.run(patch)
    caught_all = sorted(set('%s/%s' % (r.rule, r.instance) for r in (bad or [])))
    props_hit = sorted(set(p for r in (bad or []) for p in seedcheck.core_props(r)))
    # the registered check against /repo itself
    subprocess.run(['git', '-C', '/repo', 'apply', os.path.join(d, 'patch.diff')], check=True)
    try:
        r = subprocess.run(['./check', pid, 'quick'], cwd=VERIF, capture_output=True, text=True)
        out = r.stdout
        rc = r.returncode
    finally:
        subprocess.run(['git', '-C', '/repo', 'checkout', '--', '.'], check=True)
    # restore the evidence of the unchanged tree
    subprocess.run(['./check', pid, 'quick'], cwd=VERIF, capture_output=True, text=True)
    meta = {
        'id': sid, 'breaks_property': pid, 'source': 'independent sub-agent (given only the property text and a scratch worktree)',
        'needs_to_manifest': needs,
        'confirmed_by_me': confirmed,
        'verification': {'pristine_demo': flags.get('PRISTINE_DEMO'), 'build_with_patch': flags.get('BUILD'),
                         'demo_with_patch': flags.get('PATCHED_DEMO'), 'test_suite_with_patch': results,
                         'commands': (['cargo test --offline --test demo (demo.rs as tests/demo.rs, pristine)', 'git apply patch.diff', 'cargo build --offline',
                                       'cargo test --offline --test demo', 'cargo test --offline --no-fail-fast -- --skip prop_op_reordering_converges (demo moved away)']
                                      if flags.get('DEMO_KIND') == 'test' else
                                      ['cargo run --offline --example demo (pristine)', 'git apply patch.diff', 'cargo build --offline',
                                       'cargo run --offline --example demo', 'cargo test --offline --no-fail-fast -- --skip prop_op_reordering_converges'])},
        'check_on_repo': {'cmd': './check %s quick' % pid, 'exit': rc, 'violation_lines': [l for l in out.splitlines() if 'rule ' in l or l.startswith('VIOLATION')][:6]},
        'caught_by_rules': caught_all, 'properties_reporting': props_hit,
        'detected': rc == 1,
    }
    json.dump(meta, open(os.path.join(d, 'meta.json'), 'w'), indent=1)
    print(sid, 'confirmed' if confirmed else 'NOT-CONFIRMED', 'detected' if rc == 1 else 'MISSED', caught_all)


if __name__ == '__main__':
    main()
