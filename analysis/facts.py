import re
"""Loader and pretty printer for the fact file produced by driver/."""
import json


class Body:
    def __init__(self, d):
        self.d = d
        self.key = d["key"]
        self.uid = d["uid"]
        self.base_uid = re.sub(r'#[isp]+$', '', d["uid"])   # identity of the source function whatever the view
        self.kind = d["kind"]
        self.name = d["name"]
        self.vis = d["vis"]
        self.parent = d["parent"]
        self.impl_self = d["impl_self"]
        self.impl_trait = d["impl_trait"]
        self.derived = d["derived"] or '_serde::' in d["key"] or '_serde::' in d["uid"]
        self.serde = '_serde::' in d["key"] or '_serde::' in d["uid"]
        self.captures = d["captures"]
        self.arg_count = d["arg_count"]
        self.span = d["span"]
        self.locals = d["locals"]
        self.blocks = d["blocks"]
        self.debug = d["debug"]
        self._names = None

    @property
    def file(self):
        return self.span["file"]

    @property
    def line(self):
        return self.span["line"]

    def local_names(self):
        if self._names is None:
            self._names = {}
            for v in self.debug:
                p = v["place"]
                if not p["proj"]:
                    self._names.setdefault(p["local"], v["name"])
        return self._names

    def normal_blocks(self):
        return [i for i, b in enumerate(self.blocks) if not b["cleanup"]]

    def succs(self, i):
        return term_succs(self.blocks[i]["term"])

    def __repr__(self):
        return "<Body %s>" % self.key


def term_succs(t):
    k = t["k"]
    if k == "goto":
        return [t["target"]]
    if k == "switch":
        return [b for _, b in t["targets"]] + [t["otherwise"]]
    if k in ("drop", "assert"):
        return [t["target"]]
    if k == "call":
        return [t["target"]] if t["target"] is not None else []
    return []


import itertools
_SERIAL = itertools.count(1)


def _eta_expand(d):
    """A crate-local function passed by name where a closure could stand (`iter.map(helper)`, `opt.and_then(Self::first)`)
    is the capture-less closure `|x| helper(x)`: rewrite the operand into exactly that closure (a synthetic closure body
    with one call), so that every recogniser and every view treats both spellings alike."""
    if d.get('_eta_done'):
        return
    d['_eta_done'] = True
    by_uid = {b['uid']: b for b in d['bodies']}
    new_bodies = []
    for b in list(d['bodies']):
        for bi, blk in enumerate(b['blocks']):
            t = blk['term']
            if t.get('k') != 'call' or blk.get('cleanup'):
                continue
            for ai, a in enumerate(t.get('args') or []):
                f = a.get('fn') if isinstance(a, dict) and a.get('k') == 'const' else None
                if not f:
                    continue
                cu = f.get('resolved_uid') or f.get('uid')
                cb = by_uid.get(cu)
                if cb is None or cb['kind'] not in ('Fn', 'AssocFn') or not (f.get('local') or str(cu).startswith('crdts::')):
                    continue
                n = cb['arg_count']
                syn = '%s::{eta#%d.%d}' % (b['uid'], bi, ai)
                cty = {'k': 'closure', 'def': syn, 'uid': syn, 's': '{eta %s}' % (cb.get('name') or cu)}
                locals_ = [cb['locals'][0], {'ty': {'k': 'ref', 'mut': False, 'ty': cty, 's': '&{eta}'}, 'mut': False}] + \
                    [cb['locals'][i] for i in range(1, n + 1)]
                span = t.get('span')
                body = {'key': '%s::{eta %s}' % (b['key'], cb.get('name') or cu), 'uid': syn, 'kind': 'Closure', 'name': None, 'vis': None,
                        'parent': b['uid'], 'impl_self': None, 'impl_trait': None, 'derived': b.get('derived', False), 'captures': [],
                        'arg_count': n + 1, 'span': span, 'locals': locals_, 'debug': [],
                        'blocks': [{'cleanup': False, 'stmts': [],
                                    'term': {'k': 'call', 'callee': f,
                                             'args': [{'k': 'move', 'place': {'local': i + 1, 'proj': []}} for i in range(1, n + 1)],
                                             'dest': {'local': 0, 'proj': []}, 'target': 1, 'span': span}},
                                   {'cleanup': False, 'stmts': [], 'term': {'k': 'return', 'span': span}}]}
                new_bodies.append(body)
                nl = len(b['locals'])
                b['locals'].append({'ty': cty, 'mut': False})
                blk['stmts'].append({'k': 'assign', 'place': {'local': nl, 'proj': []},
                                     'rv': {'k': 'agg', 'agg': 'closure', 'def': syn, 'uid': syn, 'ops': []}, 'span': span})
                t['args'][ai] = {'k': 'move', 'place': {'local': nl, 'proj': []}}
    d['bodies'].extend(new_bodies)


class Facts:
    def __init__(self, d):
        self.serial = next(_SERIAL)   # cache key: id() can be reused after garbage collection
        _eta_expand(d)
        self.d = d
        self.crate = d["crate"]
        self.bodies = [Body(b) for b in d["bodies"]]
        self.by_uid = {b.uid: b for b in self.bodies}
        self.by_key = {}
        for b in self.bodies:
            self.by_key.setdefault(b.key, []).append(b)
        self.adts = {}
        self.adts_by_uid = {}
        for a in d["adts"]:
            self.adts.setdefault(a["path"], a)
            self.adts_by_uid[a["uid"]] = a
        self.impls = [i for i in d["impls"] if not i.get("is_trait_def")]
        self.cfgs = d.get("cfgs")
        self.escapes = d.get("escapes")
        self.traits = [i for i in d["impls"] if i.get("is_trait_def")]
        self.children = {}
        for b in self.bodies:
            if b.parent:
                self.children.setdefault(b.parent, []).append(b)

    # ---- views: equivalent representations of a function (see analysis/inline.py)
    view = 'orig'

    def _v(self, b):
        if b is None or self.view == 'orig':
            return b
        from .inline import inlined
        return inlined(self, b, t1=('p' if 'p' in self.view else ('i' in self.view)), t2='s' in self.view)

    def cb(self, uid):
        """Closure (or any) body by uid, in the current view."""
        return self._v(self.by_uid.get(uid))

    def body(self, key):
        """Unique non-derived body with this canonical key (None when absent)."""
        bs = self.by_key.get(key, [])
        if len(bs) == 1:
            return self._v(bs[0])
        nd = [b for b in bs if not b.derived]
        if len(nd) == 1:
            return self._v(nd[0])
        return None

    def closures_of(self, body):
        return sorted(self.children.get(body.uid, []), key=lambda b: b.uid)

    def impls_of_trait(self, trait_suffix):
        return [i for i in self.impls if i["trait"] and i["trait"].endswith(trait_suffix)]

    def trait_impl_method(self, adt_path, trait_suffix, method):
        for b in self.bodies:
            if b.impl_self == adt_path and b.impl_trait and b.impl_trait.endswith(trait_suffix) and b.name == method:
                return self._v(b)
        return None

    def inherent_method(self, adt_path, method):
        for b in self.bodies:
            if b.impl_self == adt_path and not b.impl_trait and b.name == method:
                return self._v(b)
        return None


def load(path):
    with open(path) as f:
        return Facts(json.load(f))


# ---------------------------------------------------------------- printing

def fmt_place(p, names=None):
    s = "_%d" % p["local"]
    if names and p["local"] in names:
        s = "%s{%s}" % (s, names[p["local"]])
    for e in p["proj"]:
        k = e["k"]
        if k == "deref":
            s = "(*%s)" % s
        elif k == "field":
            s = "%s.%s" % (s, e["name"] if e["name"] is not None else e["idx"])
        elif k == "downcast":
            s = "(%s as %s)" % (s, e["variant"])
        elif k == "index":
            s = "%s[_%d]" % (s, e["local"])
        else:
            s = "%s.?%s" % (s, k)
    return s


def fmt_op(o, names=None):
    k = o["k"]
    if k in ("copy", "move"):
        return ("move " if k == "move" else "") + fmt_place(o["place"], names)
    if k == "const":
        if "fn" in o:
            return "fn:" + o["fn"]["def"]
        return "const %s" % (o["val"] if o["val"] is not None else o["s"])
    return "?" + k


def fmt_rv(rv, names=None):
    k = rv["k"]
    if k == "use":
        return fmt_op(rv["op"], names)
    if k == "ref":
        return ("&mut " if rv["mut"] else "&") + fmt_place(rv["place"], names)
    if k == "rawptr":
        return "&raw " + fmt_place(rv["place"], names)
    if k == "binop":
        return "%s(%s, %s)" % (rv["op"], fmt_op(rv["l"], names), fmt_op(rv["r"], names))
    if k == "unop":
        return "%s(%s)" % (rv["op"], fmt_op(rv["op1"], names))
    if k == "discr":
        return "discriminant(%s)" % fmt_place(rv["place"], names)
    if k == "agg":
        ops = [fmt_op(o, names) for o in rv["ops"]]
        if rv["agg"] == "adt":
            return "%s::%s{%s}" % (rv["path"], rv["variant"], ", ".join("%s: %s" % (f, o) for f, o in zip(rv["fields"], ops)))
        if rv["agg"] == "closure":
            return "closure %s [%s]" % (rv["def"], ", ".join(ops))
        return "%s(%s)" % (rv["agg"], ", ".join(ops))
    if k == "cast":
        return "%s as %s [%s]" % (fmt_op(rv["op"], names), rv["ty"]["s"], rv["cast"])
    if k == "repeat":
        return "[%s; n]" % fmt_op(rv["op"], names)
    return "?rv:" + rv.get("s", k)


def fmt_term(t, names=None):
    k = t["k"]
    if k == "goto":
        return "goto bb%d" % t["target"]
    if k == "switch":
        return "switch %s [%s, otherwise: bb%d]" % (fmt_op(t["discr"], names), ", ".join("%d: bb%d" % (v, b) for v, b in t["targets"]), t["otherwise"])
    if k == "call":
        c = t["callee"]
        if c:
            name = c["def"]
            if c["resolved"]:
                name += " => " + c["resolved"]
            elif c["trait"] and c["self_ty"]:
                name += " [Self=%s]" % c["self_ty"]["s"]
        else:
            name = "<indirect %s>" % fmt_op(t["func"], names)
        tgt = "bb%d" % t["target"] if t["target"] is not None else "!"
        return "%s = call %s(%s) -> %s" % (fmt_place(t["dest"], names), name, ", ".join(fmt_op(a, names) for a in t["args"]), tgt)
    if k == "drop":
        return "drop(%s) -> bb%d" % (fmt_place(t["place"], names), t["target"])
    if k == "assert":
        return "assert(%s == %s, %s) -> bb%d" % (fmt_op(t["cond"], names), t["expected"], t["msg"], t["target"])
    return k


def fmt_body(b, cleanup=False):
    names = b.local_names()
    out = ["fn %s  [%s:%d] args=%d" % (b.key, b.file, b.line, b.arg_count)]
    for i, l in enumerate(b.locals):
        out.append("  let _%d%s: %s" % (i, "{%s}" % names[i] if i in names else "", l["ty"]["s"]))
    for v in b.debug:
        if v["place"]["proj"]:
            out.append("  debug %s => %s" % (v["name"], fmt_place(v["place"])))
    for i, blk in enumerate(b.blocks):
        if blk["cleanup"] and not cleanup:
            continue
        out.append("  bb%d%s:" % (i, " (cleanup)" if blk["cleanup"] else ""))
        for st in blk["stmts"]:
            if st["k"] == "assign":
                out.append("    %s = %s    // L%d" % (fmt_place(st["place"], names), fmt_rv(st["rv"], names), st["span"]["line"]))
            elif st["k"] == "setdiscr":
                out.append("    discriminant(%s) = %d" % (fmt_place(st["place"], names), st["variant"]))
            elif st["k"] == "dead":
                out.append("    dead _%d" % st["local"])
        out.append("    " + fmt_term(blk["term"], names))
    return "\n".join(out)


if __name__ == "__main__":
    import sys
    f = load(sys.argv[1])
    for pat in sys.argv[2:]:
        for b in f.bodies:
            if pat in b.key and not b.derived:
                print(fmt_body(b))
                print()
