"""Forward abstract interpretation of one MIR body into *origin terms* (DESIGN §2.2 A1).

Nothing is executed: a term is a symbolic description of where a value comes
from (parameters, fields, calls, aggregates).  References are transparent for
reading; writes through references update a symbolic store keyed by the
location written.  Control-flow joins produce ``phi`` terms, loop-carried
values are widened to ``lv`` terms.

Terms (hashable tuples):
  ('param', i)                       value of argument i (pointee for reference parameters)
  ('upvar', k, name)                 k-th captured variable of a closure
  ('const', value, ty)               scalar constant (value int, or str when not a scalar)
  ('fn', key)                        function item used as a value
  ('field', t, name)                 projection; enum fields are 'Variant.field', tuple fields '0','1',..
  ('agg', path, variant, ((f,t),..)) ADT construction
  ('tuple', (t,..)) / ('array', (t,..))
  ('closure', uid, (t,..))           closure value with captured values
  ('call', callee_id, (t,..))        result of a call (argument values are snapshots)
  ('post', callterm, i)              value of the i-th argument's pointee after the call
  ('binop', op, a, b) ('unop', op, a) ('discr', t) ('cast', kind, t, ty)
  ('obj', base, ((f,t),..))          base with some fields overwritten
  ('phi', frozenset) ('lv', bb, key, base) ('top',) ('undef',) ('default',)
Env-only:
  ('ref', loc)   loc = (root, path); root = ('L',n) | ('P',i) | ('O',term)
"""
from collections import namedtuple

UNDEF = ('undef',)
TOP = ('top',)

CALLEES = {}  # callee_id -> descriptor dict (trait, name, self, local, def, resolved)

CallRec = namedtuple('CallRec', 'bb cid callee args term dest line exp')
ArgRec = namedtuple('ArgRec', 'val loc is_mut_ref ty')
WriteRec = namedtuple('WriteRec', 'bb loc val line kind')
SwitchRec = namedtuple('SwitchRec', 'bb discr targets otherwise signed bits line')

TRANSPARENT_NAMES = {
    ('std::clone::Clone', 'clone'), ('core::clone::Clone', 'clone'),
    ('std::borrow::Borrow', 'borrow'), ('std::convert::AsRef', 'as_ref'),
    ('std::ops::Deref', 'deref'), ('std::ops::DerefMut', 'deref_mut'),
    ('std::borrow::ToOwned', 'to_owned'),
}
ACCESSOR_NAMES = {'get_mut', 'iter_mut', 'values_mut', 'first_mut', 'last_mut', 'as_mut', 'as_mut_slice',
                  'get_or_insert_with', 'peek_mut', 'first_entry', 'last_entry'}
TRANSPARENT_DEFS = {
    'std::option::Option::cloned', 'std::option::Option::copied',
    'std::option::Option::as_ref', 'std::option::Option::as_mut',
    'std::boxed::Box::new',
}


def strip_ty_refs(ty):
    while ty and ty.get('k') == 'ref':
        ty = ty['ty']
    return ty


def ty_adt_path(ty):
    ty = strip_ty_refs(ty)
    if ty and ty.get('k') == 'adt':
        return ty['path']
    return None


def callee_id(c):
    """Stable identifier of a callee; registers a descriptor in CALLEES."""
    if c is None:
        return '<indirect>'
    key = c['resolved'] or c['def']
    self_ty = c['resolved_self'] if c['resolved'] else c['self_ty']
    self_adt = ty_adt_path(self_ty) if self_ty else None
    self_s = None
    if self_ty:
        st = strip_ty_refs(self_ty)
        self_s = self_adt or st.get('s')
    cid = key
    if self_s and self_s not in key:
        cid = '%s@%s' % (key, self_s)
    if True:  # always refresh: uids (impl numbering) differ between variants analysed in one process
        CALLEES[cid] = {
            'def': c['def'], 'resolved': c['resolved'], 'trait': c['trait'],
            # a crate-local free function is named `~name`: it can never be mistaken for the std function or method of the
            # same name that a recogniser gives a meaning to (a local `fn min`, `fn insert`, `fn take`, ..)
            'name': ('~' + c['name']) if (c['local'] and not self_ty and not c['trait'] and c['name']) else c['name'],
            'self': self_adt, 'self_s': self_s, 'local': c['local'] or (c['resolved'] or '').startswith(('crdts::', '<crdts::')) or str(c.get('resolved_uid') or '').startswith('crdts::'),
            'uid': c['resolved_uid'] or c['uid'],
            'self_kind': strip_ty_refs(self_ty).get('k') if self_ty else None,
        }
    return cid


def cinfo(cid):
    return CALLEES.get(cid, {'def': cid, 'resolved': None, 'trait': None, 'name': None, 'self': None,
                             'self_s': None, 'local': False, 'uid': None, 'self_kind': None})


# ------------------------------------------------------------------ term constructors

def mk_phi(alts):
    flat = set()
    for a in alts:
        if a[0] == 'phi':
            flat |= a[1]
        elif a != UNDEF:
            flat.add(a)
    if not flat:
        return UNDEF
    if TOP in flat:
        return TOP
    if len(flat) == 1:
        return next(iter(flat))
    if len(flat) > 8:
        return TOP
    return ('phi', frozenset(flat))


def term_depth(t, limit=60):
    # iterative bounded depth probe
    stack = [(t, 0)]
    seen = 0
    while stack:
        x, d = stack.pop()
        if d > limit:
            return d
        seen += 1
        if seen > 4000:
            return limit + 1
        if isinstance(x, tuple):
            for y in x:
                if isinstance(y, (tuple, frozenset)):
                    stack.append((y, d + 1))
        elif isinstance(x, frozenset):
            for y in x:
                stack.append((y, d + 1))
    return 0


def proj(t, name):
    k = t[0]
    if isinstance(name, tuple):
        # a by-value capture inside a closure object: ('upvar', idx, name)
        if k == 'closure' and name[0] == 'upvar' and name[1] < len(t[2]):
            return t[2][name[1]]
        if k == 'obj':
            for f, x in t[2]:
                if f == name:
                    return x
            return proj(t[1], name)
        if k == 'phi':
            return mk_phi([proj(a, name) for a in t[1]])
        if k in ('lv',):
            return proj(t[3], name)
        return TOP
    if k == 'agg':
        _, path, variant, fields = t
        fname = name
        if '.' in name and not name.split('.')[0].isdigit():
            v, fname = name.split('.', 1)
            if v != variant:
                return UNDEF  # projection of another variant: an unreachable path
        for f, x in fields:
            if f == fname:
                return x
        return ('field', t, name)
    if k == 'tuple' and name.isdigit():
        i = int(name)
        if i < len(t[1]):
            return t[1][i]
    if isinstance(name, str) and name.startswith('[') and name[1:-1].isdigit():
        if k == 'array' and int(name[1:-1]) < len(t[1]):
            return t[1][int(name[1:-1])]
        if k not in ('obj', 'phi', 'undef', 'top', 'at', 'lv'):
            return ('field', t, '[]')       # an element of something that is not an array literal: position unknown
    if k == 'obj':
        for f, x in t[2]:
            if f == name:
                return x
        return proj(t[1], name)
    if k == 'phi':
        return mk_phi([proj(a, name) for a in t[1]])
    if k in ('undef', 'top'):
        return t
    if k == 'at':
        return ('at', ('field', t[1], name), proj(t[2], name))
    return ('field', t, name)


def upd(t, path, v):
    if not path:
        return v
    f = path[0]
    if t[0] == 'obj':
        base, fields = t[1], dict(t[2])
    else:
        base, fields = t, {}
    cur = fields[f] if f in fields else proj(base, f)
    fields[f] = upd(cur, path[1:], v)
    return ('obj', base, tuple(sorted(fields.items())))


def read_path(t, path):
    for f in path:
        t = proj(t, f)
    return t


class State:
    __slots__ = ('env', 'store')

    def __init__(self, env=None, store=None):
        self.env = env if env is not None else {}
        self.store = store if store is not None else {}

    def copy(self):
        return State(dict(self.env), dict(self.store))


class Interp:
    def __init__(self, facts, body):
        self.facts = facts
        self.body = body
        self.calls = {}
        self.switches = {}
        self.writes = {}      # (bb, stmt index) -> WriteRec
        self.muts = {}        # (bb, arg index) -> WriteRec (via &mut escapes into calls)
        self.returns = {}
        self.ret_assigns = {}
        self.ret_store = {}
        self.assign_vals = {}   # (bb, stmt index | 'dest') -> (plain local or None, value term)
        self.in_states = {}
        self.first_in = {}
        self.visits = {}
        self.closure_env = body.kind == 'Closure'
        self.run()

    # -------------------------------------------------------------- setup
    def initial_state(self):
        st = State()
        b = self.body
        for i in range(1, b.arg_count + 1):
            ty = b.locals[i]['ty']
            if ty['k'] == 'ref':
                st.env[i] = ('ref', (('P', i), ()))
                st.store[('P', i)] = ('param', i)
            else:
                st.env[i] = ('param', i)
        return st

    # -------------------------------------------------------------- places
    def root_read(self, st, root):
        if root in st.store:
            return st.store[root]
        if root[0] == 'L':
            return st.env.get(root[1], UNDEF)
        if root[0] == 'P':
            return ('param', root[1])
        if root[0] == 'O':
            return root[1]
        if root[0] == 'R':
            return ('ref', root[1])
        if root[0] == 'V':
            return root[1]
        if root[0] == 'RP':
            return mk_phi([self.read_loc(st, l) for l in root[1]])
        return TOP

    def root_write(self, st, root, v):
        if root[0] == 'L':
            st.env[root[1]] = v
        elif root[0] == 'RP':
            for l in root[1]:
                self.write_loc(st, l, TOP)
        elif root[0] in ('R', 'V'):
            return
        else:
            st.store[root] = v

    def read_loc(self, st, loc):
        root, path = loc
        v = self.root_read(st, root)
        if v[0] == 'ref' and path:
            # a local holding a reference, projected: go through the reference
            inner = self.read_loc(st, v[1])
            return read_path(inner, path)
        if v[0] == 'refphi' and path:
            return mk_phi([read_path(self.read_loc(st, l), path) for l in v[1]])
        return self.rd(st, read_path(v, path))

    def rd(self, st, v):
        return v

    def write_loc(self, st, loc, v):
        root, path = loc
        if not path:
            self.root_write(st, root, v)
            return
        if root[0] == 'RP':
            for (r2, p2) in root[1]:
                self.write_loc(st, (r2, p2 + path), TOP)
            return
        cur = self.root_read(st, root)
        if cur[0] == 'ref':
            # projecting through a reference held in a local
            r2, p2 = cur[1]
            self.write_loc(st, (r2, p2 + path), v)
            return
        if cur[0] == 'refphi':
            for (r2, p2) in cur[1]:
                self.write_loc(st, (r2, p2 + path), TOP)
            return
        self.root_write(st, root, upd(cur, path, v))

    def elem_name(self, e):
        if e['owner'] == 'closure':
            return ('upvar', e['idx'], e['name'])
        if e['variant'] is not None:
            return '%s.%s' % (e['variant'], e['name'] if e['name'] is not None else e['idx'])
        if e['name'] is not None:
            return e['name']
        return str(e['idx'])

    def loc_of(self, st, place):
        """Location denoted by a MIR place."""
        root = ('L', place['local'])
        path = ()
        for e in place['proj']:
            k = e['k']
            if k == 'deref':
                v = self.read_loc(st, (root, path))
                if v[0] == 'ref':
                    root, path = v[1]
                elif v[0] == 'refphi':
                    root, path = ('RP', v[1]), ()
                else:
                    root, path = ('O', v), ()
            elif k == 'field':
                n = self.elem_name(e)
                if isinstance(n, tuple):
                    # closure upvar.  When the environment is a closure value built in this very body (a closure
                    # spliced in by analysis/inline.py) resolve the capture; otherwise a fresh opaque root named after it.
                    envv = strip_lv(self.read_loc(st, (root, path)))
                    if envv[0] == 'phi':
                        cands = [strip_lv(a) for a in envv[1] if strip_lv(a)[0] == 'closure']
                        if cands and all(c[1] == cands[0][1] for c in cands):
                            envv = cands[0]
                    if envv[0] == 'obj' and strip_lv(envv[1])[0] == 'closure':
                        envv = strip_lv(envv[1])   # the closure object after one of its by-value captures was updated
                    if envv[0] == 'closure' and e['idx'] < len(envv[2]):
                        locs = self._closure_locs.get((envv[1], envv[2])) or self._closure_locs.get(envv[1])
                        if locs and locs[e['idx']] is not None:
                            root, path = ('R', locs[e['idx']]), ()
                        elif root[0] in ('L', 'P'):
                            # captured by value: the capture lives inside the closure object held at this location, and
                            # the closure body may mutate it there (`move` closures that update and return what they own)
                            path = path + (n,)
                        else:
                            root, path = ('V', envv[2][e['idx']]), ()
                    else:
                        root, path = ('O', n), ()
                else:
                    path = path + (n,)
            elif k == 'downcast':
                continue
            elif k == 'cindex' and not e.get('from_end') and isinstance(e.get('offset'), int):
                path = path + ('[%d]' % e['offset'],)     # `let [p, n] = arr`: a known element of the array
            elif k in ('index', 'cindex'):
                path = path + ('[]',)
            else:
                path = path + ('?',)
        return (root, path)

    def read_place(self, st, place):
        loc = self.loc_of(st, place)
        return self.read_loc(st, loc)

    def value(self, st, v):
        """Resolve env-only reference values into the value they point to."""
        seen = 0
        while v[0] == 'ref' and seen < 10:
            v = self.read_loc(st, v[1])
            seen += 1
        if v[0] == 'refphi':
            return mk_phi([self.value(st, ('ref', l)) for l in v[1]])
        return v

    def operand(self, st, o):
        k = o['k']
        if k in ('copy', 'move'):
            return self.read_place(st, o['place'])
        if k == 'const':
            if 'fn' in o:
                return ('fn', callee_id(o['fn']))
            if o['val'] is not None:
                return ('const', o['val'], o['ty']['s'])
            if o.get('promoted'):
                # a promoted constant (`&Ordering::Equal`, `&0`): the value its own little MIR body returns
                pb = self.facts.by_uid.get(o['promoted'])
                if pb is not None and pb.uid != self.body.uid:
                    r = interp(self.facts, pb).ret
                    if r is not None and r not in (TOP, UNDEF):
                        return r
            return ('const', o['s'], o['ty']['s'])
        return TOP

    # -------------------------------------------------------------- rvalues
    def rvalue(self, st, rv):
        k = rv['k']
        if k == 'use':
            return self.operand(st, rv['op'])
        if k in ('ref', 'rawptr'):
            return ('ref', self.loc_of(st, rv['place']))
        if k == 'binop':
            a = self.value(st, self.operand(st, rv['l']))
            b = self.value(st, self.operand(st, rv['r']))
            op = rv['op']
            if op.endswith('WithOverflow'):
                return ('tuple', (('binop', op[:-len('WithOverflow')], a, b), ('ovf',)))
            return ('binop', op, a, b)
        if k == 'unop':
            return ('unop', rv['op'], self.value(st, self.operand(st, rv['op1'])))
        if k == 'discr':
            return ('discr', self.value(st, self.read_place(st, rv['place'])))
        if k == 'agg':
            ops = [self.operand(st, o) for o in rv['ops']]
            if rv['agg'] == 'adt':
                vals = tuple(self.value(st, o) for o in ops)
                return ('agg', rv['path'], rv['variant'], tuple(zip(rv['fields'], vals)))
            if rv['agg'] == 'closure':
                vals = tuple(self.at_wrap(o[1], self.value(st, o)) if o[0] == 'ref' else self.value(st, o) for o in ops)
                locs = tuple(o[1] if o[0] == 'ref' else None for o in ops)
                self._closure_locs[(rv['uid'], vals)] = locs
                self._closure_locs.setdefault(rv['uid'], locs)
                return ('closure', rv['uid'], vals)
            vals = tuple(self.value(st, o) for o in ops)
            if rv['agg'] == 'tuple':
                return ('tuple', vals)
            return ('array', vals)
        if k == 'cast':
            v = self.operand(st, rv['op'])
            if v[0] == 'ref':
                return v  # pointer casts keep the location
            if rv['cast'].startswith('PointerCoercion') or rv['cast'] in ('Transmute', 'PtrToPtr'):
                return v
            return ('cast', rv['cast'], self.value(st, v), rv['ty']['s'])
        if k == 'repeat':
            return ('array', (self.value(st, self.operand(st, rv['op'])),))
        return TOP

    # -------------------------------------------------------------- calls
    def do_call(self, st, bb, t):
        c = t['callee']
        cid = callee_id(c) if c else '<indirect>'
        info = cinfo(cid)
        raw = [self.operand(st, a) for a in t['args']]
        args = []
        for a, ao in zip(raw, t['args']):
            ty = None
            if ao['k'] in ('copy', 'move'):
                pl = ao['place']
                if not pl['proj']:
                    ty = self.body.locals[pl['local']]['ty']
            if a[0] == 'ref':
                is_mut = bool(ty and ty['k'] == 'ref' and ty['mut'])
                args.append(ArgRec(self.at_wrap(a[1], self.value(st, a)), a[1], is_mut, ty))
            elif a[0] == 'refphi':
                is_mut = bool(ty and ty['k'] == 'ref' and ty['mut'])
                args.append(ArgRec(self.value(st, a), (('RP', a[1]), ()), is_mut, ty))
            else:
                is_mut = bool(ty and ty['k'] == 'ref' and ty['mut'])
                loc = (('O', a), ()) if (ty and ty['k'] == 'ref') else None
                args.append(ArgRec(self.read_loc(st, loc) if loc else a, loc, is_mut, ty))
        vals = tuple(a.val for a in args)
        name_pair = (info['trait'], info['name'])
        d = info['def']
        line = t['span']['line']
        result = None
        mutate = True
        if info['name'] == 'map' and len(vals) == 2 and (info['self_s'] or '').startswith('[') and strip_lv(vals[0])[0] == 'array' \
                and strip_lv(vals[1])[0] == 'closure':
            # `[a, b].map(f)` is `[f(a), f(b)]`: the closure applied to every element, in place
            clo = strip_lv(vals[1])
            cb = self.facts.by_uid.get(clo[1])
            if cb is not None and cb.arg_count == 2:
                cr = interp(self.facts, cb)
                if not any(w.loc[0][0] in ('P', 'R') for w in cr.all_mutations()):
                    from .terms import subst as _subst
                    m0 = {('upvar', k_): v_ for k_, v_ in enumerate(clo[2])}
                    result = ('array', tuple(_subst(cr.ret, {**m0, ('param', 2): el}) for el in strip_lv(vals[0])[1]))
                    mutate = False
        if result is not None:
            pass
        elif (name_pair in TRANSPARENT_NAMES or d in TRANSPARENT_DEFS) and len(vals) >= 1:
            result = vals[0]
            mutate = False
        elif d in ('std::mem::take', 'core::mem::take') and args and args[0].loc is not None:
            result = vals[0]
            self.write_loc(st, args[0].loc, ('default',))
            self.muts[(bb, 0)] = WriteRec(bb, args[0].loc, ('default',), line, 'take')
            mutate = False
        elif d in ('std::mem::replace', 'core::mem::replace') and len(args) == 2 and args[0].loc is not None:
            result = vals[0]
            self.write_loc(st, args[0].loc, vals[1])
            self.muts[(bb, 0)] = WriteRec(bb, args[0].loc, vals[1], line, 'replace')
            mutate = False
        elif d in ('std::mem::swap', 'core::mem::swap') and len(args) == 2 and args[0].loc is not None and args[1].loc is not None:
            # both places exchange their contents: each is a `replace` by the other's old value
            result = ('const', '()', '()')
            self.write_loc(st, args[0].loc, vals[1])
            self.write_loc(st, args[1].loc, vals[0])
            self.muts[(bb, 0)] = WriteRec(bb, args[0].loc, vals[1], line, 'replace')
            self.muts[(bb, 1)] = WriteRec(bb, args[1].loc, vals[0], line, 'replace')
            mutate = False
        if mutate and info['name'] in ACCESSOR_NAMES and not info['local']:
            mutate = False  # hands out a reference into the container, does not change it
        if info['name'] in ('box_assume_init_into_vec_unsafe', 'into_vec') and len(args) == 1:
            # `vec![a, b]`: the elements were written through the raw box pointer; recover them from the store
            for root, sv in list(st.store.items()):
                if root[0] == 'O' and any(x == vals[0] for x in _subterms_quick(root[1])):
                    arrs = [x for x in _subterms_quick(sv) if isinstance(x, tuple) and x and x[0] == 'array']
                    if arrs:
                        vals = (arrs[0],)
                        break
        callterm = ('call', cid, vals)
        if term_depth(callterm) > 60:
            callterm = TOP
        if result is None and not info['local'] and vals and info['name'] in ('into_mut', 'get_mut', 'insert'):
            # the Entry API spelled out: OccupiedEntry::{into_mut, get_mut} and VacantEntry::insert all hand out a mutable
            # reference to the element `container[key]`; both arms of `match map.entry(k)` therefore denote the same
            # location, written here as the canonical `entry(k).or_default()` element so that the arms join to one reference
            e0 = vals[0]
            while e0[0] in ('lv', 'at'):
                e0 = e0[3] if e0[0] == 'lv' else e0[2]
            occ = info['name'] in ('into_mut', 'get_mut') and len(vals) == 1 and e0[0] == 'field' and e0[2] == 'Occupied.0'
            vac = info['name'] == 'insert' and len(vals) == 2 and e0[0] == 'field' and e0[2] == 'Vacant.0'
            if (occ or vac) and e0[1][0] == 'call' and cinfo(e0[1][1])['name'] == 'entry':
                oc = callee_id({'def': 'verif::entry::or_default', 'uid': 'verif::entry::or_default', 'name': 'or_default', 'trait': None,
                                'self_ty': None, 'local': False, 'substs': [], 'resolved': None, 'resolved_uid': None, 'resolved_self': None})
                result = ('call', oc, (e0[1],))
                mutate = False
        if result is None:
            result = callterm
        if mutate:
            for i, a in enumerate(args):
                if a.is_mut_ref and a.loc is not None:
                    nv = ('post', callterm, i) if callterm != TOP else TOP
                    self.write_loc(st, a.loc, nv)
                    self.muts[(bb, i)] = WriteRec(bb, a.loc, nv, line, 'call')
                elif a.val[0] == 'closure':
                    locs = self._closure_locs.get((a.val[1], a.val[2]))
                    cb = self.facts.by_uid.get(a.val[1])
                    if locs and cb is not None:
                        for kidx, (loc, cap) in enumerate(zip(locs, cb.captures)):
                            if loc is not None and cap.get('by_ref') and self._capture_is_mut(cb, kidx):
                                nv = ('post', callterm, ('cap', i, kidx)) if callterm != TOP else TOP
                                self.write_loc(st, loc, nv)
                                self.muts[(bb, (i, kidx))] = WriteRec(bb, loc, nv, line, 'closure-capture')
        self.calls[bb] = CallRec(bb, cid, c, tuple(args), callterm, t['dest'], line, t['span'].get('exp', False))
        # destination
        dloc = self.loc_of(st, t['dest'])
        self.write_loc(st, dloc, result)
        self.assign_vals[(bb, 'dest')] = (t['dest']['local'] if not t['dest']['proj'] else None, result, None)
        if dloc == (('L', 0), ()):
            self.ret_assigns[(bb, 'dest')] = WriteRec(bb, dloc, result, line, 'ret')
        if dloc[0][0] != 'L' or dloc[1]:
            self.writes[(bb, 'dest')] = WriteRec(bb, dloc, result, line, 'assign')

    def at_wrap(self, loc, v):
        """A value read through a parameter-rooted reference keeps the identity of its location:
        ('at', <location term>, value) unless the value still is the unmodified location."""
        root, path = loc
        if root[0] != 'P':
            return v
        lt = ('param', root[1])
        for f in path:
            lt = ('field', lt, f)
        x = v
        while x[0] == 'lv':
            x = x[3]
        if x == lt or v[0] in ('top', 'undef'):
            return v
        if v[0] == 'at' and v[1] == lt:
            return v
        return ('at', lt, v)

    def _capture_is_mut(self, cb, kidx):
        # upvar k of closure body cb: captured by mutable reference?
        # look at the closure body's uses: a by-ref capture whose field type is &mut
        # the closure env local is _1; its type lists upvar tys only in the string form, so
        # consult the body: any place (*_1).k deref'd and written / &mut-borrowed.
        key = ('capmut', self.facts.serial, cb.uid, kidx)
        if key in _CACHE:
            return _CACHE[key]
        res = False
        for blk in cb.blocks:
            if blk['cleanup']:
                continue
            for s in blk['stmts']:
                if s['k'] != 'assign':
                    continue
                pls = []
                if s['rv']['k'] in ('ref', 'rawptr') and s['rv'].get('mut'):
                    pls.append(s['rv']['place'])
                pls.append(s['place'])
                for pl in pls:
                    if pl['local'] == 1:
                        for e in pl['proj']:
                            if e['k'] == 'field' and e['owner'] == 'closure' and e['idx'] == kidx:
                                res = True
                # moves/copies of the upvar reference itself (then used as &mut): conservative
                rv = s['rv']
                if rv['k'] == 'use' and rv['op']['k'] in ('copy', 'move'):
                    pl = rv['op']['place']
                    if pl['local'] == 1 and pl['proj']:
                        last = pl['proj'][-1]
                        if last['k'] == 'field' and last['owner'] == 'closure' and last['idx'] == kidx:
                            lty = cb.locals[s['place']['local']]['ty'] if not s['place']['proj'] else None
                            if lty and lty['k'] == 'ref' and lty['mut']:
                                res = True
        _CACHE[key] = res
        return res

    # -------------------------------------------------------------- joins
    def join_terms(self, a, b):
        if a == b:
            return a
        if a == UNDEF:
            return b
        if b == UNDEF:
            return a
        if a[0] == 'obj' and b[0] == 'obj' and a[1] == b[1]:
            fa, fb = dict(a[2]), dict(b[2])
            out = {}
            for f in set(fa) | set(fb):
                xa = fa[f] if f in fa else proj(a[1], f)
                xb = fb[f] if f in fb else proj(b[1], f)
                out[f] = self.join_terms(xa, xb)
            return ('obj', a[1], tuple(sorted(out.items())))
        if a[0] == 'obj' and b[0] != 'obj' and a[1] == b:
            return self.join_terms(a, ('obj', b, ()))
        if b[0] == 'obj' and a[0] != 'obj' and b[1] == a:
            return self.join_terms(('obj', a, ()), b)
        if a[0] in ('ref', 'refphi') or b[0] in ('ref', 'refphi'):
            # a reference-typed value X returned by a call and a reborrow `&mut *X` are the same reference
            for x, y in ((a, b), (b, a)):
                if x[0] == 'ref' and y[0] != 'ref' and x[1] == (('O', y), ()):
                    return x
            # one of several references (`let d = if .. { &a.f } else { &tmp }`): reads see a phi of the pointees,
            # a write through it clobbers every candidate (weak update to TOP)
            locs = []
            for x in (a, b):
                if x[0] == 'ref':
                    locs.append(x[1])
                elif x[0] == 'refphi':
                    locs.extend(x[1])
                else:
                    return TOP
            locs = tuple(sorted(set(locs), key=str))
            return ('refphi', locs) if len(locs) <= 6 else TOP
        return mk_phi([a, b])

    def join_states(self, states):
        if len(states) == 1:
            return states[0].copy()
        out = State()
        keys = set()
        for s in states:
            keys |= set(s.env)
        for k in keys:
            v = UNDEF
            for s in states:
                v = self.join_terms(v, s.env.get(k, UNDEF))
            out.env[k] = v
        keys = set()
        for s in states:
            keys |= set(s.store)
        for k in keys:
            v = None
            for s in states:
                x = s.store[k] if k in s.store else self.root_read(_EMPTY, k)
                v = x if v is None else self.join_terms(v, x)
            out.store[k] = v
        return out

    def widen_term(self, e, backs, bb, key):
        """Loop-head value from the entry value e and the back-edge values."""
        if all(x == e for x in backs):
            return e
        if e[0] == 'obj' or any(x[0] == 'obj' for x in backs):
            base = e[1] if e[0] == 'obj' else e
            if all((x[0] == 'obj' and x[1] == base) or x == base for x in backs) and (e == base or e[0] == 'obj'):
                fields = set()
                for x in [e] + list(backs):
                    if x[0] == 'obj':
                        fields |= set(dict(x[2]))
                out = {}
                for f in fields:
                    out[f] = self.widen_term(proj(e, f), [proj(x, f) for x in backs], bb, key + '.' + f)
                return ('obj', base, tuple(sorted(out.items())))
        mine = ('lv', bb, key)
        rest = [x for x in backs if not (x[0] == 'lv' and x[:3] == mine)]
        if all(x == e for x in rest) and len(rest) == len(backs):
            return e
        return ('lv', bb, key, strip_lv(e) if not (e[0] == 'lv' and e[:3] == mine) else e[3])

    def widen_states(self, entry, backs, bb):
        out = State()
        keys = set(entry.env)
        for s in backs:
            keys |= set(s.env)
        for k in keys:
            e = entry.env.get(k, UNDEF)
            bs = [s.env.get(k, UNDEF) for s in backs]
            if e == UNDEF:
                # not live on entry: a loop-local temporary
                out.env[k] = UNDEF
                continue
            bs = [x for x in bs if x != UNDEF]
            out.env[k] = self.widen_term(e, bs, bb, 'L%d' % k)
        keys = set(entry.store)
        for s in backs:
            keys |= set(s.store)
        for k in keys:
            e = entry.store[k] if k in entry.store else self.root_read(_EMPTY, k)
            bs = [s.store[k] if k in s.store else self.root_read(_EMPTY, k) for s in backs]
            out.store[k] = self.widen_term(e, bs, bb, 'S' + root_str(k))
        return out

    # -------------------------------------------------------------- main loop
    def cfg(self):
        b = self.body
        n = len(b.blocks)
        succs = {}
        for i in range(n):
            if b.blocks[i]['cleanup']:
                continue
            succs[i] = [x for x in b.succs(i) if not b.blocks[x]['cleanup']]
        # reverse post-order
        order, seen = [], set()
        stack = [(0, iter(succs.get(0, [])))]
        seen.add(0)
        while stack:
            node, it = stack[-1]
            adv = False
            for x in it:
                if x not in seen:
                    seen.add(x)
                    stack.append((x, iter(succs.get(x, []))))
                    adv = True
                    break
            if not adv:
                order.append(node)
                stack.pop()
        rpo = order[::-1]
        preds = {i: [] for i in rpo}
        for i in rpo:
            for x in succs[i]:
                if x in preds:
                    preds[x].append(i)
        # dominators
        idx = {bnum: k for k, bnum in enumerate(rpo)}
        dom = {rpo[0]: {rpo[0]}}
        allb = set(rpo)
        for x in rpo[1:]:
            dom[x] = set(allb)
        changed = True
        while changed:
            changed = False
            for x in rpo[1:]:
                ps = [dom[p] for p in preds[x]]
                nd = set.intersection(*ps) if ps else set()
                nd = nd | {x}
                if nd != dom[x]:
                    dom[x] = nd
                    changed = True
        back = set()
        for u in rpo:
            for v in succs[u]:
                if v in dom[u]:
                    back.add((u, v))
        return rpo, succs, preds, dom, back

    def run(self):
        b = self.body
        self._closure_locs = {}
        self.dead_edges = set()
        rpo, succs, preds, dom, back = self.cfg()
        self.rpo, self.succs, self.preds, self.dom, self.back_edges = rpo, succs, preds, dom, back
        out_states = {}
        init = self.initial_state()
        for _pass in range(12):
            changed = False
            for bb in rpo:
                if bb == rpo[0]:
                    st = init.copy()
                else:
                    # an edge out of a switch whose discriminant is a known constant (a literal enum variant handed to an inlined
                    # helper, `if true`, a `cfg!`) that the constant does not select is infeasible: nothing flows along it
                    dead = self.dead_edges
                    ent = [out_states[p] for p in preds[bb] if (p, bb) not in back and p in out_states and (p, bb) not in dead]
                    bks = [out_states[p] for p in preds[bb] if (p, bb) in back and p in out_states and (p, bb) not in dead]
                    if not ent:
                        continue
                    st = self.join_states(ent)
                    if bks:
                        st = self.widen_states(st, bks, bb)
                self.in_states[bb] = st.copy()
                self.visits[bb] = self.visits.get(bb, 0) + 1
                self.transfer(bb, st)
                prev = out_states.get(bb)
                if prev is None or prev.env != st.env or prev.store != st.store:
                    out_states[bb] = st
                    changed = True
            if not changed:
                break
        self.converged = not changed
        self.ret = mk_phi(list(self.returns.values())) if self.returns else UNDEF

    def transfer(self, bb, st):
        b = self.body
        blk = b.blocks[bb]
        for si, s in enumerate(blk['stmts']):
            k = s['k']
            if k == 'assign':
                v = self.rvalue(st, s['rv'])
                loc = self.loc_of(st, s['place'])
                if term_depth(v) > 60:
                    v = TOP
                self.write_loc(st, loc, v)
                self.assign_vals[(bb, si)] = (s['place']['local'] if not s['place']['proj'] else None, self.value(st, v), s['rv'])
                if loc[0][0] != 'L' or (loc[1] and self._is_param_local(loc[0])):
                    self.writes[(bb, si)] = WriteRec(bb, loc, self.value(st, v), s['span']['line'], 'assign')
                if loc == (('L', 0), ()):
                    self.ret_assigns[(bb, si)] = WriteRec(bb, loc, self.value(st, v), s['span']['line'], 'ret')
            elif k == 'dead':
                st.env[s['local']] = UNDEF
        t = blk['term']
        tk = t['k']
        if tk == 'call':
            self.do_call(st, bb, t)
        elif tk == 'switch':
            d = self.value(st, self.operand(st, t['discr']))
            dty = t['discr_ty']['s']
            signed = dty.startswith('i')
            bits = {'i8': 8, 'i16': 16, 'i32': 32, 'i64': 64, 'i128': 128, 'isize': 64}.get(dty, 0)
            targets = []
            for v, tb in t['targets']:
                if signed and bits and v >= (1 << (bits - 1)):
                    v -= (1 << bits)
                targets.append((v, tb))
            self.switches[bb] = SwitchRec(bb, d, tuple(targets), t['otherwise'], signed, bits, t['span']['line'])
            cv = self._const_discr(d)
            outs = set(tb for _, tb in targets) | ({t['otherwise']} if t['otherwise'] is not None else set())
            for x in outs:
                self.dead_edges.discard((bb, x))
            if cv is not None:
                hit = [tb for v, tb in targets if v == cv]
                live = set(hit) if hit else ({t['otherwise']} if t['otherwise'] is not None else set())
                if live:
                    for x in outs - live:
                        self.dead_edges.add((bb, x))
        elif tk == 'return':
            self.returns[bb] = self.value(st, st.env.get(0, UNDEF))
            self.ret_store[bb] = {root: v for root, v in st.store.items() if root[0] == 'P'}

    _STD_VARIANTS = {'option::Option': {'None': 0, 'Some': 1}, 'result::Result': {'Ok': 0, 'Err': 1},
                     'cmp::Ordering': {'Less': -1, 'Equal': 0, 'Greater': 1}}

    def _const_discr(self, d):
        """Integer value of a switch discriminant that is a literal constant / a literal enum variant, else None."""
        while d[0] in ('at',):
            d = d[2]
        if d[0] == 'const' and isinstance(d[1], (int, bool)) and not isinstance(d[1], str):
            return int(d[1])
        if d[0] == 'discr':
            a = d[1]
            while a[0] in ('at',):
                a = a[2]
            if a[0] == 'agg' and isinstance(a[2], str):
                for suffix, tab in self._STD_VARIANTS.items():
                    if a[1].endswith(suffix):
                        return tab.get(a[2])
                adt = self.facts.adts.get(a[1])
                if adt is not None and adt.get('kind') == 'enum':
                    names = [v['name'] for v in adt['variants']]
                    if a[2] in names and all(not v.get('discr') for v in adt['variants']):
                        return names.index(a[2])
        return None

    def _is_param_local(self, root):
        return root[0] == 'L' and 1 <= root[1] <= self.body.arg_count

    # -------------------------------------------------------------- queries
    def all_mutations(self):
        """Every write that is not a plain local temp assignment: WriteRecs."""
        out = list(self.writes.values()) + list(self.muts.values())
        return sorted(out, key=lambda w: (w.bb, w.line))


_CACHE = {}
_EMPTY = State()


def _subterms_quick(t, limit=200):
    out, stack = [], [t]
    while stack and len(out) < limit:
        x = stack.pop()
        out.append(x)
        if isinstance(x, tuple):
            for y in x:
                if isinstance(y, tuple) and y and isinstance(y[0], str):
                    stack.append(y)
                elif isinstance(y, tuple):
                    stack.extend(z for z in y if isinstance(z, tuple))
    return out


def strip_lv(t):
    while t[0] == 'lv':
        t = t[3]
    return t


def root_str(root):
    if root[0] in ('L', 'P'):
        return '%s%d' % root
    if root[0] == 'R':
        return 'R:' + fmt_loc(root[1])
    if root[0] == 'V':
        return 'V:' + fmt_term(root[1], 3)
    return 'O:' + fmt_term(root[1], 3)


# ------------------------------------------------------------------ printing

def short(cid):
    s = cid
    for pre in ('crdts::', 'std::collections::', 'std::', 'core::'):
        s = s.replace(pre, '')
    return s


def fmt_term(t, depth=12):
    if depth <= 0:
        return '…'
    k = t[0]
    d = depth - 1
    if k == 'param':
        return 'p%d' % t[1]
    if k == 'upvar':
        return 'up[%s]' % t[2]
    if k == 'const':
        return repr(t[1]) if not isinstance(t[1], str) else t[1]
    if k == 'fn':
        return 'fn ' + short(t[1])
    if k == 'field':
        return '%s.%s' % (fmt_term(t[1], d), t[2])
    if k == 'agg':
        return '%s::%s{%s}' % (short(t[1]), t[2], ', '.join('%s: %s' % (f, fmt_term(x, d)) for f, x in t[3]))
    if k in ('tuple', 'array'):
        return '%s(%s)' % ('' if k == 'tuple' else 'arr', ', '.join(fmt_term(x, d) for x in t[1]))
    if k == 'closure':
        return 'closure<%s>[%s]' % (t[1].split('::')[-1] if '::' in t[1] else t[1], ', '.join(fmt_term(x, d) for x in t[2]))
    if k == 'call':
        return '%s(%s)' % (short(t[1]), ', '.join(fmt_term(x, d) for x in t[2]))
    if k == 'post':
        return 'post#%s[%s]' % (t[2], fmt_term(t[1], d))
    if k == 'binop':
        return '%s(%s, %s)' % (t[1], fmt_term(t[2], d), fmt_term(t[3], d))
    if k == 'unop':
        return '%s(%s)' % (t[1], fmt_term(t[2], d))
    if k == 'discr':
        return 'discr(%s)' % fmt_term(t[1], d)
    if k == 'cast':
        return '(%s as %s)' % (fmt_term(t[2], d), t[3])
    if k == 'obj':
        return '%s{%s}' % (fmt_term(t[1], d), ', '.join('%s:= %s' % (f, fmt_term(x, d)) for f, x in t[2]))
    if k == 'phi':
        return 'phi(%s)' % ' | '.join(sorted(fmt_term(x, d) for x in t[1]))
    if k == 'lv':
        return 'lv@bb%s(%s)' % (t[1], fmt_term(t[3], d))
    if k == 'at':
        return '%s@{%s}' % (fmt_term(t[1], d), fmt_term(t[2], d))
    if k in ('item', 'acc'):
        return '%s(%s)' % (k, fmt_term(t[1], d))
    if k == 'ref':
        return '&%s' % fmt_loc(t[1])
    return k


def fmt_loc(loc):
    if loc is None:
        return '-'
    root, path = loc
    return root_str(root) + ''.join('.' + p for p in path)


_INTERP_CACHE = {}


def interp(facts, body):
    key = (facts.serial, body.uid)
    if key not in _INTERP_CACHE:
        _INTERP_CACHE[key] = Interp(facts, body)
    return _INTERP_CACHE[key]


if __name__ == '__main__':
    import sys
    from . import facts as F
    f = F.load(sys.argv[1])
    for pat in sys.argv[2:]:
        for b in f.bodies:
            if pat in b.key and not b.derived:
                it = interp(f, b)
                print('==', b.key, 'visits', sum(it.visits.values()))
                for bb in sorted(it.calls):
                    c = it.calls[bb]
                    print('  bb%d L%d call %s' % (bb, c.line, fmt_term(c.term)))
                    for i, a in enumerate(c.args):
                        if a.loc is not None:
                            print('        arg%d loc=%s mut=%s' % (i, fmt_loc(a.loc), a.is_mut_ref))
                for bb in sorted(it.switches):
                    s = it.switches[bb]
                    print('  bb%d L%d switch %s -> %s else bb%d' % (bb, s.line, fmt_term(s.discr), list(s.targets), s.otherwise))
                for w in it.all_mutations():
                    print('  bb%d L%d write[%s] %s := %s' % (w.bb, w.line, w.kind, fmt_loc(w.loc), fmt_term(w.val, 6)))
                print('  ret', fmt_term(it.ret))
