"""Interprocedural effect summaries (DESIGN §2.2 A3/A4).

effects(body) = set of Effect(param, path, kind, how, via) describing which
parameter-rooted locations a function may write, directly or through callees:
  kind 'w'  : the location itself is written (assignment, &mut passed to a std
              mutator such as insert/remove/extend, mem::take/replace)
  kind 'ew' : an element reached through a container at that location is written
              (e.g. reset_remove on `self.entries[k]`), `sub` = path below the element
`how` is the name of the operation performing the write (std method name, or
the crate function applied to the element).
"""
from collections import namedtuple

from .interp import interp, cinfo
from .terms import elem_value_of, elem_of, param_path, versionless, closure_bindings, subst, call_name

Effect = namedtuple('Effect', 'param path kind how sub')

_memo = {}
_in_progress = set()


def loc_target(it, loc):
    """Map a written location to (param index, path, kind, sub) or None for pure locals."""
    root, path = loc
    if root[0] == 'P':
        return (root[1], tuple(path), 'w', ())
    if root[0] == 'O':
        t = root[1]
        ev = elem_value_of(t)
        if ev is not None:
            cont, key, part, sub = ev
            pp = param_path(cont)
            if pp is not None and isinstance(pp[0], int):
                return (pp[0], pp[1], 'ew', tuple(sub) + tuple(path))
            if pp is not None:
                return (pp[0], pp[1], 'ew', tuple(sub) + tuple(path))
        pp = param_path(t)
        if pp is not None:
            return (pp[0], pp[1] + tuple(path), 'w', ())
    return None


def effects(facts, body, depth=0):
    key = (facts.serial, body.uid)
    if key in _memo:
        return _memo[key]
    if key in _in_progress or depth > 12:
        return set()
    _in_progress.add(key)
    it = interp(facts, body)
    out = set()
    # direct assignments through references / into parameters
    for w in it.writes.values():
        tgt = loc_target(it, w.loc)
        if tgt is not None:
            out.add(Effect(tgt[0], tgt[1], tgt[2], 'assign', tgt[3]))
    for bb, c in it.calls.items():
        info = cinfo(c.cid)
        callee_body = facts.by_uid.get(info['uid']) if info['local'] else None
        if callee_body is not None and callee_body.derived:
            callee_body = None
        # mem::take / replace
        w = it.muts.get((bb, 0))
        if w is not None and w.kind in ('take', 'replace'):
            for ai in (0, 1):   # mem::swap exchanges two places
                w2 = it.muts.get((bb, ai))
                if w2 is not None and w2.kind in ('take', 'replace'):
                    tgt = loc_target(it, w2.loc)
                    if tgt is not None:
                        out.add(Effect(tgt[0], tgt[1], tgt[2], w2.kind, tgt[3]))
            continue
        callee_eff = effects(facts, callee_body, depth + 1) if callee_body is not None else None
        for i, a in enumerate(c.args):
            if a.is_mut_ref and a.loc is not None and (bb, i) in it.muts:
                tgt = loc_target(it, a.loc)
                if tgt is None:
                    continue
                if callee_eff is None:
                    out.add(Effect(tgt[0], tgt[1], tgt[2], info['name'] or c.cid, tgt[3]))
                else:
                    for e in callee_eff:
                        if e.param == i + 1:
                            if tgt[2] == 'w':
                                out.add(Effect(tgt[0], tgt[1] + e.path, e.kind, e.how, e.sub))
                            else:
                                out.add(Effect(tgt[0], tgt[1], 'ew', e.how, tgt[3] + e.path + e.sub))
        # closures passed to the callee: the closure body's writes to captured &mut state
        for clo, mapping in closure_bindings(c.term):
            cb = facts.by_uid.get(clo[1])
            if cb is None:
                continue
            for e in effects(facts, cb, depth + 1):
                if isinstance(e.param, tuple) and e.param[0] == 'upvar':
                    cap = mapping.get(('upvar', e.param[1]))
                    if cap is None:
                        continue
                    pp = param_path(cap)
                    if pp is not None:
                        out.add(Effect(pp[0], pp[1] + e.path, e.kind, e.how, e.sub))
    _in_progress.discard(key)
    _memo[key] = out
    return out


_must_memo = {}


def must_effects(facts, body, depth=0):
    """The subset of effects(body) that happens on EVERY path through body (straight-line writes, and calls that lie on every
    path and whose own effect is a must-effect).  Effects inside loops are not included: they happen once per iteration at most."""
    key = (facts.serial, body.uid)
    if key in _must_memo:
        return _must_memo[key]
    if depth > 8:
        return set()
    _must_memo[key] = set()
    from .ordset import Reach, Evaluator
    it = interp(facts, body)
    rc = Reach(facts, body, Evaluator(facts))
    out = set()
    for w in it.writes.values():
        tgt = loc_target(it, w.loc)
        if tgt is not None and rc.must_pass([w.bb]):
            out.add(Effect(tgt[0], tgt[1], tgt[2], 'assign', tgt[3]))
    for bb in it.calls:
        if rc.must_pass([bb]):
            out |= call_effects(facts, it, bb, must_only=True, _depth=depth + 1)
    _must_memo[key] = out
    return out


def call_effects(facts, it, bb, must_only=False, _depth=0):
    """Effects of the single call terminating block bb, expressed on the caller's parameters.
    must_only: only what the callee does on every one of its paths (for obligations: "this call does X")."""
    c = it.calls.get(bb)
    if c is None:
        return set()
    if must_only:
        info0 = cinfo(c.cid)
        cb0 = facts.by_uid.get(info0['uid']) if info0['local'] else None
        if cb0 is not None and not cb0.derived:
            allowed = must_effects(facts, cb0, _depth)
            full = call_effects(facts, it, bb)
            # translate the callee-side must set the same way the full set was translated: keep an effect of the full set only if
            # the callee-side effect it came from is a must-effect
            out0 = set()
            for i, a in enumerate(c.args):
                if a.is_mut_ref and a.loc is not None and (bb, i) in it.muts:
                    tgt = loc_target(it, a.loc)
                    if tgt is None:
                        continue
                    for e in allowed:
                        if e.param == i + 1:
                            if tgt[2] == 'w':
                                out0.add(Effect(tgt[0], tgt[1] + e.path, e.kind, e.how, e.sub))
                            else:
                                out0.add(Effect(tgt[0], tgt[1], 'ew', e.how, tgt[3] + e.path + e.sub))
            return out0 & full if full else out0
    out = set()
    info = cinfo(c.cid)
    callee_body = facts.by_uid.get(info['uid']) if info['local'] else None
    if callee_body is not None and callee_body.derived:
        callee_body = None
    w = it.muts.get((bb, 0))
    if w is not None and w.kind in ('take', 'replace'):
        for ai in (0, 1):
            w2 = it.muts.get((bb, ai))
            if w2 is not None and w2.kind in ('take', 'replace'):
                tgt = loc_target(it, w2.loc)
                if tgt is not None:
                    out.add(Effect(tgt[0], tgt[1], tgt[2], w2.kind, tgt[3]))
        return out
    callee_eff = effects(facts, callee_body) if callee_body is not None else None
    for i, a in enumerate(c.args):
        if a.is_mut_ref and a.loc is not None and (bb, i) in it.muts:
            tgt = loc_target(it, a.loc)
            if tgt is None:
                continue
            if callee_eff is None:
                out.add(Effect(tgt[0], tgt[1], tgt[2], info['name'] or c.cid, tgt[3]))
            else:
                for e in callee_eff:
                    if e.param == i + 1:
                        if tgt[2] == 'w':
                            out.add(Effect(tgt[0], tgt[1] + e.path, e.kind, e.how, e.sub))
                        else:
                            out.add(Effect(tgt[0], tgt[1], 'ew', e.how, tgt[3] + e.path + e.sub))
    for clo, mapping in closure_bindings(c.term):
        cb = facts.by_uid.get(clo[1])
        if cb is None:
            continue
        for e in effects(facts, cb):
            if isinstance(e.param, tuple) and e.param[0] == 'upvar':
                cap = mapping.get(('upvar', e.param[1]))
                if cap is None:
                    continue
                pp = param_path(cap)
                if pp is not None:
                    out.add(Effect(pp[0], pp[1] + e.path, e.kind, e.how, e.sub))
    return out


def reachable_callees(facts, body, seen=None):
    """uids of crate-local bodies transitively called from body (closures included)."""
    if seen is None:
        seen = set()
    if body.uid in seen:
        return seen
    seen.add(body.uid)
    it = interp(facts, body)
    for c in it.calls.values():
        info = cinfo(c.cid)
        if info['local'] and info['uid'] in facts.by_uid:
            reachable_callees(facts, facts.by_uid[info['uid']], seen)
        for a in c.args:
            for alt in ([a.val] if a.val[0] != 'phi' else list(a.val[1])):
                if alt[0] == 'closure' and alt[1] in facts.by_uid:
                    reachable_callees(facts, facts.by_uid[alt[1]], seen)
    for cb in facts.closures_of(body):
        reachable_callees(facts, cb, seen)
    return seen
