"""Term utilities shared by the rule layer: traversal, substitution, version
stripping, recognisers for containers / elements / iterators / closures."""
from .interp import CALLEES, cinfo, interp, proj, mk_phi, TOP, UNDEF, fmt_term, strip_lv

CMP_METHODS = {'lt', 'le', 'gt', 'ge', 'partial_cmp', 'cmp', 'eq', 'ne'}
CMP_TRAITS = {'std::cmp::PartialOrd', 'std::cmp::Ord', 'std::cmp::PartialEq',
              'core::cmp::PartialOrd', 'core::cmp::Ord', 'core::cmp::PartialEq'}


def children(t):
    k = t[0]
    if k in ('field', 'discr', 'item', 'acc'):
        return [t[1]]
    if k == 'agg':
        return [x for _, x in t[3]]
    if k in ('tuple', 'array'):
        return list(t[1])
    if k == 'closure':
        return list(t[2])
    if k == 'call':
        return list(t[2])
    if k == 'post':
        return [t[1]]
    if k == 'binop':
        return [t[2], t[3]]
    if k == 'unop':
        return [t[2]]
    if k == 'cast':
        return [t[2]]
    if k == 'obj':
        return [t[1]] + [x for _, x in t[2]]
    if k == 'phi':
        return list(t[1])
    if k == 'lv':
        return [t[3]]
    if k == 'at':
        return [t[1], t[2]]
    return []


def subterms(t, limit=5000):
    out = []
    seen = set()
    stack = [t]
    while stack and len(out) < limit:
        x = stack.pop()
        if x in seen:
            continue
        seen.add(x)
        out.append(x)
        stack.extend(children(x))
    return out


def rebuild(t, f):
    """Bottom-up rewrite: f is applied to every node after its children were rewritten."""
    memo = {}

    def go(x, depth):
        if x in memo:
            return memo[x]
        if depth > 80:
            return x
        k = x[0]
        if k == 'field':
            r = proj(go(x[1], depth + 1), x[2])
        elif k in ('discr', 'item', 'acc'):
            r = (k, go(x[1], depth + 1))
        elif k == 'agg':
            r = ('agg', x[1], x[2], tuple((n, go(v, depth + 1)) for n, v in x[3]))
        elif k in ('tuple', 'array'):
            r = (k, tuple(go(v, depth + 1) for v in x[1]))
        elif k == 'closure':
            r = ('closure', x[1], tuple(go(v, depth + 1) for v in x[2]))
        elif k == 'call':
            r = ('call', x[1], tuple(go(v, depth + 1) for v in x[2]))
        elif k == 'post':
            r = ('post', go(x[1], depth + 1), x[2])
        elif k == 'binop':
            r = ('binop', x[1], go(x[2], depth + 1), go(x[3], depth + 1))
        elif k == 'unop':
            r = ('unop', x[1], go(x[2], depth + 1))
        elif k == 'cast':
            r = ('cast', x[1], go(x[2], depth + 1), x[3])
        elif k == 'obj':
            r = ('obj', go(x[1], depth + 1), tuple((n, go(v, depth + 1)) for n, v in x[2]))
        elif k == 'phi':
            r = mk_phi([go(v, depth + 1) for v in x[1]])
        elif k == 'lv':
            r = ('lv', x[1], x[2], go(x[3], depth + 1))
        elif k == 'at':
            r = ('at', go(x[1], depth + 1), go(x[2], depth + 1))
        else:
            r = x
        r = f(r)
        memo[x] = r
        return r

    return go(t, 0)


def subst(t, mapping):
    """Replace ('param', i) / ('upvar', k, name) leaves according to mapping."""
    # the substitution is simultaneous: a projection that collapses on a substituted aggregate (`self.actor` with
    # self := Dot{actor: <caller's param 2>, ..}) yields a leaf of the *caller's* namespace, which rebuild hands to f
    # again; the images are therefore protected (param -> %param, upvar -> %upvar) while t is rewritten
    def protect(x):
        if x[0] == 'param':
            return ('%param',) + tuple(x[1:])
        if x[0] == 'upvar':
            return ('%upvar',) + tuple(x[1:])
        return x

    def unprotect(x):
        if x[0] == '%param':
            return ('param',) + tuple(x[1:])
        if x[0] == '%upvar':
            return ('upvar',) + tuple(x[1:])
        return x
    prot = {}

    def image(k):
        if k not in prot:
            prot[k] = rebuild(mapping[k], protect)
        return prot[k]

    def f(x):
        if x[0] == 'param' and ('param', x[1]) in mapping:
            return image(('param', x[1]))
        if x[0] == 'upvar' and ('upvar', x[1]) in mapping:
            return image(('upvar', x[1]))
        return x
    # leaves are rewritten by f as well because rebuild applies f to every node
    r = rebuild(t, f)
    return rebuild(r, unprotect) if prot else r


def versionless(t):
    """Strip loop-widening and post-call versions: identity of the *location/value source*.
    post#i[call f(args)] -> versionless(args[i]); lv(base) -> base; obj(base,..) -> base."""
    def f(x):
        if x[0] == 'lv':
            return x[3]
        if x[0] == 'post':
            c = x[1]
            if c[0] == 'call' and isinstance(x[2], int) and x[2] < len(c[2]):
                return c[2][x[2]]
            return x
        if x[0] == 'obj':
            return x[1]
        if x[0] == 'at':
            return x[1]
        return x
    return rebuild(t, f)


def drop_lv(t):
    def f(x):
        if x[0] == 'lv':
            return x[3]
        return x
    return rebuild(t, f)


def phi_alts(t):
    if t[0] == 'phi':
        return list(t[1])
    return [t]


def is_call(t, name=None, self_adt=None, trait=None, local=None):
    if t[0] != 'call':
        return False
    info = cinfo(t[1])
    if name is not None:
        names = name if isinstance(name, (set, tuple, list)) else (name,)
        if info['name'] not in names:
            return False
    if self_adt is not None:
        s = info['self'] or ''
        d = (info['resolved'] or info['def'] or '')
        if not (s.endswith(self_adt) or (self_adt + '::') in d or d.startswith('<' + self_adt) or ('::' + self_adt) in d):
            return False
    if trait is not None:
        if not (info['trait'] or '').endswith(trait):
            return False
    if local is not None and bool(info['local']) != local:
        return False
    return True


def call_name(t):
    return cinfo(t[1])['name'] if t[0] == 'call' else None


def callee_self(t):
    return cinfo(t[1])['self'] if t[0] == 'call' else None


# ---------------------------------------------------------------- paths into parameters

def param_path(t):
    """('param', i) with field projections -> (i, (f1, f2, ..)); versions are ignored."""
    t = versionless(t)
    path = []
    while t[0] == 'field':
        path.append(t[2])
        t = t[1]
    if t[0] == 'param':
        return t[1], tuple(reversed(path))
    if t[0] == 'upvar':
        return ('upvar', t[1], t[2]), tuple(reversed(path))
    return None


def value_path(t):
    """Like param_path, but for the *value*: (i, path) only when t still is the unmodified content of parameter i's
    field (copies, clones and reads through references are fine; a `post` version left by a mutating call is not)."""
    path = []
    for _ in range(40):
        if t[0] == 'at':
            t = t[2]
        elif t[0] == 'field':
            path.append(t[2])
            t = t[1]
        elif t[0] == 'param':
            return t[1], tuple(reversed(path))
        else:
            return None
    return None


def rooted_at_param(t, i):
    pp = param_path(t)
    return pp is not None and pp[0] == i


# ---------------------------------------------------------------- iterators, elements

ITER_CTORS = {'iter', 'iter_mut', 'into_iter', 'keys', 'values', 'values_mut', 'into_keys', 'into_values', 'drain'}
# adaptors that yield the very items of the iterator they wrap.  The positional ones (skip, take, step_by, skip_while,
# take_while) are NOT listed: an iterator behind them is a different collection, so `iter_source` stops there and every
# recogniser that expects "all of self.x" fails closed instead of having to remember to ask `iter_adaptors`.
ITER_SAME_ITEMS = {'rev', 'filter', 'peekable', 'fuse', 'by_ref', 'cloned', 'copied', 'inspect', 'chain'}


def as_item(t):
    """t is the item produced by iterating `it` (for-loop desugaring)  ->  it, else None."""
    t = versionless(t)
    if t[0] == 'field' and t[2] == 'Some.0' and is_call(t[1], 'next'):
        return t[1][2][0]
    if t[0] == 'item':
        return t[1]
    return None


LOSSY_ADAPTORS = {'skip', 'take', 'filter', 'skip_while', 'take_while', 'step_by'}


def iter_adaptors(it):
    """Names of all adaptor calls between the iterator term and its container."""
    it = versionless(it)
    names = []
    for _ in range(20):
        if it[0] != 'call' or not it[2]:
            break
        names.append(call_name(it))
        it = versionless(it[2][0])
    return names


def iter_source(it, facts=None, depth=0):
    """Peel an iterator term down to (container term, kind, closures) where kind in
    'items' | 'keys' | 'values'.  Adaptors that keep the items are skipped; `map`/`filter_map`
    are reported in `closures` (list of (adaptor, closure term))."""
    it = versionless(it)
    closures = []
    kind = 'items'
    for _ in range(20):
        if it[0] != 'call':
            break
        n = call_name(it)
        args = it[2]
        if n in ('into_iter',) and args:
            it = versionless(args[0])
            continue
        if n in ('iter', 'iter_mut', 'drain') and args:
            it = versionless(args[0])
            continue
        if n in ('keys', 'into_keys') and args:
            kind = 'keys'
            it = versionless(args[0])
            continue
        if n in ('values', 'values_mut', 'into_values') and args:
            kind = 'values'
            it = versionless(args[0])
            continue
        if n in ITER_SAME_ITEMS and args:
            it = versionless(args[0])
            continue
        if n in ('map', 'filter_map', 'flat_map', 'enumerate') and args:
            closures.append((n, args[1] if len(args) > 1 else None))
            it = versionless(args[0])
            continue
        break
    return it, kind, closures


def elem_of(t):
    """Recognise a reference to / value of an element of a container.
    Returns (container term (versionless), key term or '*', part) where part is
    'value' | 'key' | 'pair' ; None when t is not an element access."""
    t = versionless(t)
    # default-or wrappers
    if is_call(t, ('unwrap_or_default', 'unwrap', 'expect', 'unwrap_or')) and t[2]:
        return elem_of(t[2][0])
    if t[0] == 'phi':
        # `match c.get(k) { Some(e) => e, None => default }` / `match c.entry(k) { Occupied(s) => s.into_mut(), Vacant(s) => s.insert(d) }`:
        # every alternative is the same element, or a fresh default value standing in for an absent one
        es = []
        for alt in t[1]:
            e = elem_of(alt)
            if e is not None:
                es.append(e)
            elif not (alt[0] == 'call' and call_name(alt) in ('default', 'new') and not alt[2]):
                return None
        if es and all((e[0], versionless(e[1]) if e[1] != '*' else '*', e[2]) == (es[0][0], versionless(es[0][1]) if es[0][1] != '*' else '*', es[0][2]) for e in es):
            return es[0]
        return None
    if t[0] == 'call' and call_name(t) in ('into_mut', 'get', 'get_mut', 'insert', 'insert_entry') and t[2] \
            and t[2][0][0] == 'field' and t[2][0][2] in ('Occupied.0', 'Vacant.0') and is_call(t[2][0][1], 'entry') and len(t[2][0][1][2]) == 2:
        # Entry API spelled out: OccupiedEntry::into_mut / get_mut / get, VacantEntry::insert(default) -> the element
        e = t[2][0][1]
        return (versionless(e[2][0]), e[2][1], 'value')
    if t[0] == 'field' and t[2] == 'Some.0' and t[1][0] == 'call':
        c = t[1]
        n = call_name(c)
        if n in ('get', 'get_mut', 'remove', 'get_key_value') and len(c[2]) == 2:
            return (versionless(c[2][0]), c[2][1], 'value')
        if n == 'next':
            src, kind, cl = iter_source(c[2][0])
            if not cl:
                return (src, '*', {'items': 'pair', 'keys': 'key', 'values': 'value'}[kind])
    if t[0] == 'call':
        n = call_name(t)
        if n in ('get', 'get_mut') and len(t[2]) == 2:
            # Option<&V> used directly (e.g. through Option::map closure parameter)
            return (versionless(t[2][0]), t[2][1], 'value')
        if n in ('or_default', 'or_insert', 'or_insert_with') and t[2] and is_call(t[2][0], 'entry'):
            e = t[2][0]
            return (versionless(e[2][0]), e[2][1], 'value')
    if t[0] == 'item':
        src, kind, cl = iter_source(t[1])
        if not cl:
            return (src, '*', {'items': 'pair', 'keys': 'key', 'values': 'value'}[kind])
    if t[0] == 'field' and t[2] in ('0', '1'):
        inner = elem_of(t[1])
        if inner and inner[2] == 'pair':
            return (inner[0], inner[1], 'key' if t[2] == '0' else 'value')
    return None


def elem_value_of(t):
    """Like elem_of but also follows struct fields below the element value:
    returns (container, key, part, subpath)."""
    t = versionless(t)
    if t[0] == 'phi':
        # a projection taken in both arms of `match c.get(k) { Some(e) => e.f, None => Default::default().f }`
        es = []
        for alt in t[1]:
            e = elem_value_of(alt)
            if e is not None:
                es.append((e[0], versionless(e[1]) if e[1] != '*' else '*', e[2], tuple(e[3])))
                continue
            x = alt
            while x[0] == 'field':
                x = x[1]
            if not (x[0] == 'call' and call_name(x) in ('default', 'new') and not x[2]):
                return None
        if es and all(e == es[0] for e in es):
            return es[0]
        return None
    path = []
    cur = t
    for _ in range(4):
        if is_call(cur, ('unwrap_or_default', 'unwrap', 'expect', 'unwrap_or', 'unwrap_or_else')) and cur[2]:
            cur = cur[2][0]
        elif cur[0] == 'agg' and cur[1].endswith('option::Option') and cur[2] == 'Some' and cur[3]:
            cur = versionless(cur[3][0][1])
        else:
            break
    for _ in range(6):
        e = elem_of(cur)
        if e and e[2] in ('value', 'key'):
            return (e[0], e[1], e[2], tuple(reversed(path)))
        if cur[0] == 'field' and not (cur[2] in ('0', '1') and elem_of(cur[1]) and elem_of(cur[1])[2] == 'pair') and cur[2] != 'Some.0':
            path.append(cur[2])
            cur = cur[1]
            continue
        break
    return None


# ---------------------------------------------------------------- closures

ITEM_ADAPTORS = {'map', 'filter', 'filter_map', 'for_each', 'all', 'any', 'find', 'find_map', 'position',
                 'take_while', 'skip_while', 'flat_map', 'inspect', 'retain', 'retain_mut', 'max_by_key',
                 'min_by_key', 'partition', 'try_for_each'}


def closure_bindings(callterm):
    """For a call that receives closures: yields (closure term, mapping of the closure's
    parameters to parent terms).  Parameter 1 of a closure body is its environment."""
    out = []
    if callterm[0] != 'call':
        return out
    n = call_name(callterm)
    args = callterm[2]
    for ai, a in enumerate(args):
        for alt in phi_alts(a):
            if alt[0] != 'closure':
                continue
            m = {}
            for k, v in enumerate(alt[2]):
                m[('upvar', k)] = v
            recv = args[0] if args else None
            info0 = cinfo(callterm[1])
            d0 = info0['def'] or ''
            on_option = d0.startswith(('std::option::Option', 'core::option::Option', 'std::result::Result', 'core::result::Result'))
            if n in ITEM_ADAPTORS and ai >= 1 and not on_option:
                if n in ('retain', 'retain_mut') and len(args) == 2:
                    src = recv
                    info = cinfo(callterm[1])
                    if 'Map' in (info['self'] or '') or 'Map' in (info['def'] or ''):
                        m[('param', 2)] = ('field', ('item', recv), '0')
                        m[('param', 3)] = ('field', ('item', recv), '1')
                    else:
                        m[('param', 2)] = ('item', recv)
                else:
                    m[('param', 2)] = ('item', recv)
            elif n == 'fold' and ai == 2:
                m[('param', 2)] = ('acc', args[1])
                m[('param', 3)] = ('item', recv)
            elif n in ('map', 'and_then', 'map_or', 'is_some_and', 'filter', 'inspect', 'map_or_else') and ai >= 1:
                # Option / Result receivers (iterator receivers were handled above)
                m[('param', 2)] = proj(recv, 'Some.0')
            elif n == 'map_err' and ai == 1:
                m[('param', 2)] = proj(recv, 'Err.0')
            out.append((alt, m))
    return out


def fmt(t, depth=10):
    return fmt_term(t, depth)
