"""A.10 — ResetRemove coverage / pruning and serde wire-format well-formedness."""
import re
from ..core import rule
from ..terms import drop_lv
from .common import *
from .removes import roles
from .loops import loops_of, loop_of_block, item_filter, keep_table

RR_TYPES = [('orswot', ORSWOT, set()), ('map', MAP, {'V'}), ('mvreg', MVREG, set())]


def clock_positions(facts, ty, params, depth=0):
    """Positions inside a field type that hold dots: VClock values or ResetRemove-bounded type parameters."""
    if depth > 6:
        return []
    k = ty.get('k')
    if k == 'param':
        return [()] if ty['name'] in params else []
    if k == 'tuple':
        out = []
        for i, e in enumerate(ty['elems']):
            out += [(str(i),) + p for p in clock_positions(facts, e, params, depth + 1)]
        return out
    if k != 'adt':
        return []
    path = ty['path']
    if path == VCLOCK:
        return [()]
    if path.endswith(('HashMap', 'BTreeMap')) and len(ty['args']) >= 2:
        return [('key',) + p for p in clock_positions(facts, ty['args'][0], params, depth + 1)] + \
               [('value',) + p for p in clock_positions(facts, ty['args'][1], params, depth + 1)]
    if path.endswith(('Vec', 'BTreeSet', 'HashSet', 'VecDeque')) and ty['args']:
        e = ty['args'][0]
        if e.get('k') == 'tuple' and len(e['elems']) == 2:
            return [('key',) + p for p in clock_positions(facts, e['elems'][0], params, depth + 1)] + \
                   [('value',) + p for p in clock_positions(facts, e['elems'][1], params, depth + 1)]
        return [('value',) + p for p in clock_positions(facts, e, params, depth + 1)]
    a = facts.adts.get(path)
    if a and path.startswith('crdts::') and a['kind'] == 'struct':
        # generic arguments of the local struct map its parameter names to our types
        sub = dict(zip(a['generics'], ty['args']))
        out = []
        for f in a['variants'][0]['fields']:
            fty = f['ty']
            if fty.get('k') == 'param' and fty['name'] in sub:
                fty = sub[fty['name']]
            out += [(f['name'],) + p for p in clock_positions(facts, fty, params, depth + 1)]
        return out
    return []


def _binding_item(m):
    """The ('item', iterator) term a closure's element parameters are bound to."""
    for k in (('param', 2), ('param', 3)):
        v = m.get(k)
        while v is not None and v[0] == 'field':
            v = v[1]
        if v is not None and v[0] == 'item':
            return v
    return None


def _rr_calls(facts, body):
    """All reset_remove(target, clock argument) calls of a ResetRemove::reset_remove body and its adaptor closures,
    as (descriptor, block, body, interp, mapping) with descriptor = (self field, position tuple)."""
    it = interp(facts, body)
    out = []
    for bb, c in sorted(it.calls.items()):
        if call_name(c.term) == 'reset_remove' and len(c.args) == 2 and versionless(c.args[1].val) == ('param', 2):
            pp = param_path(c.args[0].val)
            if pp and pp[0] == 1 and pp[1]:
                out.append(((pp[1][0], tuple(pp[1][1:])), bb, body, it, {}))
        # loop form: reset_remove(<part of the item of a loop over a field of self>, argument clock)
        if call_name(c.term) == 'reset_remove' and len(c.args) == 2 and versionless(c.args[1].val) == ('param', 2):
            ev = elem_value_of(c.args[0].val)
            lp = loop_of_block(it, bb)
            if ev and lp is not None and param_path(ev[0]) and param_path(ev[0])[0] == 1 and ev[1] == '*' and lp.whole_over(1) and not lp.early_exits():
                rcx = Reach(facts, body, Evaluator(facts))
                fld_ = param_path(ev[0])[1][0]
                if lp.must(rcx, [bb]) and (lp.always_entered(rcx) or must_pass_unless_noop(
                        facts, body, it, [lp.head], {'clock': (2, ()), 'field': (1, (fld_,))}, only_field=fld_)):
                    out.append(((fld_, (ev[2],) + tuple(ev[3])), bb, body, it, {'loop': True}))
        for clo, m in closure_bindings(c.term):
            cb = facts.cb(clo[1])
            if cb is None:
                continue
            cit = interp(facts, cb)
            for b2, c2 in sorted(cit.calls.items()):
                if call_name(c2.term) == 'reset_remove' and len(c2.args) == 2 and versionless(subst(c2.args[1].val, m)) == ('param', 2):
                    tgt = subst(c2.args[0].val, m)
                    ev = elem_value_of(tgt)
                    item = _binding_item(m)
                    if ev and param_path(ev[0]) and param_path(ev[0])[0] == 1 and item is not None and whole_iteration_over(item[1], 1):
                        out.append(((param_path(ev[0])[1][0], (ev[2],) + tuple(ev[3])), b2, cb, cit, dict(m, **{'_parent_bb': bb})))
    return out


@rule('RR-COVER', {
    'C18': 'an uncovered clock-carrying field keeps dots, so "the replica\'s own full clock empties it" fails',
    'C05': 'Map reset-remove relies on nested values forgetting the covered dots',
    'C20': '[primitive] a covered dot that survives in some field of a nested value is residue: replicas that learned the same key '
           'remove and the same edits in different orders stop being equal (MAP-RESET-PAIR, RM/nested-reset call this routine)',
    'C03': '[primitive] Map::merge and the key remove reset nested values through this routine (MAP-RESET-PAIR serves C03): what it '
           'leaves behind on one route and not on the other makes merge and op delivery disagree',
    'C09': '[primitive] a nested member whose adds a key remove covered stays absent only if the nested reset forgets those dots '
           '(MAP-RESET-PAIR serves C09)',
}, floor=3)
def rr_cover(ctx):
    """ResetRemove::reset_remove of Orswot, Map and MVReg resets every clock-carrying position of every field with the
    argument clock, on every path, for every element, and stores the result back."""
    facts = ctx.facts
    for inst, adt, params in RR_TYPES:
        body = ctx.method(adt, 'ResetRemove', 'reset_remove')
        a = facts.adts[adt]
        want = set()
        for f in a['variants'][0]['fields']:
            for pos in clock_positions(facts, f['ty'], params):
                want.add((f['name'], pos))
        calls = _rr_calls(facts, body)
        have = {}
        rc_body = Reach(facts, body, Evaluator(facts))
        for d, bb, b, it, m in calls:
            rc = Reach(facts, b, Evaluator(facts))
            # a reset inside an adaptor closure counts only if the adaptor itself runs on every path of reset_remove
            # (an early return when the argument clock — or the field itself — is empty skips nothing that could change anything)
            noop = {'clock': (2, ()), 'field': (1, (d[0],))}
            itb0 = interp(facts, body)
            outer_ok = '_parent_bb' not in m or rc_body.must_pass([m['_parent_bb']]) or must_pass_unless_noop(facts, body, itb0, [m['_parent_bb']], noop, only_field=d[0])
            inner_ok = m.get('loop') or rc.must_pass([bb]) or (b is body and must_pass_unless_noop(facts, body, itb0, [bb], noop, only_field=d[0]))
            if m.get('loop') and b is body and '_parent_bb' not in m:
                # the reset sits in a loop of reset_remove itself: that loop must be reached (same proviso)
                from .loops import loop_of_block
                lp_ = loop_of_block(itb0, bb)
                if lp_ is not None and not rc_body.must_pass([lp_.head]) and not must_pass_unless_noop(facts, body, itb0, [lp_.head], noop, only_field=d[0]):
                    inner_ok = False
            if inner_ok and outer_ok:
                have[d] = (bb, b, it)
        missing = sorted(want - set(have))
        effs = effects(facts, body)
        stored = set(e.path[0] for e in effs if e.param == 1 and e.path)
        not_stored = sorted(set(f for f, p in want) - stored)
        det = {'expected': sorted(map(str, want)), 'found': sorted(map(str, have))}
        wiped = None
        itb = interp(facts, body)
        for w in list(itb.writes.values()):
            tgt = loc_target(itb, w.loc)
            if tgt and tgt[0] == 1 and tgt[2] == 'w' and w.kind == 'assign':
                old_val = ('param', 1)
                for f_ in tgt[1]:
                    old_val = ('field', old_val, f_)
                derives = any(versionless(st) == old_val or (param_path(st) and param_path(st)[0] == 1 and tuple(param_path(st)[1][:len(tgt[1])]) == tuple(tgt[1]))
                              for st in subterms(drop_lv(w.val)))
                if not derives:
                    # rebuilt in a local collection that a loop over the old content fills
                    from .loops import coll_local, fills_of
                    nm = coll_local(w.val)
                    for f_ in (fills_of(itb) if nm else []):
                        pb = param_path(f_.loop.source()[0])
                        if f_.local == nm and pb and pb[0] == 1 and tuple(pb[1][:len(tgt[1])]) == tuple(tgt[1]):
                            derives = True
                if not derives:
                    wiped = ('.'.join(tgt[1]) or 'the whole state', w.line)
        if wiped and not missing:
            ctx.fail(inst, body, 'reset_remove overwrites %s at line %d with a value that does not derive from its old content: it forgets more than the '
                     'argument clock covers' % wiped, line=wiped[1], details=det)
        elif missing:
            f, pos = missing[0]
            ctx.fail(inst, body, 'reset_remove does not reset %s%s with the argument clock on every path (dots covered by the clock survive there)'
                     % (f, ''.join('.' + p for p in pos)), details=det)
        elif not_stored:
            ctx.fail(inst, body, 'the reset %s is not stored back into self' % not_stored[0], details=det)
        else:
            ctx.ok(inst, body, 'all %d clock-carrying positions reset with the argument clock' % len(want), details=det)


@rule('RR-PRUNE', {
    'C18': 'elements whose witness becomes empty are removed, others are kept with the covered dots subtracted',
    'C20': 'no empty entry / empty pending remove / empty register value is left behind',
    'C04': 'an Orswot member with an empty witness would still read as present',
    'C05': 'a Map key with an empty entry clock would still read as present',
    'C03': '[primitive] nested values are reset through this routine by Map::merge and by the key remove (MAP-RESET-PAIR): an '
           'emptied member left in place reads as present on that route only',
    'C09': '[primitive] same: the member a covering key remove emptied must disappear',
}, floor=5)
def rr_prune(ctx):
    """In reset_remove: an element / pending remove / register value is dropped exactly when its reset clock is empty."""
    facts = ctx.facts
    done_fields = set()
    pending_shapes = []
    for inst, adt, params in RR_TYPES:
        body = ctx.method(adt, 'ResetRemove', 'reset_remove')
        r = roles(facts, adt) if adt != MVREG else {'entries': None, 'deferred': None, 'clock': None}
        it = interp(facts, body)
        for bb, c in sorted(it.calls.items()):
            if call_name(c.term) not in ('filter_map', 'retain', 'filter', 'retain_mut', 'extract_if', 'drain_filter'):
                continue
            for clo, m in closure_bindings(c.term):
                cb = facts.cb(clo[1])
                item = _binding_item(m)
                if cb is None or item is None:
                    continue
                base = param_path(iter_source(item[1])[0])
                if not base or base[0] != 1:
                    continue
                field = base[1][0]
                cit = interp(facts, cb)
                ctx.analysed.add(cb.key)
                name = '%s/%s' % (inst, field)
                props = ['C18', 'C20', 'C03', 'C09'] + (['C04'] if inst == 'orswot' else []) + (['C05'] if inst == 'map' else [])
                resets = [c2 for b2, c2 in cit.calls.items() if call_name(c2.term) == 'reset_remove' and is_call(c2.term, 'reset_remove', self_adt='VClock')]
                if not resets:
                    # maybe the reset happens in an earlier stage of the chain (`.map(reset).filter(non-empty)`): the loop form below
                    # sees the whole pipeline; complain only if it does not cover this field either
                    pending_shapes.append((inst, field, name, cb, props))
                    continue
                tgt_id = versionless(resets[0].args[0].val)

                def atom(t, tgt_id=tgt_id):
                    if is_call(t, 'is_empty', self_adt='VClock') and t[2] and versionless(t[2][0]) == tgt_id:
                        # must be tested after the reset
                        if any(st[0] == 'post' for st in subterms(drop_lv(t[2][0]))):
                            return 'empty'
                        return 'empty_pre'
                    return None
                none_s = ret_sites_by(cit, lambda v: is_variant(v, 'option::Option', 'None') or (v[0] == 'const' and v[2] == 'bool' and v[1] == 0))
                some_s = ret_sites_by(cit, lambda v: is_variant(v, 'option::Option', 'Some') or (v[0] == 'const' and v[2] == 'bool' and v[1] == 1))
                res = {}
                hits = set()
                for val in (True, False):
                    evr = Evaluator(facts, bool_atom=atom, assumption={'empty': val})
                    rc = Reach(facts, cb, evr)
                    if none_s or some_s:
                        res[val] = (any(b in rc.reachable for b, _ in none_s), any(b in rc.reachable for b, _ in some_s))
                    else:
                        # computed boolean result (retain / filter): keep iff the value evaluates to true
                        v = evr.ev(cit.ret)
                        res[val] = (v is not True, v is not False)
                    hits |= set(evr.hits)
                errs = []
                if 'empty' not in hits:
                    errs.append('the emptiness of the reset clock is not tested (after the reset)')
                else:
                    if res[True][1] or not res[True][0]:
                        errs.append('an element whose clock became empty is kept')
                    if res[False][0] or not res[False][1]:
                        errs.append('an element with surviving dots is dropped')
                ctx.check(not errs, name, cb, 'dropped exactly when the reset clock is empty', errs[0] if errs else '', line=cb.line,
                          details={'is_empty -> (drop may, keep may)': {str(k): v for k, v in res.items()}}, props=props)
                done_fields.add((inst, field))
        # ---- loop form (explicit loop over the field, or an adaptor chain rewritten into one by the 's' view)
        a = facts.adts[adt]
        for fdef in a['variants'][0]['fields']:
            field = fdef['name']
            if (inst, field) in done_fields or not clock_positions(facts, fdef['ty'], params) or fdef['ty'].get('path') == VCLOCK:
                continue
            for lp in loops_of(it):
                if not lp.whole_over(1, (field,)) or lp.early_exits():
                    continue
                flt = item_filter(facts, it, lp, (field,))
                resets = [(bb, c2) for bb, c2 in it.calls.items() if bb in lp.blocks and is_call(c2.term, 'reset_remove', self_adt='VClock')
                          and elem_value_of(c2.args[0].val) and param_path(elem_value_of(c2.args[0].val)[0]) == (1, (field,))]
                if flt is None or not resets:
                    continue
                name = '%s/%s' % (inst, field)
                props = ['C18', 'C20', 'C03', 'C09'] + (['C04'] if inst == 'orswot' else []) + (['C05'] if inst == 'map' else [])
                tgt_id = versionless(resets[0][1].args[0].val)

                def atom(t, tgt_id=tgt_id):
                    if is_call(t, 'is_empty', self_adt='VClock') and t[2] and versionless(t[2][0]) == tgt_id:
                        if any(st[0] == 'post' for st in subterms(drop_lv(t[2][0]))):
                            return 'empty'
                        return 'empty_pre'
                    return None
                tab, hits = keep_table(facts, body, lp, flt[0], flt[1], lambda o: Evaluator(facts, bool_atom=atom, assumption={'empty': o}), (True, False))
                errs = []
                if 'empty' not in hits:
                    errs.append('the emptiness of the reset clock is not tested (after the reset)')
                else:
                    if tab[True][0]:
                        errs.append('an element whose clock became empty is kept')
                    if not tab[False][1]:
                        errs.append('an element with surviving dots is dropped')
                ctx.check(not errs, name, body, 'dropped exactly when the reset clock is empty (loop form)', errs[0] if errs else '',
                          line=resets[0][1].line, details={'is_empty -> (keep may, keep must)': {str(k): v for k, v in tab.items()}}, props=props)
                done_fields.add((inst, field))
                break


# ---------------------------------------------------------------- serde

STATE_OP_ADTS = [
    'crdts::vclock::VClock', 'crdts::dot::Dot', 'crdts::dot::OrdDot', 'crdts::gcounter::GCounter', 'crdts::pncounter::PNCounter',
    'crdts::pncounter::Dir', 'crdts::pncounter::Op', 'crdts::gset::GSet', 'crdts::lwwreg::LWWReg', 'crdts::maxreg::MaxReg',
    'crdts::minreg::MinReg', 'crdts::mvreg::MVReg', 'crdts::mvreg::Op', 'crdts::orswot::Orswot', 'crdts::orswot::Op', 'crdts::map::Map',
    'crdts::map::Entry', 'crdts::map::Op', 'crdts::glist::GList', 'crdts::glist::Op', 'crdts::list::List', 'crdts::list::Op',
    'crdts::identifier::Identifier', 'crdts::merkle_reg::MerkleReg', 'crdts::merkle_reg::Node', 'crdts::ctx::ReadCtx',
    'crdts::ctx::AddCtx', 'crdts::ctx::RmCtx',
]


def serde_impls(facts):
    ser, de = {}, {}
    for i in facts.impls:
        t = i['trait'] or ''
        if t.endswith('_serde::Serialize'):
            ser[i['self_key']] = i
        elif t.endswith('_serde::Deserialize'):
            de[i['self_key']] = i
    return ser, de
    for inst, field, name, cb, props in pending_shapes:
        if (inst, field) not in done_fields:
            ctx.shape(name, cb, 'no VClock::reset_remove in the element filter', props=props)
            done_fields.add((inst, field))


@rule('SER-BOTH', {
    'C19': 'a state or op type that cannot be serialised or deserialised cannot be persisted or shipped',
}, floor=28)
def ser_both(ctx):
    """Every state and op type implements both Serialize and Deserialize."""
    facts = ctx.facts
    ser, de = serde_impls(facts)
    for adt in STATE_OP_ADTS:
        a = facts.adts.get(adt)
        if a is None:
            ctx.shape(adt.split('crdts::')[-1], None, 'type %s not found' % adt)
            continue
        b = facts.trait_impl_method(adt, 'Serialize', 'serialize')
        ctx.check(adt in ser and adt in de, adt.split('crdts::')[-1], b, 'Serialize + Deserialize',
                  '%s lacks %s' % (adt, 'Serialize' if adt not in ser else 'Deserialize'), nontrivial=False, fnkey=adt)


def _ser_fields(facts, adt):
    """Per variant: list of (wire name, value term, static type, via) found in the derived Serialize body; plus flags."""
    b = facts.trait_impl_method(adt, 'Serialize', 'serialize')
    if b is None:
        return None
    it = interp(facts, b)
    fields = []
    skipped = []
    transparent = None
    for bb, c in sorted(it.calls.items()):
        n = call_name(c.term)
        if n == 'serialize_field' and len(c.args) >= 2:
            # struct: (state, "name", value)   tuple variants: (state, value)
            vals = [a for a in c.args[1:]]
            name = None
            val = vals[-1]
            if len(vals) == 2 and vals[0].val[0] == 'const':
                name = vals[0].val[1]
                if isinstance(name, str):
                    name = name.strip('"')
            fields.append((name, val.val, val.ty, bb))
        elif n == 'skip_field':
            skipped.append(bb)
        elif n in ('serialize', 'serialize_newtype_struct', 'serialize_newtype_variant') and c.args:
            v = c.args[0] if n == 'serialize' else c.args[-1]
            if n == 'serialize' and param_path(v.val) and param_path(v.val)[0] == 1:
                transparent = (v.val, v.ty, bb)
            elif n != 'serialize':
                fields.append((None, v.val, v.ty, bb))
    return {'body': b, 'it': it, 'fields': fields, 'skipped': skipped, 'transparent': transparent}


def _with_payload(facts, val):
    """serialize_field value that is a generated __SerializeWith wrapper -> (inner value term, module fn key)."""
    v = drop_lv(val)
    if v[0] == 'agg' and '__SerializeWith' in v[1]:
        inner = dict(v[3]).get('values')
        if inner and inner[0] == 'tuple' and inner[1]:
            return inner[1][0], v[1]
    return None, None


@rule('SER-ALLFIELDS', dict({
    'C19': 'a field that is skipped or defaulted on the wire loses state across a restart',
}, **{p_: TYPE_PROP_WHY for ps_ in TYPE_PROPS.values() for p_ in ps_}), floor=25,
    inst_filter={p_: (lambda i, p_=p_: p_ in type_props(i) or i in ('floor', 'anchor', 'internal')) for ps_ in TYPE_PROPS.values() for p_ in ps_})
def ser_allfields(ctx):
    """Every field of every state/op type is written by the derived Serialize body (or is the transparent payload),
    none is skipped, and the derived Deserialize reports each as missing_field when absent."""
    facts = ctx.facts
    # names reported by missing_field per ADT
    missing = {}
    for b in facts.bodies:
        if not b.serde or 'Deserialize' not in b.key:
            continue
        it = interp(facts, b)
        for c in it.calls.values():
            if call_name(c.term) == 'missing_field' and c.args and c.args[0].val[0] == 'const':
                nm = str(c.args[0].val[1]).strip('"')
                missing.setdefault(b.key, set()).add(nm)
    for adt in STATE_OP_ADTS:
        a = facts.adts.get(adt)
        if a is None:
            continue
        short = adt.split('crdts::')[-1]
        info = _ser_fields(facts, adt)
        if info is None:
            ctx.shape(short, None, 'derived Serialize body of %s not found' % adt)
            continue
        b = info['body']
        ctx.analysed.add(b.key)
        errs = []
        if info['skipped']:
            errs.append('a field is skipped during serialisation')
        all_fields = [(v['name'], f['name']) for v in a['variants'] for f in v['fields']]
        if info['transparent'] is not None:
            if len(all_fields) != 1:
                errs.append('transparent serialisation of a type with %d fields' % len(all_fields))
        else:
            written = set()
            for name, val, ty, bb in info['fields']:
                inner, _ = _with_payload(facts, val)
                pp = param_path(inner if inner is not None else val)
                if pp and pp[0] == 1 and pp[1]:
                    fld = pp[1][-1].split('.')[-1]
                    written.add(fld)
                    if name is not None and name != fld:
                        errs.append('field %s is written under the wire name "%s"' % (fld, name))
            unit_only = all(not v['fields'] for v in a['variants'])
            want = set(f for _, f in all_fields)
            if not unit_only and want - written:
                errs.append('field(s) %s are never written by Serialize' % sorted(want - written))
            # Deserialize side
            if a['kind'] == 'struct' and want:
                rep = set()
                tail = adt.split('crdts::')[-1]      # e.g. list::List
                for k, names in missing.items():
                    if re.search(r'for %s\b' % re.escape(tail), k):
                        rep |= names
                lack = sorted(want - rep)
                if lack and rep:
                    errs.append('Deserialize does not require field(s) %s (they are defaulted when absent)' % lack)
                elif not rep:
                    errs.append('Deserialize has no field-by-field visitor for this type: it is rebuilt through a conversion '
                                '(serde from / try_from) or a hand-written impl, not as the mirror image of Serialize')
        ctx.check(not errs, short, b, 'all fields on the wire', '%s: %s' % (adt, errs[0] if errs else ''), fnkey=adt)


SCALAR_PRIMS = {'u8', 'u16', 'u32', 'u64', 'u128', 'usize', 'i8', 'i16', 'i32', 'i64', 'i128', 'isize', 'bool', 'char', 'str', 'f32', 'f64'}


def wire_class(facts, ty, depth=0):
    """How a type appears in JSON: scalar | seq | map | struct | param | unknown."""
    if depth > 6:
        return 'unknown'
    ty = ty
    while ty.get('k') == 'ref':
        ty = ty['ty']
    k = ty.get('k')
    if k == 'prim':
        return 'scalar' if ty['name'] in SCALAR_PRIMS else 'unknown'
    if k == 'param':
        return 'param'
    if k in ('tuple', 'array', 'slice'):
        return 'seq'
    if k != 'adt':
        return 'unknown'
    p = ty['path']
    if p.endswith('string::String'):
        return 'scalar'
    if p.endswith(('HashMap', 'BTreeMap')):
        return 'map'
    if p.endswith(('Vec', 'BTreeSet', 'HashSet', 'VecDeque')):
        return 'seq'
    if p.endswith('option::Option') and ty['args']:
        return wire_class(facts, ty['args'][0], depth + 1)
    if p.endswith(('BigInt', 'BigUint', 'Ratio')):
        return 'seq'
    a = facts.adts.get(p)
    if a is not None and p.startswith('crdts::'):
        info = _ser_fields(facts, p)
        if info and info['transparent'] is not None:
            return wire_class(facts, info['transparent'][1], depth + 1)
        if a['kind'] == 'enum' and all(not v['fields'] for v in a['variants']):
            return 'scalar'
        return 'struct'
    return 'unknown'


def bad_map_keys(facts, ty, depth=0):
    """Map types (at any nesting of std containers) whose key does not serialise as a JSON scalar."""
    out = []
    if depth > 6:
        return out
    while ty.get('k') == 'ref':
        ty = ty['ty']
    if ty.get('k') == 'adt':
        p = ty['path']
        if p.endswith(('HashMap', 'BTreeMap')) and len(ty['args']) >= 2:
            kc = wire_class(facts, ty['args'][0])
            if kc in ('seq', 'map', 'struct'):
                out.append((ty['s'], ty['args'][0]['s'], kc))
        if not p.startswith('crdts::'):
            for a in ty['args']:
                out += bad_map_keys(facts, a, depth + 1)
    elif ty.get('k') in ('tuple',):
        for e in ty['elems']:
            out += bad_map_keys(facts, e, depth + 1)
    return out


@rule('SER-MAPKEY', {
    'C19': 'a JSON object key must be a scalar: a map keyed by a structured value cannot be written by serde_json',
}, floor=4)
def ser_mapkey(ctx):
    """No field is serialised as a map whose key serialises as a sequence/map/struct (fields routed through a `with`
    module are classified by what the module emits)."""
    facts = ctx.facts
    for adt in STATE_OP_ADTS:
        a = facts.adts.get(adt)
        info = _ser_fields(facts, adt) if a else None
        if not info:
            continue
        short = adt.split('crdts::')[-1]
        items = list(info['fields'])
        if info['transparent'] is not None:
            items.append((a['variants'][0]['fields'][0]['name'], info['transparent'][0], info['transparent'][1], info['transparent'][2]))
        for name, val, ty, bb in items:
            inner, wrapper = _with_payload(facts, val)
            pp = param_path(inner if inner is not None else val)
            fld = pp[1][-1].split('.')[-1] if pp and pp[1] else (name or '?')
            if ty is None:
                continue
            is_map = wire_class(facts, ty) == 'map' or bad_map_keys(facts, ty)
            if inner is not None:
                # what does the with-module emit?  Follow the wrapper's own Serialize body.
                wb = [b for b in facts.bodies if b.serde and b.impl_self and '__SerializeWith' in (b.impl_self or '') and adt.split('::')[-1] in b.key and b.name == 'serialize']
                emits_seq = False
                for b in wb:
                    wit = interp(facts, b)
                    for c in wit.calls.values():
                        info2 = cinfo(c.cid)
                        if info2['local'] and info2['name'] == '~serialize':
                            mb = facts.by_uid.get(info2['uid'])
                            if mb is not None:
                                mit = interp(facts, mb)
                                for c2 in mit.calls.values():
                                    if call_name(c2.term) == 'serialize' and c2.args and c2.args[0].ty is not None and wire_class(facts, c2.args[0].ty) == 'seq':
                                        emits_seq = True
                ctx.check(emits_seq, '%s.%s' % (short, fld), info['body'], 'routed through a module that emits a sequence of pairs',
                          '%s.%s is routed through a `with` module that does not emit a sequence' % (adt, fld), fnkey=adt)
                continue
            if not is_map:
                continue
            bad = bad_map_keys(facts, ty)
            if bad:
                mty, kty, kc = bad[0]
                ctx.fail('%s.%s' % (short, fld), info['body'],
                         'field %s.%s is serialised as a map keyed by %s, which serialises as a %s: serde_json fails with "key must be a string" '
                         'as soon as the map is non-empty' % (adt, fld, kty, kc), details={'type': mty, 'key': kty, 'key_class': kc}, fnkey=adt)
            else:
                ctx.ok('%s.%s' % (short, fld), info['body'], 'map with scalar / user-chosen key', fnkey=adt)


@rule('SER-WITH-SYM', {
    'C19': 'the helper that encodes structured-key maps must read back exactly what it writes',
}, floor=1)
def ser_with_sym(ctx):
    """serde_helper::btreemap_as_vec: serialize emits a Vec of (key, value) pairs of every entry; deserialize reads a Vec of pairs and collects all."""
    facts = ctx.facts
    sb = facts.body('crdts::serde_helper::btreemap_as_vec::serialize')
    db = facts.body('crdts::serde_helper::btreemap_as_vec::deserialize')
    if sb is None or db is None:
        ctx.shape('btreemap_as_vec', None, 'helper module functions not found')
        return
    ctx.analysed.update([sb.key, db.key])
    sit, dit = interp(facts, sb), interp(facts, db)
    s_ok = False
    for c in sit.calls.values():
        if call_name(c.term) == 'serialize' and c.args and c.args[0].ty is not None:
            t = c.args[0].ty
            while t.get('k') == 'ref':
                t = t['ty']
            if t.get('k') == 'adt' and t['path'].endswith('Vec') and t['args'] and t['args'][0].get('k') == 'tuple' and len(t['args'][0]['elems']) == 2:
                src = drop_lv(c.args[0].val)
                s_ok = any(whole_iteration_over(st[2][-1], 1) for st in subterms(src)
                           if st[0] == 'call' and call_name(st) in ('from_iter', 'collect') and st[2])
    d_ok = False
    rt = drop_lv(dit.ret)
    for c in dit.calls.values():
        if call_name(c.term) == 'deserialize':
            dest = c.dest
            ty = db.locals[dest['local']]['ty']
            s = ty.get('s', '')
            if 'Vec<(K, V)>' in s:
                d_ok = True
    # .. and every decoded pair reaches the map: collect / from_iter over the whole vector (no positional adaptor, no filter)
    coll = False
    for st in subterms(rt):
        if is_call(st, ('collect', 'from_iter')) and st[2]:
            src = st[2][-1]
            base, kind_, clo_ = iter_source(src)
            b0 = drop_lv(base)
            whole = not clo_ and not (set(iter_adaptors(src)) & (LOSSY_ADAPTORS | {'rev', 'chain', 'zip'}))
            if whole and any(is_call(x, 'deserialize') for x in subterms(b0)):
                coll = True
    ctx.check(s_ok and d_ok and coll, 'btreemap_as_vec', sb, 'Vec<(K,V)> written from every entry and read back into a map',
              'btreemap_as_vec: serialize %s a Vec of pairs of every entry, deserialize %s a Vec<(K, V)>%s'
              % ('emits' if s_ok else 'does NOT emit', 'reads' if d_ok else 'does NOT read', '' if coll else ' and does not collect it'))


@rule('SER-ENUM-EXT', dict({
    'C16': 'ops reach validate_op after travelling in serialised form: if one variant can decode as another, validate_op judges an op '
           'that was never issued, the real one is lost, and the clock gap it leaves makes the actor\'s next in-order op rejected',
    'C19': 'op enums must use serde\'s externally tagged representation: internally tagged / adjacent / untagged enums are decoded '
           'through serde\'s buffered Content, which turns map keys into strings, so a VClock with integer actors no longer deserialises',
}, **{p_: 'an op that travels between replicas in serialised form must arrive as the op that was sent: an untagged representation lets one '
          'variant decode as another (a missing `Option` field reads as None), so replicas apply different ops'
      for ps_ in TYPE_PROPS.values() for p_ in ps_}), floor=6,
    inst_filter={p_: (lambda i, p_=p_: p_ in type_props(i) or i in ('floor', 'anchor', 'internal')) for ps_ in TYPE_PROPS.values() for p_ in ps_})
def ser_enum_ext(ctx):
    """Every enum among the state/op types is serialised variant by variant with serialize_*_variant (externally tagged)."""
    facts = ctx.facts
    for adt in STATE_OP_ADTS:
        a = facts.adts.get(adt)
        if a is None or a['kind'] != 'enum':
            continue
        b = facts.trait_impl_method(adt, 'Serialize', 'serialize')
        short = adt.split('crdts::')[-1]
        if b is None:
            ctx.shape(short, None, 'derived Serialize body of %s not found' % adt, fnkey=adt)
            continue
        it = interp(facts, b)
        seen = set()
        plain = []
        for c in it.calls.values():
            n = call_name(c.term) or ''
            if n.endswith('_variant'):
                for a2 in c.args:
                    if a2.val[0] == 'const' and isinstance(a2.val[1], str):
                        seen.add(a2.val[1].strip('"'))
            elif n in ('serialize_struct', 'serialize_map', 'serialize_tuple', 'serialize_seq'):
                plain.append(n)
        names = [v['name'] for v in a['variants']]
        missing = [v for v in names if v not in seen]
        ctx.check(not missing and not plain, short, b, 'externally tagged (%d variants)' % len(names),
                  '%s is not serialised as an externally tagged enum (variants without serialize_*_variant: %s%s): its ops are decoded through '
                  'serde\'s buffered representation, which breaks maps with non-string keys such as VClock<u64>'
                  % (adt, missing, '; uses ' + plain[0] if plain else ''), fnkey=adt)


VERIFIED_WITH = {'crdts::serde_helper::btreemap_as_vec': 'SER-WITH-SYM relates its serialize and deserialize'}


@rule('SER-WITH-PAIR', dict({
    'C19': 'a field written by one hand-written routine and read by an unrelated one (or by the default) has no reason to read back '
           'what was written',
}, **{p_: TYPE_PROP_WHY for ps_ in TYPE_PROPS.values() for p_ in ps_}), floor=2,
    inst_filter={p_: (lambda i, p_=p_: p_ in type_props(i) or i in ('floor', 'anchor', 'internal')) for ps_ in TYPE_PROPS.values() for p_ in ps_})
def ser_with_pair(ctx):
    """Every crate-local function a derived Serialize / Deserialize impl calls (`with`, `serialize_with`, `deserialize_with`,
    `from`, ..) belongs to a helper module whose two directions a rule relates, and a type uses the same helpers, the same
    number of times, in both directions."""
    facts = ctx.facts
    per = {}
    for b in facts.bodies:
        if not b.serde:
            continue
        m = re.search(r'impl lwwreg::_::_serde::(Serialize|Deserialize)(?:<[^>]*>)? for ([\w:]+)', b.key)
        if not m:
            m2 = re.match(r'<crdts::([\w:]+) as lwwreg::_::_serde::(Serialize|Deserialize)>', b.key)
            if not m2:
                continue
            m = type('M', (), {'group': lambda self, i, m2=m2: m2.group(2) if i == 1 else m2.group(1)})()
        side, ty = ('ser' if m.group(1) == 'Serialize' else 'de'), m.group(2)
        if side == 'de' and 'visit_map' in b.key:
            side = 'de-map'
        elif side == 'de' and 'visit_seq' in b.key:
            side = 'de-seq'
        it = interp(facts, b)
        for c in it.calls.values():
            info = cinfo(c.cid)
            if info['local'] and (info['name'] or '').startswith('~'):
                mod = (info['def'] or '').rsplit('::', 1)[0]
                per.setdefault(ty, {}).setdefault(side, []).append(mod)
    n = 0
    for ty in sorted(per):
        sides = per[ty]
        n += 1
        body = None
        mods = set(m_ for v in sides.values() for m_ in v)
        unknown = sorted(mods - set(VERIFIED_WITH))
        if unknown:
            ctx.fail(ty, body, '%s is (de)serialised through %s, a hand-written routine whose two directions no rule relates'
                     % (ty, ', '.join(unknown)), fnkey=ty)
            continue
        ser = sorted(sides.get('ser', []))
        # a struct is read either as a sequence or as a map: both visitors must route the same fields through the same helpers;
        # a transparent / newtype struct has neither and calls the helper from deserialize itself
        des = [sorted(sides[k]) for k in ('de-seq', 'de-map', 'de') if k in sides]
        ctx.check(bool(des) and all(d_ == ser for d_ in des), ty, body, '%d field(s) through %s in both directions' % (len(ser), ', '.join(sorted(mods))),
                  '%s routes %d field(s) through a helper when writing but %s when reading: writer and reader disagree on the wire form'
                  % (ty, len(ser), '/'.join(str(len(d_)) for d_ in des) or 'none'), fnkey=ty)
    if not n:
        ctx.shape('none', None, 'no derived impl calls a helper module (List.seq, MerkleReg.dag/orphans are expected to)')
