"""A.7 — counters, LWW/Max/Min registers, GSet, GList: operand routing and guard polarity."""
from ..core import rule
from ..terms import drop_lv
from .common import *
from .loops import adds_every

ABSORB_WHY = {
    'C02': 'if some part of other does not reach self, a+b lacks information b+a has; an inverted guard loses the larger value',
    'C03': 'op delivery of the updates behind other would have applied them',
}


def _stores(it):
    """Assignments, and `mem::replace(&mut place, v)` / `mem::swap` which store v into the place just the same."""
    return list(it.writes.items()) + [(k, w) for k, w in it.muts.items() if w.kind == 'replace']


def param_roles(facts, body):
    """param index -> self field it is written to or compared with."""
    it = interp(facts, body)
    roles = {}
    for _, w in _stores(it):
        tgt = loc_target(it, w.loc)
        v = versionless(w.val)
        if tgt and tgt[0] == 1 and len(tgt[1]) == 1 and v[0] == 'param':
            roles[v[1]] = tgt[1][0]
        elif tgt and tgt[0] == 1 and len(tgt[1]) == 0 and v[0] == 'agg':
            # `*self = T { f: a, g: b }`: every field written at once
            for fname, fv in v[3]:
                fv = versionless(fv)
                if fv[0] == 'param':
                    roles[fv[1]] = fname
    for sw in it.switches.values():
        for st in subterms(sw.discr):
            if st[0] == 'call' and len(st[2]) == 2 and cinfo(st[1])['name'] in ('eq', 'ne', 'lt', 'le', 'gt', 'ge', 'cmp', 'partial_cmp'):
                a, b = versionless(st[2][0]), versionless(st[2][1])
                for x, y in ((a, b), (b, a)):
                    if x[0] == 'param' and y[0] == 'field' and y[1] == ('param', 1):
                        roles.setdefault(x[1], y[2])
    return roles


def delegation(facts, it, name_ok, self_field=None):
    """call sites delegating to a callee with self (or self.<field>) as receiver."""
    out = []
    for bb, c in sorted(it.calls.items()):
        if not name_ok(c):
            continue
        if not c.args:
            continue
        pp = param_path(c.args[0].val)
        if pp and pp[0] == 1 and (self_field is None or pp[1] == self_field):
            out.append((bb, c))
    return out


def _lww_assign_clause(facts, body):
    """The function stores an incoming (value, marker) pair into self.val / self.marker together - must when self.marker < the new
    marker, never when it is greater.  The pair is a pair of parameters (update), or the fields of the incoming register (merge /
    apply written out, or inlined).  Returns (errors, details, found)."""
    it = interp(facts, body)
    sites = {}
    for (bb, si), w in _stores(it):
        tgt = loc_target(it, w.loc)
        v = versionless(w.val)
        if not tgt or tgt[0] != 1:
            continue
        if len(tgt[1]) == 1 and (v[0] == 'param' or (v[0] == 'field' and v[1] == ('param', 2) and v[2] == tgt[1][0])):
            sites[tgt[1][0]] = (bb, v)
        elif len(tgt[1]) == 0 and v[0] == 'agg' and v[1] == LWWREG:
            # `*self = LWWReg { val, marker }`: both fields assigned at once
            for fname, fv in v[3]:
                fv = versionless(fv)
                if fv[0] == 'param' or (fv[0] == 'field' and fv[1] == ('param', 2) and fv[2] == fname):
                    sites[fname] = (bb, fv)
        elif len(tgt[1]) == 0 and v == ('param', 2):
            # `*self = other`: the whole incoming register
            for fname in ('val', 'marker'):
                sites[fname] = (bb, ('field', ('param', 2), fname))
    if set(sites) != {'val', 'marker'}:
        return ['does not assign both val and marker from its arguments (assigned: %s)' % sorted(sites)], {}, False
    mterm = sites['marker'][1]

    def classify(a, b, t):
        for x, y, orient in ((a, b, 'fwd'), (b, a, 'rev')):
            if versionless(x) == ('field', ('param', 1), 'marker') and versionless(y) == mterm:
                return ('m', orient)
        return None
    res = {}
    hit = 0
    for o in TOTAL:
        evr = Evaluator(facts, classify=classify, assumption={'m': o})
        rc = Reach(facts, body, evr)
        res[o] = {f: (sites[f][0] in rc.reachable, rc.must_pass([sites[f][0]])) for f in sites}
        hit += len(evr.hits.get('m', ()))
    det = {'ord(self.marker, m) -> field: (assign may, must)': res}
    errs = []
    if not hit:
        errs.append('the assignment is not guarded by a comparison of self.marker with the new marker')
    for f in ('val', 'marker'):
        if not res[LT][f][1]:
            errs.append('%s is not assigned when the new marker is greater' % f)
        if res[GT][f][0]:
            errs.append('%s is assigned although self.marker is greater than the new marker (an older write wins)' % f)
    if res[EQ]['val'][0] != res[EQ]['marker'][0]:
        errs.append('val and marker are not assigned together')
    return errs, det, True


@rule('LWW-UPDATE', dict(ABSORB_WHY, **{
    'C11': 'an assignment reachable under self.marker > m lets an older write overwrite a newer one; not assigning under < loses the newest',
}), floor=1)
def lww_update(ctx):
    """LWWReg::update assigns both val and marker from the arguments: must under self.marker < m, never under >."""
    facts = ctx.facts
    body = ctx.inherent(LWWREG, 'update')
    errs, det, found = _lww_assign_clause(facts, body)
    if not found:
        ctx.fail('update', body, 'update ' + errs[0])
        return
    ctx.check(not errs, 'update', body, 'val and marker assigned together: must under {Lt}, never under {Gt}', errs[0] if errs else '', details=det)


@rule('LWW-CONFLICT', {
    'C11': 'an equal marker with a different value is a conflict',
    'C16': 'validate_op flags exactly marker reuse with a different value',
    'C17': 'validate_merge flags exactly marker reuse with a different value',
}, floor=1)
def lww_conflict(ctx):
    """LWWReg::validate_update returns Err exactly when the markers are equal and the values differ."""
    facts = ctx.facts
    body = ctx.inherent(LWWREG, 'validate_update')
    roles = param_roles(facts, body)
    inv = {v: k for k, v in roles.items()}
    if set(inv) != {'val', 'marker'}:
        ctx.fail('validate_update', body, 'does not compare its arguments with both self.val and self.marker (%s)' % roles)
        return
    errs, det = _lww_conflict_clause(facts, body, {f: ('param', inv[f]) for f in ('val', 'marker')})
    ctx.check(not errs, 'validate_update', body, 'Err exactly under marker == ∧ value !=', errs[0] if errs else '', details=det)


def _lww_conflict_clause(facts, body, incoming):
    """body returns Err exactly when self.marker equals the incoming marker and self.val differs from the incoming value;
    incoming = {'val': term, 'marker': term} (parameters of validate_update, or the fields of the incoming register)."""
    it = interp(facts, body)

    def atom(t):
        if t[0] == 'call' and len(t[2]) == 2 and cinfo(t[1])['name'] in ('eq', 'ne'):
            a, b = versionless(t[2][0]), versionless(t[2][1])
            n = cinfo(t[1])['name']
            for f, var in (('marker', 'meq'), ('val', 'veq')):
                if {a, b} == {('field', ('param', 1), f), incoming[f]}:
                    return var if n == 'eq' else ('not', var)
        return None
    errs_s = ret_sites_by(it, lambda v: is_variant(v, 'result::Result', 'Err'))
    res = {}
    for meq in (True, False):
        for veq in (True, False):
            rc = Reach(facts, body, Evaluator(facts, bool_atom=atom, assumption={'meq': meq, 'veq': veq}))
            # what is returned on the surviving paths (the result may travel through a local: trace the definitions that reach it)
            kinds = set()
            for rb in [b for b in rc.return_blocks() if b in rc.reachable]:
                for t_ in rc.reaching_terms(0, rb):
                    for a_ in phi_alts(drop_lv(t_)):
                        kinds.add('Err' if is_variant(a_, 'result::Result', 'Err') else 'Ok' if is_variant(a_, 'result::Result', 'Ok') else '?')
            res[(meq, veq)] = (bool(kinds - {'Ok'}), kinds == {'Err'})
    det = {'(marker equal, value equal) -> (Err may, must)': {str(k): v for k, v in res.items()}}
    errs = []
    if not res[(True, False)][1]:
        errs.append('an equal marker with a different value is accepted')
    for k in ((True, True), (False, True), (False, False)):
        if res[k][0]:
            errs.append('a non-conflicting update (marker equal=%s, value equal=%s) is rejected' % k)
    return errs, det


def _routes_to(facts, ctx, body, target_names, want_roles, inst, props, arg_base=2, whole_op=False):
    """body delegates (possibly through one more crate-local hop) to one of target_names passing op fields by role."""
    it = interp(facts, body)
    rc = Reach(facts, body, Evaluator(facts))
    for bb, c in sorted(it.calls.items()):
        info = cinfo(c.cid)
        if not info['local'] or not c.args:
            continue
        pp = param_path(c.args[0].val)
        if not (pp and pp[0] == 1 and pp[1] == ()):
            continue
        callee = facts.cb(info['uid'])   # in the current view: helpers of the callee may be inlined into it
        if callee is None:
            continue
        if info['name'] in target_names:
            roles = param_roles(facts, callee)
            ok = True
            for i, a in enumerate(c.args[1:], start=2):
                want = roles.get(i)
                pa = param_path(a.val)
                if pa is None or pa[0] != arg_base:
                    ok = False
                elif want_roles and (pa[1][-1:] != (want,)):
                    ok = False
            if ok and rc.must_pass([bb]):
                return True, 'passes %s to %s' % ([fmt(a.val, 3) for a in c.args[1:]], info['name'])
            return False, 'passes %s to %s (parameter roles %s)' % ([fmt(a.val, 3) for a in c.args[1:]], info['name'], roles)
        # one more hop (apply -> merge -> update)
        if len(c.args) == 2 and versionless(c.args[1].val) == ('param', arg_base) and rc.must_pass([bb]):
            return _routes_to(facts, ctx, callee, target_names, want_roles, inst, props, arg_base)
    return False, 'no delegation to %s found' % '/'.join(sorted(target_names))


@rule('LWW-ROUTE', dict(ABSORB_WHY, **{
    'C11': 'merge/apply/validate must hand (value, marker) of the incoming register to update in that order; an equal marker with a different value is flagged only if every validate path reaches validate_update',
    'C16': 'validate_op must check the op that apply would apply',
    'C17': 'validate_merge must check the state that merge would merge',
}), floor=4)
def lww_route(ctx):
    """LWWReg merge/apply -> update(other.val, other.marker); validate_merge/validate_op -> validate_update(same)."""
    facts = ctx.facts
    for trait, name, targets, props in (('CvRDT', 'merge', {'update'}, ['C02', 'C03', 'C11']), ('CmRDT', 'apply', {'update'}, ['C11', 'C03']),
                                        ('CvRDT', 'validate_merge', {'validate_update'}, ['C17', 'C11']), ('CmRDT', 'validate_op', {'validate_update'}, ['C16', 'C11'])):
        body = ctx.method(LWWREG, trait, name)
        ok, msg = _routes_to(facts, ctx, body, targets, True, name, props)
        if ok and targets == {'validate_update'}:
            # .. and the verdict of the delegate is what comes back: an Err is never dropped
            it_ = interp(facts, body)
            vb_ = [bb for bb, c in it_.calls.items() if cinfo(c.cid)['local'] and cinfo(c.cid)['name'] in ('validate_update', 'validate_merge', 'validate_op')]
            esc = err_verdict_escapes(facts, body, it_, vb_) if vb_ else []
            if esc:
                ok, msg = False, 'can return %s although the delegate reported a conflict' % esc
        if not ok and targets == {'update'}:
            # no delegation to update: the function may do the guarded store itself (written out, or a shared helper inlined)
            errs, det, found = _lww_assign_clause(facts, body)
            if found and not errs:
                ok, msg = True, 'stores (other.val, other.marker) itself under self.marker < other.marker'
        if not ok and targets == {'validate_update'}:
            # no delegation: the conflict test may be written out here (or validate_update inlined)
            errs, det = _lww_conflict_clause(facts, body, {f: ('field', ('param', 2), f) for f in ('val', 'marker')})
            if not errs:
                ok, msg = True, 'flags exactly an equal marker with a different value itself'
        ctx.check(ok, name, body, msg, 'LWWReg::%s %s' % (name, msg), props=props)


def _guarded_store(facts, body, src, must_o, never_o):
    """body stores <param 2><.src> into self.val (assignment, mem::replace or mem::swap): must under ord(new, self.val) = must_o,
    never under never_o.  Returns (None, details) when it holds, else (message, details)."""
    it = interp(facts, body)
    want = ('param', 2)
    for f_ in src:
        want = ('field', want, f_)
    site = None
    for (bb, si), w in list(it.writes.items()) + [(k_, w_) for k_, w_ in it.muts.items() if w_.kind == 'replace']:
        tgt = loc_target(it, w.loc)
        if tgt and tgt[0] == 1 and tgt[1] == ('val',) and versionless(w.val) == want:
            site = bb
        elif tgt and tgt[0] == 1 and tgt[1] == () and src == ('val',) and versionless(w.val) == ('param', 2):
            site = bb       # `*self = other`: the register is its value
        elif tgt and tgt[0] == 1 and tgt[1] == () and drop_lv(w.val)[0] == 'agg' and [versionless(v_) for _n, v_ in drop_lv(w.val)[3]] == [want]:
            site = bb       # `*self = MaxReg { val: v }`

    def classify(a, b, t):
        for x, y, orient in ((a, b, 'fwd'), (b, a, 'rev')):
            if versionless(x) == want and versionless(y) == ('field', ('param', 1), 'val'):
                return ('v', orient)
        return None
    if site is None:
        return 'never assigns the incoming value to val', {}
    res = {}
    hit = 0
    for o in TOTAL:
        evr = Evaluator(facts, classify=classify, assumption={'v': o})
        rc = Reach(facts, body, evr)
        res[o] = (site in rc.reachable, rc.must_pass([site]))
        hit += len(evr.hits.get('v', ()))
    det = {'ord(v, self.val) -> (assign may, must)': res}
    if not hit:
        return 'assignment not guarded by a comparison of the new value with self.val', det
    if not res[must_o][1]:
        return 'a %s value is not stored' % ('larger' if must_o == GT else 'smaller'), det
    if res[never_o][0]:
        return 'a %s value overwrites the stored one' % ('smaller' if must_o == GT else 'larger'), det
    return None, det


@rule('MAXMIN-UPDATE', dict(ABSORB_WHY, **{
    'C11': 'MaxReg must keep the largest / MinReg the smallest value ever applied',
}), floor=2)
def maxmin_update(ctx):
    """MaxReg::update assigns val: must under v > self.val, never under v < self.val; MinReg mirrored."""
    facts = ctx.facts
    for adt, must_o, never_o in ((MAXREG, GT, LT), (MINREG, LT, GT)):
        body = ctx.inherent(adt, 'update')
        inst = adt.split('::')[-1]
        msg, det = _guarded_store(facts, body, (), must_o, never_o)
        ctx.check(msg is None, inst, body, 'assign must under {%s}, never under {%s}' % (must_o, never_o),
                  'update ' + (msg or ''), details=det)


@rule('MAXMIN-ROUTE', dict(ABSORB_WHY, **{'C11': 'merge and apply must both go through the guarded update'}), floor=4)
def maxmin_route(ctx):
    """MaxReg/MinReg merge -> update(other.val); apply -> update(op) (or the same guarded store written in place)."""
    facts = ctx.facts
    for adt, must_o, never_o in ((MAXREG, GT, LT), (MINREG, LT, GT)):
        for trait, name in (('CvRDT', 'merge'), ('CmRDT', 'apply')):
            body = ctx.method(adt, trait, name)
            it = interp(facts, body)
            rc = Reach(facts, body, Evaluator(facts))
            ok = False
            src = ('val',) if name == 'merge' else ()
            for bb, c in it.calls.items():
                if cinfo(c.cid)['name'] == 'update' and cinfo(c.cid)['local'] and len(c.args) == 2:
                    pa = value_path(c.args[1].val)
                    if param_path(c.args[0].val) == (1, ()) and pa and pa[0] == 2 and pa[1] == src and rc.must_pass([bb]):
                        ok = True
            if not ok:
                msg, _det = _guarded_store(facts, body, src, must_o, never_o)
                ok = msg is None
            ctx.check(ok, '%s::%s' % (adt.split('::')[-1], name), body, 'delegates to update with the incoming value',
                      '%s::%s does not pass the incoming value to update on every path' % (adt, name),
                      props=['C11', 'C02', 'C03'] if name == 'merge' else ['C11', 'C03'])


def _pn_fields(facts, ctx):
    """(positive field, negative field) of PNCounter, defined by read() = read(pos) - read(neg)."""
    body = ctx.inherent(PNCOUNTER, 'read')
    r = drop_lv(interp(facts, body).ret)
    if r[0] == 'post' and r[2] == 0 and is_call(r[1], 'sub_assign') and len(r[1][2]) == 2:
        r = ('call', r[1][1], r[1][2])      # `total -= x; total` is `total - x`
    if r[0] == 'phi' and len(r[1]) in (2, 3):
        # `if n.is_zero() { return p }  [if p.is_zero() { return -n }]  p - n`: the minuend alone where the subtrahend is zero, the
        # negated subtrahend where the minuend is zero, the difference elsewhere
        alts = [drop_lv(a_) for a_ in r[1]]
        subs = [a_ for a_ in alts if is_call(a_, ('sub', 'sub_assign')) and len(a_[2]) == 2]
        if len(subs) == 1:
            d_ = subs[0]
            min_t, sub_t = versionless(strip_lossless(d_[2][0])), versionless(strip_lossless(d_[2][1]))

            def is_short(a_):
                a_ = strip_lossless(a_)
                if versionless(a_) == min_t:
                    return True
                return is_call(a_, 'neg') and len(a_[2]) == 1 and versionless(strip_lossless(a_[2][0])) == sub_t

            def zero_atom(t):
                if is_call(t, 'is_zero') and len(t[2]) == 1:
                    x_ = versionless(strip_lossless(t[2][0]))
                    return 'zs' if x_ == sub_t else 'zm' if x_ == min_t else None
                return None
            if all(is_short(a_) for a_ in alts if a_ is not d_):
                it_ = interp(facts, body)
                ev_ = Evaluator(facts, bool_atom=zero_atom, assumption={'zs': False, 'zm': False})
                rc_ = Reach(facts, body, ev_)
                live = [w_ for k_, w_ in it_.ret_assigns.items() if k_[0] in rc_.reachable]
                # the minuend alone only where the subtrahend is zero, the negated subtrahend only where the minuend is zero
                ok_short = True
                for zs_, zm_, bad in ((False, None, min_t), (None, False, 'neg')):
                    asm_ = {k_: v_ for k_, v_ in (('zs', zs_), ('zm', zm_)) if v_ is not None}
                    rcw = Reach(facts, body, Evaluator(facts, bool_atom=zero_atom, assumption=asm_))
                    for k_, w_ in it_.ret_assigns.items():
                        if k_[0] in rcw.reachable:
                            for a_ in phi_alts(w_.val):
                                a_ = strip_lossless(drop_lv(a_))
                                if (bad == 'neg' and is_call(a_, 'neg')) or (bad != 'neg' and versionless(a_) == bad):
                                    ok_short = False
                if ev_.hits and len(live) == 1 and drop_lv(live[0].val) == d_ and ok_short:
                    r = d_
    if not (is_call(r, ('sub', 'sub_assign')) and len(r[2]) == 2):
        return None, None, body, r

    def fld(x):
        for st in subterms(x):
            if is_call(st, 'read', self_adt='GCounter') and st[2]:
                pp = param_path(st[2][0])
                if pp and pp[0] == 1 and len(pp[1]) == 1:
                    return pp[1][0]
        return None
    return fld(r[2][0]), fld(r[2][1]), body, r


@rule('CNT-READ', floor=2, **read_attribution({
    'C11': 'GCounter reads the sum over all actors; PNCounter reads increments minus decrements',
}, module=None))
def cnt_read(ctx):
    """GCounter::read sums the counter of every dot of inner; PNCounter::read = read(p) - read(n)."""
    facts = ctx.facts
    body = ctx.inherent(GCOUNTER, 'read')
    raw_ret = interp(facts, body).ret
    g_ = general_ret(facts, body, {'inner': (1, ())})      # `if self.inner.is_empty() { return zero }` in front of the sum
    if g_ is not None:
        raw_ret = g_
    r = drop_lv(raw_ret)
    ok = False
    if is_call(r, 'sum') and r[2]:
        src = r[2][0]
        base, kind, clo = iter_source(src)
        pp = param_path(base)
        if pp and pp[0] == 1 and not (set(iter_adaptors(src)) & LOSSY_ADAPTORS) and clo:
            n, cl = clo[0]
            if cl and cl[0] == 'closure':
                cr = versionless(strip_lossless(interp(facts, facts.cb(cl[1])).ret))
                ok = cr == ('field', ('param', 2), 'counter')
    if not ok and is_call(r, 'fold') and len(r[2]) == 3 and r[2][2][0] == 'closure':
        # fold form: every counter of inner (the dots of inner.iter(), or the values of inner.dots) added to a zero total
        src = r[2][0]
        base, kind, clo = iter_source(src)
        pp = param_path(base)
        whole = bool(pp and pp[0] == 1 and not clo and not (set(iter_adaptors(src)) & LOSSY_ADAPTORS))
        i0 = drop_lv(r[2][1])
        zero = (i0[0] == 'call' and call_name(i0) in ('default', 'zero', 'new') and not i0[2]) or (i0[0] == 'const' and i0[1] == 0) \
            or (is_call(i0, 'from') and i0[2] and drop_lv(i0[2][0])[0] == 'const' and drop_lv(i0[2][0])[1] == 0)
        cb_ = facts.cb(r[2][2][1])
        if whole and zero and cb_ is not None:
            cr = versionless(interp(facts, cb_).ret)
            is_vals = pp[1][-1:] == ('dots',) and kind == 'values'
            item = ('param', 3) if is_vals else ('field', ('param', 3), 'counter')
            ok = (cr[0] == 'binop' and cr[1] == 'Add' and {cr[2], cr[3]} == {('param', 2), item}) or \
                 (is_call(cr, 'add') and len(cr[2]) == 2 and {versionless(strip_lossless(cr[2][0])), versionless(strip_lossless(cr[2][1]))} == {('param', 2), item})
            if not ok:
                why_fold = fmt(cr, 5)
    if not ok:
        # accumulator form: total = 0; for dot in self.inner.iter() { total += dot.counter }
        from .loops import accumulates, item_derived
        raw = raw_ret

        def init_ok(i):
            return (i[0] == 'call' and call_name(i) in ('default', 'zero', 'new') and not i[2]) or (i[0] == 'const' and i[1] == 0) \
                or (is_call(i, 'from') and i[2] and i[2][0][0] == 'const' and i[2][0][1] == 0)

        def src_ok(lp):
            pp = param_path(lp.source()[0])
            return bool(pp and pp[0] == 1 and not lp.source()[2] and not (set(iter_adaptors(lp.src)) & LOSSY_ADAPTORS))

        def step_ok(c, lp):
            if call_name(c.term) not in ('add_assign', 'add') or len(c.args) != 2:
                return False
            v = versionless(strip_lossless(c.args[1].val))
            return v[0] == 'field' and v[2] == 'counter' and as_item(v[1]) is not None and item_derived(c.args[1].val, lp)
        ok = accumulates(facts, body, raw, init_ok, src_ok, step_ok)
    ctx.check(ok, 'GCounter::read', body, 'sum of the counters of every dot', 'GCounter::read is %s, expected the sum of every dot counter of inner' % fmt(r, 5))
    pos, neg, body, r = _pn_fields(facts, ctx)
    ok = pos is not None and neg is not None and pos != neg
    ctx.check(ok, 'PNCounter::read', body, 'read(%s) - read(%s)' % (pos, neg), 'PNCounter::read is %s, expected read(p) - read(n) over two different counters' % fmt(r, 5))


@rule('CNT-ROUTE', dict(ABSORB_WHY, **{
    'C11': 'crossed routing counts an increment as a decrement; a component left out of merge/reset loses counts',
    'C18': 'reset_remove must cover both counters',
}), floor=9)
def cnt_route(ctx):
    """PNCounter: inc/inc_many build ops on the positive counter tagged with the direction that apply/validate_op route
    back to the positive counter (dec mirrored); merge/reset_remove/validate_merge are componentwise."""
    facts = ctx.facts
    pos, neg, _, _ = _pn_fields(facts, ctx)
    if pos is None:
        ctx.shape('fields', None, 'positive/negative counters not identified (see CNT-READ)')
        return
    dir_of = {}
    for name, fld, callee in (('inc', pos, 'inc'), ('dec', neg, 'inc'), ('inc_many', pos, 'inc_many'), ('dec_many', neg, 'inc_many')):
        body = ctx.inherent(PNCOUNTER, name)
        r = drop_lv(interp(facts, body).ret)
        ok = False
        msg = 'PNCounter::%s builds %s' % (name, fmt(r, 5))
        if r[0] == 'agg' and r[1].endswith('pncounter::Op'):
            f = dict(r[3])
            d, dr = f.get('dot'), f.get('dir')
            inner = ('field', ('field', ('param', 1), fld), 'inner')
            if callee == 'inc':
                shape_ok = next_dot_of(facts, d) == (inner, ('param', 2))
            else:
                shape_ok = stepped_dot_of(facts, d) == (inner, ('param', 2), ('param', 3))
            if shape_ok and dr[0] == 'agg':
                args_ok = True
                prev = dir_of.setdefault(fld, dr[2])
                ok = args_ok and prev == dr[2]
                if not ok:
                    msg = 'PNCounter::%s tags the op %s but the %s counter is tagged %s elsewhere' % (name, dr[2], fld, prev)
            else:
                msg = 'PNCounter::%s derives its dot from %s, expected GCounter::%s on self.%s' % (name, fmt(d, 4), callee, fld)
        ctx.check(ok, name, body, 'dot from self.%s, dir %s' % (fld, dir_of.get(fld)), msg, props=['C11'])
    if len(set(dir_of.values())) != 2:
        ctx.fail('dirs', None, 'increments and decrements are tagged with the same direction %s' % dir_of, props=['C11'])
        return
    vnames = variants(facts, 'crdts::pncounter::Dir')
    for trait, name, callee in (('CmRDT', 'apply', 'apply'), ('CmRDT', 'validate_op', 'validate_op')):
        body = ctx.method(PNCOUNTER, trait, name)
        it = interp(facts, body)
        errs = []
        for fld in (pos, neg):
            v = dir_of[fld]

            def atom(t):
                if t[0] == 'discr':
                    pp = param_path(t[1])
                    if pp and pp[0] == 2 and pp[1][-1:] == ('dir',):
                        return 'dir'
                return None
            rc = Reach(facts, body, Evaluator(facts, bool_atom=atom, assumption={'dir': vnames.index(v)}))
            good, wrong = [], []
            for bb, c in it.calls.items():
                if not is_call(c.term, callee, self_adt='GCounter') or bb not in rc.reachable:
                    continue
                # the receiver may have been selected by an earlier match on the direction: resolve it on this path
                recv = set(param_path(versionless(x)) for x in rc.arg_terms(bb, 0))
                dots = value_path(c.args[1].val)
                if recv == {(1, (fld,))} and dots and dots[0] == 2 and dots[1][-1:] == ('dot',):
                    good.append(bb)
                elif recv != {(1, (fld,))}:
                    wrong.append(bb)
            if not good or not rc.must_pass(good):
                errs.append('an op tagged %s is not routed to self.%s' % (v, fld))
            if wrong:
                errs.append('an op tagged %s also reaches the other counter' % v)
        ctx.check(not errs, name, body, '%s -> %s, %s -> %s' % (dir_of[pos], pos, dir_of[neg], neg), errs[0] if errs else '',
                  props=['C11'] + (['C16'] if name == 'validate_op' else []))
    for trait, name, props in (('CvRDT', 'merge', ['C11', 'C02', 'C03']), ('ResetRemove', 'reset_remove', ['C11', 'C18']), ('CvRDT', 'validate_merge', ['C11', 'C17'])):
        body = ctx.method(PNCOUNTER, trait, name)
        it = interp(facts, body)
        rc = Reach(facts, body, Evaluator(facts))
        errs = []
        for fld in (pos, neg):
            good = []
            for bb, c in it.calls.items():
                if is_call(c.term, name, self_adt='GCounter') and param_path(c.args[0].val) == (1, (fld,)):
                    pa = value_path(c.args[1].val)
                    if name == 'reset_remove':
                        if pa == (2, ()):
                            good.append(bb)
                    elif pa == (2, (fld,)):
                        good.append(bb)
            if not good:
                errs.append('self.%s is not paired with %s' % (fld, 'the argument clock' if name == 'reset_remove' else 'other.' + fld))
            elif name != 'validate_merge' and not rc.must_pass(good):
                noop = {'merge': {'other': (2, ())}, 'reset_remove': {'clock': (2, ()), 'self': (1, ())}}.get(name, {})
                if not must_pass_unless_noop(facts, body, it, good, noop):
                    errs.append('a path skips self.%s' % fld)
        ctx.check(not errs, name, body, 'componentwise over %s and %s' % (pos, neg), errs[0] if errs else '', props=props)


@rule('GC-DELEGATE', dict(ABSORB_WHY, **{
    'C11': 'GCounter keeps the largest running total per actor by delegating to the inner VClock',
    'C18': 'GCounter::reset_remove must reset the inner clock with the argument',
}), floor=3)
def gc_delegate(ctx):
    """GCounter apply/merge/reset_remove delegate to inner with the right operand."""
    facts = ctx.facts
    for trait, name, want, props in (('CmRDT', 'apply', (2, ()), ['C11', 'C03']), ('CvRDT', 'merge', (2, ('inner',)), ['C11', 'C02', 'C03']),
                                     ('ResetRemove', 'reset_remove', (2, ()), ['C11', 'C18'])):
        body = ctx.method(GCOUNTER, trait, name)
        it = interp(facts, body)
        rc = Reach(facts, body, Evaluator(facts))
        good = [bb for bb, c in it.calls.items() if is_call(c.term, name, self_adt='VClock') and len(c.args) == 2
                and param_path(c.args[0].val) == (1, ('inner',)) and value_path(c.args[1].val) == want]
        if name == 'merge' and not good:
            # the clock merge written out: every dot of other.inner is applied to self.inner (what VClock::merge does)
            from .loops import loop_of_block
            for bb, c in it.calls.items():
                if is_call(c.term, 'apply', self_adt='VClock') and len(c.args) == 2 and param_path(c.args[0].val) == (1, ('inner',)):
                    src = as_item(c.args[1].val)
                    lp = loop_of_block(it, bb)
                    if src is not None and lp is not None and whole_iteration_over(src, 2, ('inner',)) and not iter_source(src)[2] \
                            and not lp.early_exits() and lp.must(rc, [bb]):
                        good.append(lp.head)
        # `if other.inner.is_empty() { return }` / `if clock.is_empty() || self.inner.is_empty() { return }`: skipping a no-op
        noop = {'merge': {'other': (2, ())}, 'reset_remove': {'clock': (2, ()), 'self': (1, ())}}.get(name, {})
        passes = bool(good) and (rc.must_pass(good) or must_pass_unless_noop(facts, body, it, good, noop))
        ctx.check(passes, name, body, 'inner.%s(%s)' % (name, 'other.inner' if want[1] else 'argument'),
                  'GCounter::%s does not delegate to inner.%s with the right operand on every path' % (name, name), props=props)


@rule('CNT-STEP', {
    'C11': 'inc derives the next dot from the local total; inc_many(steps) = steps + current total',
}, floor=2)
def cnt_step(ctx):
    """GCounter::inc = inner.inc(actor); GCounter::inc_many(actor, steps) = Dot{actor, steps + inner.get(actor)}."""
    facts = ctx.facts
    body = ctx.inherent(GCOUNTER, 'inc')
    r = interp(facts, body).ret
    inner = ('field', ('param', 1), 'inner')
    ok = next_dot_of(facts, r) == (inner, ('param', 2))
    ctx.check(ok, 'inc', body, 'inner.inc(actor)', 'GCounter::inc is %s, expected the next dot of self.inner for the actor' % fmt(normal(facts, r), 5))
    body = ctx.inherent(GCOUNTER, 'inc_many')
    r = interp(facts, body).ret
    ok = stepped_dot_of(facts, r) == (inner, ('param', 2), ('param', 3))
    ctx.check(ok, 'inc_many', body, 'Dot{actor, steps + inner.get(actor)}', 'GCounter::inc_many is %s, expected Dot{actor, steps + self.inner.get(actor)}' % fmt(normal(facts, r), 5))


@rule('GSET-GLIST', dict(ABSORB_WHY, **{'C11': 'GSet reads the union of inserted elements'}), floor=4)
def gset_glist(ctx):
    """GSet merge/apply insert every element of other / the op into value; GList merge/apply likewise into list."""
    facts = ctx.facts
    # GSet
    for trait, name in (('CvRDT', 'merge'), ('CmRDT', 'apply')):
        body = ctx.method(GSET, trait, name)
        effs = effects(facts, body)
        writes = any(e.param == 1 and e.path == ('value',) and e.how in ('insert', 'extend', 'append') for e in effs)
        it = interp(facts, body)
        rc = Reach(facts, body, Evaluator(facts))
        ok = False
        if name == 'apply':
            # (inserting a member the set already holds changes nothing: the insert must happen in the world where it does not)
            def has_atom(t):
                if is_call(t, 'contains') and len(t[2]) == 2 and param_path(versionless(t[2][0])) in ((1, ()), (1, ('value',))) \
                        and versionless(t[2][1]) == ('param', 2):
                    return 'has'
                return None
            rc_new = Reach(facts, body, Evaluator(facts, bool_atom=has_atom, assumption={'has': False}))
            for bb, c in it.calls.items():
                if call_name(c.term) == 'insert' and param_path(c.args[0].val) and param_path(c.args[0].val)[0] == 1 and versionless(c.args[-1].val) == ('param', 2):
                    ok = rc.must_pass([bb]) or rc_new.must_pass([bb])
        else:
            ok, _site = adds_every(facts, body, it, ('value',), 2, ('value',))
        ctx.check(ok and writes, 'GSet::' + name, body, 'every incoming element inserted into value',
                  'GSet::%s does not insert every incoming element into self.value' % name,
                  props=['C11', 'C02', 'C03'] if name == 'merge' else ['C11', 'C03'])
    # GList
    body = ctx.method(GLIST, 'CvRDT', 'merge')
    it = interp(facts, body)
    rc = Reach(facts, body, Evaluator(facts))
    ok, _site = adds_every(facts, body, it, ('list',), 2, ('list',))
    ctx.check(ok, 'GList::merge', body, 'list extended by every identifier of other', 'GList::merge does not add every identifier of other.list to self.list',
              props=['C02', 'C03'])
    body = ctx.method(GLIST, 'CmRDT', 'apply')
    it = interp(facts, body)
    rc = Reach(facts, body, Evaluator(facts))
    ok = any(call_name(c.term) == 'insert' and param_path(c.args[0].val) == (1, ('list',)) and param_path(c.args[1].val) and param_path(c.args[1].val)[0] == 2
             and rc.must_pass([bb]) for bb, c in it.calls.items())
    ctx.check(ok, 'GList::apply', body, 'identifier of the op inserted into list', 'GList::apply does not insert the op identifier into self.list', props=['C03'])
