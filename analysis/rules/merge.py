"""A.3 — merge of Orswot and Map: one-sided drop decisions, the common-dots formula, nested resets."""
from ..core import rule
from ..terms import drop_lv, rebuild
from .common import *
from ..interp import proj
from .removes import roles, TYPES
from .loops import loops_of, item_filter, keep_table


# ---------------------------------------------------------------- clock-expression normal form

def cexpr(t):
    """Normal form of a VClock-valued term: minus / join / meet over leaves (AC-normalised)."""
    if t[0] == 'lv' and not (t[2].startswith('L') or t[2].startswith('SL')):
        return cexpr(t[3])   # an element read through a container that changes in the loop: identity is the element
    if t[0] == 'lv':
        # a loop-carried clock (scratch variable living across iterations): it equals its initial value in the first
        # iteration only, so it is an opaque leaf and never the fresh copy its initialiser suggests
        return ('leaf', ('carried', t[1], t[2]))
    if t[0] == 'at':
        return cexpr(t[2])
    if t[0] == 'post' and t[1][0] == 'call' and t[2] == 0:
        c = t[1]
        n = call_name(c)
        if n == 'reset_remove' and len(c[2]) == 2:
            return ('minus', cexpr(c[2][0]), cexpr(c[2][1]))
        if n == 'merge' and len(c[2]) == 2:
            return mk_join([cexpr(c[2][0]), cexpr(c[2][1])])
        if n == 'glb' and len(c[2]) == 2:
            return ('meet', frozenset([cexpr(c[2][0]), cexpr(c[2][1])]))
    if t[0] == 'call':
        n = call_name(t)
        if n == 'clone_without' and len(t[2]) == 2:
            return ('minus', cexpr(t[2][0]), cexpr(t[2][1]))
        if n == 'intersection' and len(t[2]) == 2:
            return ('meet', frozenset([cexpr(t[2][0]), cexpr(t[2][1])]))
    if t[0] == 'obj':
        return cexpr(t[1])
    return ('leaf', drop_lv(t))


def removed_info(e, r, entry_side, clock_side):
    """e == C − (E − C): the dots of the deciding replica clock C (of `clock_side`) that are no longer witnesses of the
    entry (of `entry_side`) after C was subtracted from its clock E."""
    C = leaf_param(clock_side, (r['clock'],))
    return (e[0] == 'minus' and e[1] == C and e[2][0] == 'minus' and e[2][2] == C and e[2][1][0] == 'leaf'
            and _entry_clock_match(e[2][1][1], r, ('clock',), entry_side))


def mk_join(parts):
    flat = set()
    for p in parts:
        if p[0] == 'join':
            flat |= p[1]
        else:
            flat.add(p)
    return ('join', frozenset(flat))


def cleaves(e):
    if e[0] == 'leaf':
        return {e[1]}
    out = set()
    if e[0] == 'minus':
        out |= cleaves(e[1]) | cleaves(e[2])
    else:
        for x in e[1]:
            out |= cleaves(x)
    return out


def fmt_c(e):
    if e[0] == 'leaf':
        return fmt(e[1], 6)
    if e[0] == 'minus':
        return '(%s − %s)' % (fmt_c(e[1]), fmt_c(e[2]))
    sym = ' ⊔ ' if e[0] == 'join' else ' ⊓ '
    return '(' + sym.join(sorted(fmt_c(x) for x in e[1])) + ')'


def is_field_of_param(t, i, path):
    t = drop_lv(t)
    pp = None
    cur, fields = t, []
    while cur[0] == 'field':
        fields.append(cur[2])
        cur = cur[1]
    if cur == ('param', i) and tuple(reversed(fields)) == tuple(path):
        return True
    return False


def leaf_param(i, path):
    t = ('param', i)
    for f in path:
        t = ('field', t, f)
    return ('leaf', t)


# ---------------------------------------------------------------- ours-only branch (closure form)

def _ours_closures(facts, it, r):
    """(call rec, closure body, mapping) for adaptor closures ranging over self.entries."""
    out = []
    for bb, c in sorted(it.calls.items()):
        n = call_name(c.term)
        if n not in ('filter_map', 'retain', 'filter', 'retain_mut'):
            continue
        for clo, mapping in closure_bindings(c.term):
            item = mapping.get(('param', 2))
            if item is None:
                continue
            src, kind, cl = iter_source(item[1] if item[0] == 'item' else item)
            pp = param_path(src)
            if pp and pp[0] == 1 and pp[1] == (r['entries'],):
                cb = facts.cb(clo[1])
                if cb is not None:
                    out.append((c, cb, mapping))
    return out


def _ret_sites(cit):
    drop, keep = [], []
    for (bb, si), w in cit.ret_assigns.items():
        for alt in phi_alts(w.val):
            if alt[0] == 'agg' and alt[1].endswith('option::Option'):
                (drop if alt[2] == 'None' else keep).append((bb, alt))
            elif alt[0] == 'const' and alt[2] == 'bool':
                (keep if alt[1] else drop).append((bb, alt))
    return drop, keep


def _entry_clock_match(x, r, sub, side):
    """x is the witness clock of an entry of <side>.entries (side 1 = self, 2 = other)."""
    ev = elem_value_of(x)
    if ev is None:
        return False
    cont, key, part, s = ev
    pp = param_path(cont)
    return bool(pp and pp[0] == side and pp[1] == (r['entries'],) and part == 'value' and tuple(s) == tuple(sub))


def _ours_loop_form(ctx, facts, body, it, r, sub, name, props):
    """our-only decision written as an explicit loop over self.entries (or produced from retain/filter by the 's' view)."""
    for lp in loops_of(it):
        if not lp.whole_over(1, (r['entries'],)) or lp.early_exits():
            continue
        flt = item_filter(facts, it, lp, (r['entries'],))
        if flt is None:
            continue
        kind, sites, vals = flt
        pre = []

        def atom(t):
            return presence_atom(t, 2, r['entries'], 'theirs_has')

        def classify(a, b, t):
            for x, y, orient in ((a, b, 'fwd'), (b, a, 'rev')):
                px = param_path(x)
                if px and px[0] == 2 and px[1] == (r['clock'],) and _entry_clock_match(y, r, sub, 1):
                    pre.append(is_field_of_param(x, 2, (r['clock'],)))
                    return ('drop', orient)
            return None
        table = {}
        hits = set()
        for has in (False, True):
            tab, h = keep_table(facts, body, lp, kind, sites, lambda o, has=has: Evaluator(facts, classify=classify, bool_atom=atom,
                                                                                      assumption={'theirs_has': has, 'drop': o}), PARTIAL)
            hits |= h
            for o, v in tab.items():
                table[(has, o)] = v
        det = {'table(theirs_has,ord(other.clock,entry clock)) -> (keep may, keep must)': {'%s,%s' % k: v for k, v in table.items()}}
        line = block_line(it, lp.head)
        if 'theirs_has' not in hits or 'drop' not in hits:
            ctx.fail(name, body, 'the loop over our entries does not test presence in other.entries and compare other.clock with the entry clock '
                     '(found atoms: %s)' % sorted(hits), line=line, details=det, props=props)
            return True
        errs = []
        for o in (GT, EQ):
            if table[(False, o)][0]:
                errs.append('an entry only we have whose clock is covered by other.clock (%s) is kept: other has seen and removed it' % o)
        for o in (LT, NONE):
            if not table[(False, o)][1]:
                errs.append('an entry only we have that other has not (fully) seen (%s) is dropped: a concurrent add is lost' % o)
        for o in PARTIAL:
            if not table[(True, o)][1]:
                errs.append('an entry present on both sides is dropped by the one-sided loop')
                break
        if pre and not all(pre):
            errs.append('the decision reads other.clock after it was modified')
        ctx.check(not errs, name, body, 'dropped exactly under other.clock >= entry clock (loop form)', errs[0] if errs else '', line=line, details=det, props=props)
        # kept clock = clock − other.clock
        good = False
        if kind == 'keep':
            # the value put into the surviving collection, on the paths that survive each case in which an our-only entry is kept
            # (other strictly behind it, or concurrent with it): in all of them the clock with other.clock subtracted
            def is_minus(cnd):
                clk = cnd
                for f in sub:
                    clk = proj(clk, f)
                e = cexpr(clk)
                return e[0] == 'minus' and e[2] == leaf_param(2, (r['clock'],)) and e[1][0] == 'leaf' and _entry_clock_match(e[1][1], r, sub, 1)
            resets = [bb for bb, c2 in it.calls.items() if bb in lp.blocks and call_name(c2.term) == 'reset_remove' and len(c2.args) == 2
                      and _entry_clock_match(c2.args[0].val, r, sub, 1) and is_field_of_param(c2.args[1].val, 2, (r['clock'],))]
            verdicts = []
            for o_ in (LT, NONE):
                rc_ = Reach(facts, body, Evaluator(facts, classify=classify, bool_atom=atom, assumption={'theirs_has': False, 'drop': o_}))
                inner_ = lp.inner(rc_)
                for sb in sites:
                    c_ = it.calls.get(sb)
                    if c_ is None or sb not in inner_:
                        continue
                    # either what is stored is a freshly computed `clock − other.clock` ..
                    hit_any, all_ok = False, True
                    for a_ in c_.args[1:]:
                        for a2 in phi_alts(drop_lv(a_.val)):
                            cands = list(a2[1]) if a2[0] == 'tuple' else [a2]
                            for cnd in cands:
                                if is_minus(cnd):
                                    hit_any = True
                                elif _entry_clock_match(drop_lv(cnd) if not sub else drop_lv(proj(cnd, sub[0])), r, sub, 1):
                                    hit_any, all_ok = True, False
                    # .. or the entry's clock is reset in place on every path of this case that reaches the store
                    in_place = bool(resets) and sb not in rc_._reach(lp.start, set(resets) | {lp.head})
                    verdicts.append((hit_any and all_ok) or in_place)
            good = bool(verdicts) and all(verdicts)
        else:
            # drop form (the collection is edited in place): every kept our-only entry passes the reset
            resets = [bb for bb, c2 in it.calls.items() if bb in lp.blocks and call_name(c2.term) == 'reset_remove' and len(c2.args) == 2
                      and _entry_clock_match(c2.args[0].val, r, sub, 1) and is_field_of_param(c2.args[1].val, 2, (r['clock'],))]
            good = bool(resets) and all(lp.must(Reach(facts, body, Evaluator(facts, classify=classify, bool_atom=atom, assumption={'theirs_has': False, 'drop': o_})), resets)
                                        for o_ in (LT, NONE))
        ctx.check(good, name + '/subtract', body, 'kept entry clock = entry clock − other.clock',
                  'the witness clock of a kept entry is not reduced by other.clock: dots other has seen and removed stay as witnesses', line=line, props=props)
        return True
    return False


@rule('MERGE-DROP', {
    'C07': 'the witness clock kept / adopted for a one-sided entry is what reads return as its remove context',
    'C09': 'an entry the other side has seen and removed must be dropped, a stale entry must not be re-adopted (no resurrection)',
    'C04': 'an unseen add must survive the merge (add wins); a seen-and-removed one must not',
    'C05': 'same for Map keys',
    'C03': 'delivering the other side\'s remove op would have removed the entry; delivering its add would have added it',
    'C02': 'both one-sided branches use the same (mirrored) decision, otherwise a+b != b+a',
    'C20': 'the kept witness clock is non-empty because the subtraction happens only when it is not covered',
}, floor=4)
def merge_drop(ctx):
    """our-only entry: dropped exactly when other.clock >= entry clock; their-only entry: adopted exactly when
    NOT self.clock >= entry clock; kept/adopted clocks have the deciding clock subtracted; pre-merge clocks are read."""
    facts = ctx.facts
    for inst, adt, _, _ in TYPES:
        r = roles(facts, adt)
        sub = () if inst == 'orswot' else ('clock',)
        props = ['C09', 'C03', 'C02', 'C20', 'C07'] + (['C04'] if inst == 'orswot' else ['C05'])
        body = ctx.method(adt, 'CvRDT', 'merge')
        it = interp(facts, body)
        # ---------------- ours-only
        name = inst + '/ours-only'
        ours = _ours_closures(facts, it, r)
        if not ours:
            if not _ours_loop_form(ctx, facts, body, it, r, sub, name, props):
                ctx.shape(name, body, 'no filter over self.%s deciding which of our entries survive' % r['entries'], props=props)
        for c, cb, mapping in ours:
            cit = interp(facts, cb)
            ctx.analysed.add(cb.key)

            def S(t, mapping=mapping):
                return subst(t, mapping)

            def atom(t, mapping=mapping):
                return presence_atom(t, 2, r['entries'], 'theirs_has', mapping)
            pre = []

            def classify(a, b, t):
                sa, sb = S(a), S(b)
                for x, y, orient in ((sa, sb, 'fwd'), (sb, sa, 'rev')):
                    px = param_path(x)
                    if px and px[0] == 2 and px[1] == (r['clock'],) and _entry_clock_match(y, r, sub, 1):
                        pre.append(is_field_of_param(x, 2, (r['clock'],)))
                        return ('drop', orient)
                return None
            drop_sites, keep_sites = _ret_sites(cit)
            dbs, kbs = [b for b, _ in drop_sites], [b for b, _ in keep_sites]
            table = {}
            hits = {}
            for has in (False, True):
                for o in PARTIAL:
                    evr = Evaluator(facts, classify=classify, bool_atom=atom, assumption={'theirs_has': has, 'drop': o})
                    rc = Reach(facts, cb, evr)
                    table[(has, o)] = (any(b in rc.reachable for b in dbs), any(b in rc.reachable for b in kbs),
                                       rc.must_pass(dbs) if dbs else False, rc.must_pass(kbs) if kbs else False)
                    for k, v in evr.hits.items():
                        hits.setdefault(k, set()).update(v)
            det = {'table(theirs_has,ord(other.clock,entry clock)) -> (drop may, keep may, drop must, keep must)':
                   {'%s,%s' % k: v for k, v in table.items()}}
            line = cb.line
            if 'theirs_has' not in hits or 'drop' not in hits:
                ctx.fail(name, cb, 'the filter over our entries does not test presence in other.entries and compare other.clock with the entry clock '
                         '(found atoms: %s)' % sorted(hits), line=line, details=det, props=props)
                continue
            errs = []
            for o in (GT, EQ):
                dm, km, dmust, kmust = table[(False, o)]
                if km or not dmust:
                    errs.append('an entry only we have whose clock is covered by other.clock (%s) is kept: other has seen and removed it' % o)
            for o in (LT, NONE):
                dm, km, dmust, kmust = table[(False, o)]
                if dm or not kmust:
                    errs.append('an entry only we have that other has not (fully) seen (%s) is dropped: a concurrent add is lost' % o)
            for o in PARTIAL:
                if table[(True, o)][0]:
                    errs.append('an entry present on both sides is dropped by the one-sided filter')
                    break
            if pre and not all(pre):
                errs.append('the decision reads other.clock after it was modified')
            if errs:
                ctx.fail(name, cb, errs[0], line=line, details=det, props=props)
            else:
                ctx.ok(name, cb, 'dropped exactly under other.clock >= entry clock', line=line, details=det, props=props)
            # kept value: clock' = clock − other.clock, in every case in which the entry is kept (other strictly behind it, or
            # concurrent with it)
            kept, rcs_ = [], []
            for o_ in (LT, NONE):
                evr = Evaluator(facts, classify=classify, bool_atom=atom, assumption={'theirs_has': False, 'drop': o_})
                rc = Reach(facts, cb, evr)
                rcs_.append(rc)
                kept += [alt for b, alt in keep_sites if b in rc.reachable and alt not in kept]
            good = False
            seen = []
            nbad = 0
            nested = []
            for alt in kept:
                v = S(alt)
                if v[0] == 'agg' and v[3]:
                    entry = proj(v[3][0][1], '1')
                    clk = entry
                    for f in sub:
                        clk = proj(clk, f)
                    e = cexpr(clk)
                    seen.append(fmt_c(e))
                    if e[0] == 'minus' and e[2] == leaf_param(2, (r['clock'],)) and e[1][0] == 'leaf' and _entry_clock_match(e[1][1], r, sub, 1):
                        good = True
                    else:
                        nbad += 1
                    if inst == 'map':
                        nested.append(drop_lv(proj(entry, 'val')))
                elif v[0] == 'const':
                    # retain form: the element is updated in place; look for reset_remove(entry clock, other.clock)
                    for b2, c2 in cit.calls.items():
                        if call_name(c2.term) == 'reset_remove' and all(b2 in rc_.reachable and rc_.must_pass([b2]) for rc_ in rcs_):
                            a0, a1 = S(c2.args[0].val), S(c2.args[1].val)
                            if _entry_clock_match(a0, r, sub, 1) and is_field_of_param(a1, 2, (r['clock'],)):
                                good = True
            good = good and not nbad
            if nested:
                def reset_ok(v):
                    return v[0] == 'post' and is_call(v[1], 'reset_remove') and v[2] == 0 and len(v[1][2]) == 2 \
                        and removed_info(cexpr(v[1][2][1]), r, 1, 2)
                ctx.check(all(reset_ok(v) for v in nested), name + '/nested', cb, 'every kept our-only entry carries a nested value reset with other.clock − (entry clock − other.clock)',
                          'an our-only entry can be kept with a nested value that was not reset by what other has seen and removed (%s)'
                          % [fmt(v, 4) for v in nested if not reset_ok(v)][:1], line=line, props=['C05', 'C20', 'C03', 'C09'])
            ctx.check(good, name + '/subtract', cb, 'kept entry clock = entry clock − other.clock',
                      'the witness clock of a kept entry is not reduced by other.clock (found %s): dots other has seen and removed stay as witnesses' % seen,
                      line=line, props=props)
        # ---------------- theirs-only
        name = inst + '/theirs-only'
        ins = []
        for bb, c in sorted(it.calls.items()):
            if call_name(c.term) in ('insert', 'try_insert') and len(c.args) == 3 and c.args[0].is_mut_ref:
                pp = param_path(c.args[0].val)
                if pp and pp[0] == 1 and pp[1] == (r['entries'],):
                    k = versionless(c.args[1].val)
                    e = elem_of(k)
                    if e and param_path(e[0]) and param_path(e[0])[0] == 2 and param_path(e[0])[1] == (r['entries'],):
                        ins.append((bb, c))
        # an insert that only happens when we already hold the entry is the both-sides store (`occupied.insert(common)`), not an adoption
        if ins:
            rc_has = Reach(facts, body, Evaluator(facts, bool_atom=lambda t: presence_atom(t, 1, r['entries'], 'ours_has'), assumption={'ours_has': False}))
            ins = [(b_, c_) for b_, c_ in ins if b_ in rc_has.reachable]
        if not ins:
            ctx.fail(name, body, "entries only the other side has are never adopted (no insert into self.%s keyed by an item of other.%s)"
                     % (r['entries'], r['entries']), props=props)
            continue
        pre = []

        def atom2(t):
            return presence_atom(t, 1, r['entries'], 'ours_has')

        def classify2(a, b, t):
            for x, y, orient in ((a, b, 'fwd'), (b, a, 'rev')):
                px = param_path(x)
                if px and px[0] == 1 and px[1] == (r['clock'],) and _entry_clock_match(y, r, sub, 2):
                    pre.append(is_field_of_param(x, 1, (r['clock'],)))
                    return ('adopt', orient)
            return None
        ibs = [b for b, _ in ins]
        lp = innermost_loop(it, ibs[0])
        start, head = None, None
        if lp:
            head, blocks = lp
            for x in blocks:
                sw = it.switches.get(x)
                if sw and sw.discr[0] == 'discr' and as_item(('field', sw.discr[1], 'Some.0')) is not None:
                    for val, tb in sw.targets:
                        if val == 1:
                            start = tb
        if start is None:
            ctx.shape(name, body, "the adoption of other's entries is not a loop over other.%s" % r['entries'], props=props)
            continue
        table = {}
        hits = {}
        for has in (False, True):
            for o in PARTIAL:
                evr = Evaluator(facts, classify=classify2, bool_atom=atom2, assumption={'ours_has': has, 'adopt': o})
                rc = Reach(facts, body, evr)
                inner = rc._reach(start, {head})
                table[(has, o)] = (any(b in inner for b in ibs), rc.must_pass(ibs, start=start, stops=(head,)))
                for k, v in evr.hits.items():
                    hits.setdefault(k, set()).update(v)
        det = {'table(ours_has,ord(self.clock,entry clock)) -> (insert may, insert must)': {'%s,%s' % k: v for k, v in table.items()}}
        line = block_line(it, ibs[0])
        if 'ours_has' not in hits or 'adopt' not in hits:
            ctx.fail(name, body, 'adoption of their entries does not test presence in self.entries and compare self.clock with the entry clock (atoms: %s)'
                     % sorted(hits), line=line, details=det, props=props)
        else:
            errs = []
            for o in (GT, EQ):
                if table[(False, o)][0]:
                    errs.append('an entry only they have whose clock is covered by self.clock (%s) is adopted: we had seen and removed it (resurrection)' % o)
            for o in (LT, NONE):
                if not table[(False, o)][1]:
                    errs.append('an entry only they have that we have not (fully) seen (%s) is not adopted: their add is lost' % o)
            for o in PARTIAL:
                if table[(True, o)][0]:
                    errs.append('an entry present on both sides is overwritten by the one-sided insert')
                    break
            if pre and not all(pre):
                errs.append('the adoption decision reads self.clock after other.clock was merged into it')
            if errs:
                ctx.fail(name, body, errs[0], line=line, details=det, props=props)
            else:
                ctx.ok(name, body, 'adopted exactly under NOT self.clock >= entry clock (pre-merge clock)', line=line, details=det, props=props)
        # adopted value: clock' = clock − self.clock (pre-merge)
        good = True
        seen = []
        nested = []
        for bb, c in ins:
            v = c.args[2].val
            clk = v
            for f in sub:
                clk = proj(clk, f)
            e = cexpr(clk)
            seen.append(fmt_c(e))
            if not (e[0] == 'minus' and e[2] == leaf_param(1, (r['clock'],)) and e[1][0] == 'leaf' and _entry_clock_match(e[1][1], r, sub, 2)):
                good = False
            if inst == 'map':
                nested.append(drop_lv(proj(v, 'val')))
        if nested:
            def reset_ok2(v):
                return v[0] == 'post' and is_call(v[1], 'reset_remove') and v[2] == 0 and len(v[1][2]) == 2 \
                    and removed_info(cexpr(v[1][2][1]), r, 2, 1)
            ctx.check(all(reset_ok2(v) for v in nested), name + '/nested', body, 'every adopted entry carries a nested value reset with self.clock − (entry clock − self.clock)',
                      'a their-only entry can be adopted with a nested value that was not reset by what we have seen and removed (%s)'
                      % [fmt(v, 4) for v in nested if not reset_ok2(v)][:1], line=line, props=['C05', 'C20', 'C03', 'C09'])
        ctx.check(good, name + '/subtract', body, 'adopted entry clock = entry clock − self.clock (pre-merge)',
                  'the witness clock of an adopted entry is not reduced by the pre-merge self.clock (found %s)' % seen,
                  line=line, props=props)


# ---------------------------------------------------------------- both-present branch

@rule('MERGE-COMMON', {
    'C07': 'the remove context a read hands out for a member / key IS the witness clock merge stores here: a wrongly recomputed witness is a context that is not the element\'s surviving adds',
    'C04': 'each component of the common-dots formula has a two-replica history: without "ours not covered by theirs" a concurrent add is lost',
    'C05': 'same for Map entry clocks',
    'C09': 'with the wrong clock an observed-removed add survives the merge',
    'C03': 'merge must agree with delivering the other side\'s adds and removes',
    'C02': 'the formula is symmetric in self/other; an asymmetric variant gives a+b != b+a',
    'C20': 'an entry whose recomputed witness is empty must be dropped, not kept empty',
}, floor=2)
def merge_common(ctx):
    """Entry on both sides: new witness = (theirs ⊓ ours) ⊔ (theirs − self.clock) ⊔ (ours − other.clock) with pre-merge clocks;
    the entry is removed exactly when that is empty, otherwise it becomes the entry's clock."""
    facts = ctx.facts
    for inst, adt, _, _ in TYPES:
        r = roles(facts, adt)
        sub = () if inst == 'orswot' else ('clock',)
        props = ['C09', 'C03', 'C02', 'C20', 'C07'] + (['C04'] if inst == 'orswot' else ['C05'])
        body = ctx.method(adt, 'CvRDT', 'merge')
        it = interp(facts, body)
        cands = []
        for bb, c in sorted(it.calls.items()):
            if is_call(c.term, 'is_empty', self_adt='VClock') and c.args:
                e = cexpr(c.args[0].val)
                if e[0] == 'join' or e[0] == 'meet':
                    cands.append((bb, c, e))
        if not cands:
            ctx.fail(inst, body, 'no emptiness test on a recomputed witness clock for entries present on both sides', props=props)
            continue
        bb, c, e = cands[0]
        line = block_line(it, bb)
        parts = e[1] if e[0] == 'join' else frozenset([e])
        T = O = None
        ok_meet = ok_t = ok_o = False
        for p in parts:
            if p[0] == 'meet' and len(p[1]) == 2:
                xs = [x for x in p[1]]
                if all(x[0] == 'leaf' for x in xs):
                    sides = {}
                    for x in xs:
                        if _entry_clock_match(x[1], r, sub, 2):
                            sides['T'] = x
                        elif _entry_clock_match(x[1], r, sub, 1):
                            sides['O'] = x
                    if len(sides) == 2:
                        T, O = sides['T'], sides['O']
                        ok_meet = True
        if T is not None:
            for p in parts:
                if p[0] == 'minus' and p[1] == T and p[2] == leaf_param(1, (r['clock'],)):
                    ok_t = True
                if p[0] == 'minus' and p[1] == O and p[2] == leaf_param(2, (r['clock'],)):
                    ok_o = True
        det = {'found': fmt_c(e), 'expected': '(theirs ⊓ ours) ⊔ (theirs − self.clock) ⊔ (ours − other.clock)'}
        extra = len(parts) != 3
        if not (ok_meet and ok_t and ok_o) or extra:
            miss = []
            if not ok_meet:
                miss.append('dots witnessed on both sides (theirs ⊓ ours)')
            if not ok_t:
                miss.append("their dots not covered by the pre-merge self.clock")
            if not ok_o:
                miss.append("our dots not covered by other.clock")
            if extra and not miss:
                miss.append('an additional component')
            ctx.fail(inst + '/formula', body, 'recomputed witness of an entry present on both sides is %s; wrong/missing: %s'
                     % (fmt_c(e), '; '.join(miss)), line=line, details=det, props=props)
        else:
            ctx.ok(inst + '/formula', body, 'witness = (theirs ⊓ ours) ⊔ (theirs − self.clock) ⊔ (ours − other.clock)', line=line, details=det, props=props)
        # remove exactly when empty / assign otherwise
        common_term = drop_lv(c.args[0].val)
        # no shortcut: every iteration that finds the entry on both sides recomputes the witness, and nothing but the
        # recomputed witness is ever written to an entry clock of self inside the loop
        lp0 = innermost_loop(it, bb)
        if lp0:
            from .loops import loops_of as _loops_of
            lctx = [l for l in _loops_of(it) if l.head == lp0[0]]

            def has_atom(t):
                return presence_atom(t, 1, r['entries'], 'ours_has')
            if lctx:
                rch = Reach(facts, body, Evaluator(facts, bool_atom=has_atom, assumption={'ours_has': True}))
                byp = not lctx[0].must(rch, [bb])
                foreign = []
                for (b2, si), w in list(it.writes.items()) + [(k_, w_) for k_, w_ in it.muts.items() if w_.kind == 'replace']:
                    tgt = loc_target(it, w.loc)
                    if b2 in lctx[0].blocks and tgt and tgt[0] == 1 and tgt[1] == (r['entries'],) and tgt[2] == 'ew' and tuple(tgt[3]) == tuple(sub) \
                            and drop_lv(w.val) != common_term:
                        foreign.append(b2)
                if byp or foreign:
                    ctx.fail(inst + '/shortcut', body, 'an entry present on both sides can get a witness clock other than the recomputed one (%s)'
                             % ('a path of the iteration skips the recomputation' if byp else 'line %d writes another clock' % block_line(it, foreign[0])),
                             line=block_line(it, foreign[0]) if foreign else line, props=props)
                else:
                    ctx.ok(inst + '/shortcut', body, 'both-present entries always go through the recomputation', line=line, props=props, nontrivial=False)

        def atom(t):
            if is_call(t, 'is_empty', self_adt='VClock') and t[2] and drop_lv(t[2][0]) == common_term:
                return 'empty'
            return None
        rem, asg = [], []
        for b2, c2 in it.calls.items():
            if call_name(c2.term) in ('remove', 'remove_entry') and len(c2.args) == 2:
                pp = param_path(c2.args[0].val)
                k = elem_of(c2.args[1].val)
                if pp and pp[0] == 1 and pp[1] == (r['entries'],) and k and param_path(k[0]) and param_path(k[0])[0] == 2:
                    rem.append(b2)
        for (b2, si), w in list(it.writes.items()) + [(k_, w_) for k_, w_ in it.muts.items() if w_.kind == 'replace']:
            tgt = loc_target(it, w.loc)
            if tgt and tgt[0] == 1 and tgt[1] == (r['entries'],) and tgt[2] == 'ew' and tuple(tgt[3]) == tuple(sub):
                if drop_lv(w.val) == common_term:
                    asg.append(b2)   # `entry.clock = common` or `mem::replace(&mut entry.clock, common)`
        if not sub:
            # the element IS the clock (Orswot): storing may also be an insert under the same key (`occupied.insert(common)`,
            # `self.entries.insert(member, common)`), which replaces the clock of the entry that is there
            for b2, c2 in it.calls.items():
                if call_name(c2.term) == 'insert' and len(c2.args) == 3 and c2.args[0].is_mut_ref:
                    pp = param_path(versionless(c2.args[0].val))
                    k = elem_of(versionless(c2.args[1].val))
                    if pp and pp[0] == 1 and pp[1] == (r['entries'],) and k and param_path(k[0]) and param_path(k[0])[0] == 2 \
                            and drop_lv(c2.args[2].val) == common_term:
                        asg.append(b2)
        res = {}
        for val in (True, False):
            rc = Reach(facts, body, Evaluator(facts, bool_atom=atom, assumption={'empty': val}))
            after = rc._reach(bb, set())
            lp = innermost_loop(it, bb)
            stops = (lp[0],) if lp else ()
            res[val] = (any(x in after for x in rem), any(x in after for x in asg),
                        rc.must_pass(rem, start=bb, stops=stops) if rem else False,
                        rc.must_pass(asg, start=bb, stops=stops) if asg else False)
        det2 = {'(remove may, assign may, remove must, assign must)': {str(k): v for k, v in res.items()}}
        if not rem or not res[True][2]:
            ctx.fail(inst + '/prune', body, 'an entry whose recomputed witness is empty is not removed', line=line, details=det2, props=props)
        elif res[False][0]:
            ctx.fail(inst + '/prune', body, 'an entry with surviving witnesses can be removed', line=line, details=det2, props=props)
        elif not asg or not res[False][3]:
            ctx.fail(inst + '/prune', body, 'the recomputed witness is not stored as the entry clock when it is non-empty', line=line, details=det2, props=props)
        else:
            ctx.ok(inst + '/prune', body, 'entry removed exactly when the recomputed witness is empty, else it becomes the entry clock',
                   line=line, details=det2, props=props)


# ---------------------------------------------------------------- Map: nested value follows the entry clock

@rule('MAP-RESET-PAIR', {
    'C20': 'nested data one side removed must not come back from the other side\'s stale entry (no residue of removed data)',
    'C05': 'when an entry survives with a reduced clock, what the other side removed under that key must be reset in the nested value',
    'C03': 'op delivery of the key remove would have reset the nested value',
    'C09': 'nested data removed under a key must not come back when a stale copy of the entry is merged in',
    'C02': 'merge of nested maps is a join only if both orders reset the nested value with the same clock: a+b and b+a must read alike',
}, floor=3)
def map_reset_pair(ctx):
    """Map::merge: in each of the three branches that keep an entry with a reduced clock, the nested value is
    reset with a clock derived from the other side's clock (and merged with the other side's value when both have it)."""
    facts = ctx.facts
    r = roles(facts, MAP)
    body = ctx.method(MAP, 'CvRDT', 'merge')
    it = interp(facts, body)
    # ours-only (closure)
    for c, cb, mapping in _ours_closures(facts, it, r):
        cit = interp(facts, cb)
        ok = False
        why = 'our-only entry kept with a reduced clock but its nested value is not reset by what other has seen'
        # state captured by reference and written by the closure lives across items: never a fresh per-entry scratch
        carried = set(w.loc[0][1][1] for w in list(cit.muts.values()) + list(cit.writes.values())
                      if w.loc[0][0] == 'O' and w.loc[0][1][0] == 'upvar')
        for bb, c2 in cit.calls.items():
            if call_name(c2.term) == 'reset_remove' and len(c2.args) == 2:
                a0 = subst(c2.args[0].val, mapping)
                ev = elem_value_of(a0)
                if ev and tuple(ev[3]) == ('val',) and param_path(ev[0]) and param_path(ev[0])[0] == 1:
                    e = cexpr(subst(c2.args[1].val, mapping))
                    used = set(st[1] for st in subterms(c2.args[1].val) if st[0] == 'upvar')
                    if used & carried:
                        why = 'the clock the nested value is reset with is built in a variable shared by all entries (captured and ' \
                              'modified by the closure): after the first entry it no longer starts from other.clock'
                    elif removed_info(e, r, 1, 2):
                        ok = True
                    else:
                        why = 'our-only entry: nested value reset with %s, expected other.clock − (entry clock − other.clock)' % fmt_c(e)
        ctx.check(ok, 'merge/ours-only', cb, 'nested value reset with other.clock − (entry clock − other.clock)', why, line=cb.line)
    if not _ours_closures(facts, it, r):
        # loop form of the our-only branch
        ok = False
        ln = body.line
        for bb, c2 in sorted(it.calls.items()):
            if call_name(c2.term) == 'reset_remove' and len(c2.args) == 2:
                ev = elem_value_of(c2.args[0].val)
                if ev and tuple(ev[3]) == ('val',) and ev[1] == '*' and param_path(ev[0]) == (1, (r['entries'],)):
                    if removed_info(cexpr(c2.args[1].val), r, 1, 2):
                        ok, ln = True, c2.line
        ctx.check(ok, 'merge/ours-only', body, 'nested value reset with a clock derived from other.clock (loop form)',
                  'our-only entry kept with a reduced clock but its nested value is not reset by what other has seen', line=ln)
    # theirs-only and both-present (main body)
    seen_t = seen_b = merged = False
    both_site = merge_site = None
    both_msg = theirs_msg = None
    lt = lb = body.line
    for bb, c2 in sorted(it.calls.items()):
        n = call_name(c2.term)
        if n == 'reset_remove' and len(c2.args) == 2:
            ev = elem_value_of(c2.args[0].val)
            if not ev or tuple(ev[3]) != ('val',):
                continue
            pp = param_path(ev[0])
            leaves = cleaves(cexpr(c2.args[1].val))
            if pp and pp[0] == 2 and pp[1] == (r['entries'],):
                e = cexpr(c2.args[1].val)
                lt = c2.line
                if removed_info(e, r, 2, 1):
                    seen_t = True
                else:
                    theirs_msg = 'their-only entry: nested value reset with %s, expected self.clock − (entry clock − self.clock)' % fmt_c(e)
            if pp and pp[0] == 1 and pp[1] == (r['entries'],):
                # deleted dots = (dots known to either side for this key) − (surviving witness): the minuend must
                # draw on BOTH sides (entry clocks or replica clocks), otherwise resets observed by one side are lost
                e = cexpr(c2.args[1].val)
                minuend = cleaves(e[1]) if e[0] == 'minus' else leaves
                def side_of(l):
                    if _entry_clock_match(l, r, ('clock',), 2) or is_field_of_param(l, 2, (r['clock'],)):
                        return 2
                    if _entry_clock_match(l, r, ('clock',), 1) or is_field_of_param(l, 1, (r['clock'],)):
                        return 1
                    return None
                sides = set(side_of(l) for l in minuend) - {None}
                lb = c2.line
                # the reset must act on the value that already contains their side: merge first, then reset
                tv = c2.args[0].val
                while tv[0] in ('lv', 'at'):
                    tv = tv[3] if tv[0] == 'lv' else tv[2]
                after_merge = tv[0] == 'post' and tv[2] == 0 and is_call(tv[1], 'merge') and len(tv[1][2]) == 2 \
                    and elem_value_of(tv[1][2][1]) is not None and param_path(elem_value_of(tv[1][2][1])[0]) \
                    and param_path(elem_value_of(tv[1][2][1])[0])[0] == 2
                # exact form: (their entry clock ⊔ our entry clock [⊔ replica clocks]) − (the recomputed witness): the joined
                # clocks must be the unmodified ones (a clock trimmed in place beforehand no longer names what was deleted)
                # and what is subtracted must be the very witness the entry keeps
                witness = None
                for _bb, _c in sorted(it.calls.items()):
                    if is_call(_c.term, 'is_empty', self_adt='VClock') and _c.args and cexpr(_c.args[0].val)[0] in ('join', 'meet'):
                        witness = cexpr(_c.args[0].val)
                        break
                pure = e[0] == 'minus' and (e[1][0] == 'leaf' or (e[1][0] == 'join' and all(x[0] == 'leaf' for x in e[1][1])))
                if sides == {1, 2} and not pure:
                    both_msg = 'the dots deleted from an entry present on both sides are computed as %s: the minuend must join the ' \
                               'untrimmed entry clocks of both sides' % fmt_c(e)
                elif sides == {1, 2} and (witness is None or e[2] != witness):
                    both_msg = 'the dots deleted from an entry present on both sides are computed as %s: what is subtracted is not the ' \
                               'recomputed witness %s the entry keeps' % (fmt_c(e), fmt_c(witness) if witness else '?')
                elif sides == {1, 2} and not after_merge:
                    both_msg = 'the nested value of an entry present on both sides is reset before their value is merged into it: what the reset was meant to delete comes back with the merge'
                elif sides == {1, 2}:
                    seen_b = True
                    both_site = bb
                else:
                    both_msg = 'the dots deleted from an entry present on both sides are computed from %s only (side %s): what the other side had under this key and we removed is not reset' % (fmt_c(e[1]) if e[0] == 'minus' else fmt_c(e), sorted(sides))
        if n == 'merge' and len(c2.args) == 2 and (cinfo(c2.cid)['trait'] or '').endswith('CvRDT'):
            e0, e1 = elem_value_of(c2.args[0].val), elem_value_of(c2.args[1].val)
            if e0 and e1 and tuple(e0[3]) == ('val',) and tuple(e1[3]) == ('val',):
                if param_path(e0[0]) and param_path(e0[0])[0] == 1 and param_path(e1[0]) and param_path(e1[0])[0] == 2:
                    merged = True
                    merge_site = bb
    if seen_b and merged and both_site is not None:
        # .. on every path of the case they are for: the key is on both sides and the recomputed witness is not empty
        def atom_b(t):
            a_ = presence_atom(t, 1, r['entries'], 'ours_has')
            if a_ is not None:
                return a_
            if is_call(t, 'is_empty', self_adt='VClock') and t[2] and cexpr(t[2][0])[0] in ('join', 'meet'):
                return 'gone'
            return None
        fr_b = iteration_frame(it, both_site)
        rc_b = Reach(facts, body, Evaluator(facts, bool_atom=atom_b, assumption={'ours_has': True, 'gone': False}))
        for site_, what_ in ((merge_site, 'merged'), (both_site, 'reset')):
            ok_ = rc_b.must_pass([site_], start=fr_b[0], stops=(fr_b[1],)) if fr_b else rc_b.must_pass([site_])
            if not ok_:
                seen_b = False
                both_msg = 'an entry present on both sides whose witness survives can skip having its nested value %s (a path of that case avoids it)' % what_
    ctx.check(seen_t, 'merge/theirs-only', body, 'adopted nested value reset with a clock derived from the pre-merge self.clock',
              theirs_msg or 'their-only entry adopted with a reduced clock but its nested value is not reset by what we have seen and removed', line=lt)
    ctx.check(seen_b and merged, 'merge/both', body, 'nested values merged, then reset by the dots that left the entry clock',
              both_msg or 'entry on both sides: nested values are not merged and reset by the deleted dots (merged=%s, reset=%s)' % (merged, seen_b), line=lb)
