"""A.11 — the small accessors everything else stands on: VClock::get / is_empty / iter / dot / into_iter / from_iter,
plain reads of the simple registers and sets, List reads, the content hash of a MerkleReg node.

The other rules treat `VClock::get`, `VClock::is_empty`, `Node::hash`, .. as primitives with their documented meaning
(common.PRIMITIVES); these rules are what discharges that assumption on the current tree."""
from ..core import rule
from ..terms import drop_lv
from ..ordset import cmp_parts
from .common import *
from .loops import loops_of, accumulates, item_derived, peel


def _opt_default(t):
    """`X.unwrap_or(d)` / `X.cloned().unwrap_or(d)` / `X.unwrap_or_default()` / `X.map_or(d, |c| *c)` /
    `match X { Some(c) => *c, None => d }`  ->  (X, d) where d is a term (('const', 0, ..) for the default of u64)."""
    t = drop_lv(t)
    if is_call(t, 'unwrap_or') and len(t[2]) == 2:
        return t[2][0], t[2][1]
    if is_call(t, 'unwrap_or_default') and len(t[2]) == 1:
        return t[2][0], ('const', 0, 'u64')
    if is_call(t, 'map_or') and len(t[2]) == 3 and t[2][2][0] == 'closure':
        return t[2][0], t[2][1]
    if t[0] == 'phi' and len(t[1]) == 2:
        alts = list(t[1])
        for a, b in ((alts[0], alts[1]), (alts[1], alts[0])):
            if a[0] == 'const' and elem_of(b) is not None:
                return b, a
    return None


@rule('VC-ACCESS', floor=7, **read_attribution({
    'C10': 'missing actors count as 0; merge/lub and from_iter go through into_iter/apply; dot(actor) pairs the actor with its own counter',
    'C20': 'every "drop the element when its witness clock is empty" decision calls VClock::is_empty; clocks built by from_iter / From<Dot> must be the canonical ones apply builds (no zero entries), or equal knowledge stops meaning equal clocks',
    'C11': 'GCounter::read sums the dots that VClock::iter yields; inc derives the next total from dot(actor); merge walks into_iter',
    'C12': '[primitive] List::apply gates on clock.get(actor); insert_index / append / delete_index tag their ops with clock.inc = dot(actor).inc()',
    'C16': '[primitive] VClock::validate_op compares the dot with get(actor) (VC-VALIDATE)',
    'C17': '[primitive] Orswot / Map validate_merge compare witness counters with the other clock through get / iter',
}, module='vclock', own_filter={'C20': lambda i: i in ('is_empty', 'from_iter', 'from-dot', 'get', 'iter', 'into_iter', 'floor', 'anchor', 'internal'),
                                'C11': lambda i: i in ('iter', 'get', 'dot', 'into_iter', 'floor', 'anchor', 'internal'),
                                'C12': lambda i: i in ('get', 'dot', 'floor', 'anchor', 'internal'),
                                'C16': lambda i: i in ('get', 'floor', 'anchor', 'internal'),
                                'C17': lambda i: i in ('get', 'iter', 'is_empty', 'floor', 'anchor', 'internal')}))
def vc_access(ctx):
    """VClock::get = stored counter or 0; is_empty = no entry; dot(a) = Dot{a, get(a)}; iter / into_iter yield every
    entry as Dot{actor, counter}; from_iter / From<Dot> apply every given dot to an empty clock."""
    facts = ctx.facts
    from ..ordset import Reach, Evaluator
    # get
    body = ctx.inherent(VCLOCK, 'get')
    r = interp(facts, body).ret
    od = _opt_default(r)
    ok = False
    if od is not None:
        x, d = od
        e = elem_of(x)
        ok = bool(e and param_path(e[0]) == (1, ('dots',)) and versionless(e[1]) == ('param', 2) and e[2] == 'value'
                  and drop_lv(d)[0] == 'const' and drop_lv(d)[1] == 0)
        if ok and drop_lv(r)[0] == 'phi':
            # two-armed form: the constant arm must be the absent case and nothing else (a constant answered on some other
            # condition - a "fast path" - is a wrong counter for a present actor)
            it_ = interp(facts, body)
            empt_ = emptiness_atom({'c': (1, ('dots',))})
            rc_ = Reach(facts, body, Evaluator(facts, bool_atom=lambda t: clock_presence_atom(t, 1) or empt_(t), assumption={'present': True, 'c': False}))
            for (b_, _si), w_ in it_.ret_assigns.items():
                if b_ in rc_.reachable and any(drop_lv(a_)[0] == 'const' for a_ in phi_alts(w_.val)):
                    ok = False
    ctx.check(ok, 'get', body, 'stored counter of the actor, 0 when absent', 'VClock::get is %s, expected dots.get(actor) or 0' % fmt(r, 5))
    # is_empty
    body = ctx.inherent(VCLOCK, 'is_empty')
    r = drop_lv(interp(facts, body).ret)
    ok = (is_call(r, 'is_empty') and len(r[2]) == 1 and param_path(r[2][0]) == (1, ('dots',))) or \
        (r[0] == 'binop' and r[1] == 'Eq' and any(is_call(x, 'len') and param_path(x[2][0]) == (1, ('dots',)) for x in (r[2], r[3]))
         and any(x[0] == 'const' and x[1] == 0 for x in (r[2], r[3])))
    ctx.check(ok, 'is_empty', body, 'true exactly when dots has no entry', 'VClock::is_empty is %s, expected dots.is_empty()' % fmt(r, 5))
    # dot
    body = ctx.inherent(VCLOCK, 'dot')
    r = interp(facts, body).ret
    dp = dot_parts(facts, r)
    ok = False
    if dp:
        a, c = versionless(dp[0]), drop_lv(dp[1])
        cg = clock_get_of(c)
        ok = a == ('param', 2) and cg is not None and versionless(cg[0]) == ('param', 1) and versionless(cg[1]) == ('param', 2)
    ctx.check(ok, 'dot', body, 'Dot{actor, get(actor)}', 'VClock::dot is %s, expected Dot{actor, self.get(actor)}' % fmt(normal(facts, r), 5))

    # iter / IntoIter::next: every entry becomes Dot{actor: key, counter: value}
    def entry_to_dot(clo_term, item):
        cb = facts.cb(clo_term[1])
        if cb is None:
            return False
        cr = interp(facts, cb).ret
        dp_ = dot_parts(facts, cr)
        if not dp_:
            return False
        a, c = versionless(dp_[0]), versionless(dp_[1])
        return a == ('field', ('param', 2), '0') and c == ('field', ('param', 2), '1')
    body = ctx.inherent(VCLOCK, 'iter')
    r = drop_lv(interp(facts, body).ret)
    ok = False
    if is_call(r, 'map') and len(r[2]) == 2 and r[2][1][0] == 'closure':
        base, kind, clo = iter_source(r[2][0])
        ok = param_path(base) == (1, ('dots',)) and kind == 'items' and not clo and not (set(iter_adaptors(r[2][0])) & LOSSY_ADAPTORS) \
            and entry_to_dot(r[2][1], None)
    ctx.check(ok, 'iter', body, 'every entry of dots as Dot{actor, counter}', 'VClock::iter is %s, expected every (actor, counter) of dots as a Dot' % fmt(r, 5))
    body = ctx.method(VCLOCK, 'IntoIterator', 'into_iter')
    r = drop_lv(interp(facts, body).ret)
    ok = r[0] == 'agg' and len(r[3]) == 1 and param_path(iter_source(r[3][0][1])[0]) == (1, ('dots',)) \
        and not (set(iter_adaptors(r[3][0][1])) & LOSSY_ADAPTORS) and not iter_source(r[3][0][1])[2]
    fld = r[3][0][0] if ok else None
    nb = facts.trait_impl_method('crdts::vclock::IntoIter', 'Iterator', 'next')
    ok2 = False
    if nb is not None and ok:
        ctx.analysed.add(nb.key)
        nr = drop_lv(interp(facts, nb).ret)
        if is_call(nr, 'map') and len(nr[2]) == 2 and nr[2][1][0] == 'closure' and is_call(drop_lv(nr[2][0]), 'next'):
            src = drop_lv(nr[2][0])[2][0]
            ok2 = param_path(versionless(src)) == (1, (fld,)) and entry_to_dot(nr[2][1], None)
        if not ok2:
            # spelled with `?` / match: every `Some(..)` it can return is Dot{actor: e.0, counter: e.1} of the entry e that the
            # inner iterator just yielded; the other alternatives are `None`
            nn = normal(facts, interp(facts, nb).ret)
            somes = [x for x in phi_alts(nn) if x[0] == 'agg' and x[2] == 'Some']
            rest = [x for x in phi_alts(nn) if not (x[0] == 'agg' and x[2] in ('Some', 'None')) and not is_call(x, 'from_residual')]
            good = bool(somes) and not rest
            for x in somes:
                dp_ = dot_parts(facts, x[3][0][1])
                if not dp_:
                    good = False
                    continue
                a, c = versionless(dp_[0]), versionless(dp_[1])
                if not (a[0] == 'field' and c[0] == 'field' and a[2] == '0' and c[2] == '1' and a[1] == c[1]):
                    good = False
                    continue
                nx = [st for st in subterms(a[1]) if is_call(st, 'next') and st[2] and param_path(versionless(st[2][0])) == (1, (fld,))]
                if not nx:
                    good = False
            # .. and `None` only where the inner iterator is exhausted (an early `None` ends the walk before every dot was yielded)
            ok2 = good and _literal_only_when_absent(facts, nb, fld)
    ctx.check(ok and ok2, 'into_iter', body, 'consumes dots, every entry as Dot{actor, counter}',
              'VClock::into_iter / IntoIter::next do not yield every entry of dots as Dot{actor, counter}')
    # from_iter: apply every dot to an empty clock
    body = ctx.method(VCLOCK, 'FromIterator', 'from_iter')
    it = interp(facts, body)

    def init_ok(i):
        return i[0] == 'call' and call_name(i) in ('default', 'new') and not i[2]

    def src_ok(lp):
        return param_path(lp.source()[0]) == (1, ()) and not lp.source()[2] and not (set(iter_adaptors(lp.src)) & LOSSY_ADAPTORS)

    def step_ok(c, lp):
        return is_call(c.term, 'apply', self_adt='VClock') and len(c.args) == 2 and versionless(c.args[1].val)[0] == 'field' \
            and versionless(c.args[1].val)[2] == 'Some.0' and item_derived(c.args[1].val, lp)
    def fold_form(r, base_ok):
        """`src.fold(VClock::default(), |mut c, d| { c.apply(d); c })` over a source whose base term satisfies base_ok"""
        ok_ = False
        if is_call(r, 'fold') and len(r[2]) == 3 and init_ok(drop_lv(r[2][1])) and base_ok(iter_source(r[2][0])[0]) \
                and not iter_source(r[2][0])[2] and not (set(iter_adaptors(r[2][0])) & LOSSY_ADAPTORS):
            for clo, m in closure_bindings(r):
                cb = facts.cb(clo[1])
                cr = drop_lv(subst(interp(facts, cb).ret, m)) if cb is not None else None
                ok_ = bool(cr is not None and cr[0] == 'post' and is_call(cr[1], 'apply', self_adt='VClock') and cr[1][2][0][0] == 'acc'
                           and cr[1][2][1][0] == 'item')
        return ok_
    ok = accumulates(facts, body, it.ret, init_ok, src_ok, step_ok)
    if not ok:
        # fold form (or the 's' view of it)
        ok = fold_form(drop_lv(it.ret), lambda b_: param_path(b_) == (1, ()))
    if not ok:
        # apply written out in the loop (or a shared private step inlined): every given dot stored into a clock that starts empty
        from .vclock import inline_apply_sites
        from .loops import loop_of_block
        from ..ordset import Reach, Evaluator
        for site in inline_apply_sites(facts, body, it, local_clock=True):
            lp = loop_of_block(it, site['bb'])
            src = as_item(site['gate']['dot'])
            if site['errs'] or lp is None or lp.early_exits() or src is None or site['frame'] is None:
                continue
            if param_path(iter_source(src)[0]) == (1, ()) and not iter_source(src)[2] and not (set(iter_adaptors(src)) & LOSSY_ADAPTORS) \
                    and Reach(facts, body, Evaluator(facts)).must_pass([site['frame'][1]]):
                rr = drop_lv(it.ret)
                ok = rr[0] in ('obj', 'call', 'post') and any(st == drop_lv(site['call'].term) or st[0] == 'call' and call_name(st) in ('default', 'new')
                                                              for st in subterms(rr))
    ctx.check(ok, 'from_iter', body, 'every dot of the iterator applied to an empty clock',
              'VClock::from_iter does not apply every given dot to an empty clock')
    fb = None
    for b in facts.bodies:
        if b.impl_self == VCLOCK and (b.impl_trait or '').endswith('convert::From') and b.name == 'from':
            fb = facts._v(b)
    if fb is None:
        ctx.shape('from-dot', None, 'From<Dot> for VClock not found')
    else:
        ctx.analysed.add(fb.key)
        r = drop_lv(interp(facts, fb).ret)
        ok = r[0] == 'post' and is_call(r[1], 'apply', self_adt='VClock') and len(r[1][2]) == 2 and init_ok(drop_lv(r[1][2][0])) \
            and versionless(r[1][2][1]) == ('param', 1)
        if not ok:
            # built directly: exactly the dot, when its counter is not 0 (VC-NOZERO decides the guard)
            ins = [c for c in interp(facts, fb).calls.values() if call_name(c.term) == 'insert' and len(c.args) == 3
                   and versionless(c.args[1].val) == ('field', ('param', 1), 'actor') and versionless(c.args[2].val) == ('field', ('param', 1), 'counter')]
            ok = len(ins) == 1 and r[0] == 'agg' and r[1] == VCLOCK
            if not ok and len(ins) == 1 and r[0] in ('obj', 'post', 'agg'):
                # `let mut c = VClock::default(); if dot.counter > 0 { c.dots.insert(dot.actor, dot.counter); } c`: the one store
                # happens whenever the counter is not 0, into a clock that starts empty
                def zc(a, b, t):
                    for x, y, orient in ((a, b, 'fwd'), (b, a, 'rev')):
                        if versionless(x)[0] == 'const' and versionless(x)[1] == 0 and versionless(y) == ('field', ('param', 1), 'counter'):
                            return ('zc', orient)
                    return None
                c_ = ins[0]
                bb_ = [b for b, x in interp(facts, fb).calls.items() if x is c_][0]
                rc_ = Reach(facts, fb, Evaluator(facts, classify=zc, assumption={'zc': LT}))
                from .vclock import _fresh_clock
                base_ = c_.args[0].val
                ok = rc_.must_pass([bb_]) and c_.args[0].loc is not None and c_.args[0].loc[0][0] == 'L' \
                    and _fresh_clock(base_[1] if base_[0] == 'field' else base_)
        if not ok:
            from .vclock import inline_apply_sites
            sites_ = [x for x in inline_apply_sites(facts, fb, interp(facts, fb), local_clock=True) if not x['errs'] and x['frame'] is None]
            ok = len(sites_) == 1 and versionless(sites_[0]['gate']['dot']) == ('param', 1) and r[0] == 'obj' and len(sites_[0]['res']) == 3
        if not ok:
            # `iter::once(dot).collect()` seen through from_iter: the fold form over exactly the one given dot
            ok = fold_form(r, lambda b_: is_call(drop_lv(b_), 'once') and len(drop_lv(b_)[2]) == 1 and versionless(drop_lv(b_)[2][0]) == ('param', 1))
        ctx.check(ok, 'from-dot', fb, 'the clock holding exactly the given dot', 'VClock::from(dot) is %s, expected an empty clock with the dot applied' % fmt(r, 5))


@rule('READ-PLAIN', floor=7, **read_attribution({
    'C11': 'MaxReg/MinReg read the retained extreme, GSet reads the union it accumulated; a write op carries the value itself',
}, module=None))
def read_plain(ctx):
    """MaxReg/MinReg::read return self.val and ::write(v) is v; GSet::read returns self.value, contains(x) asks self.value,
    insert(x) inserts x."""
    facts = ctx.facts
    for adt in (MAXREG, MINREG):
        short = adt.split('::')[-1]
        body = ctx.inherent(adt, 'read')
        r = versionless(interp(facts, body).ret)
        ctx.check(r == ('field', ('param', 1), 'val'), short + '::read', body, 'returns val', '%s::read returns %s, expected self.val' % (short, fmt(r, 4)))
        body = ctx.inherent(adt, 'write')
        r = versionless(interp(facts, body).ret)
        ctx.check(r == ('param', 2), short + '::write', body, 'the op is the value', '%s::write returns %s, expected the given value' % (short, fmt(r, 4)))
    body = ctx.inherent(GSET, 'read')
    r = versionless(general_ret(facts, body, {'value': (1, ('value',))}) or interp(facts, body).ret)     # `if empty { fresh empty set }`
    ok = r == ('field', ('param', 1), 'value')
    if not ok:
        # a copy built element by element (collect, or a loop filling a fresh set): every element of value, none dropped or transformed
        from .loops import collect_source
        cs = collect_source(facts, body, interp(facts, body), interp(facts, body).ret)
        if cs is not None:
            base, kind, clo = iter_source(cs)
            ok = param_path(base) == (1, ('value',)) and not clo and not (set(iter_adaptors(cs)) & LOSSY_ADAPTORS)
    ctx.check(ok, 'GSet::read', body, 'returns value', 'GSet::read returns %s, expected self.value' % fmt(r, 4))
    body = ctx.inherent(GSET, 'contains')
    r = drop_lv(interp(facts, body).ret)
    ok = is_call(r, 'contains') and len(r[2]) == 2 and param_path(r[2][0]) == (1, ('value',)) and versionless(r[2][1]) == ('param', 2)
    ctx.check(ok, 'GSet::contains', body, 'membership in value', 'GSet::contains is %s, expected self.value.contains(element)' % fmt(r, 4))
    body = ctx.inherent(GSET, 'insert')
    it = interp(facts, body)
    rc = Reach(facts, body, Evaluator(facts))
    good = [bb for bb, c in it.calls.items() if call_name(c.term) == 'insert' and len(c.args) == 2 and param_path(c.args[0].val) == (1, ('value',))
            and versionless(c.args[1].val) == ('param', 2)]
    ctx.check(bool(good) and rc.must_pass(good), 'GSet::insert', body, 'element inserted into value', 'GSet::insert does not insert the element into self.value on every path')


@rule('LIST-READ', floor=6, **read_attribution({
    'C12': 'every replica shows the elements in the one order of their identifiers: reads walk the whole identifier-ordered map',
}, module=None, default='list'))
def list_read(ctx):
    """List::read / read_into / iter / iter_entries range over all of self.seq in map (identifier) order."""
    facts = ctx.facts
    for name, kind in (('read', 'values'), ('read_into', 'values'), ('iter', 'values'), ('iter_entries', 'items')):
        body = ctx.inherent(LIST, name)
        r = drop_lv(interp(facts, body).ret)
        src = r[2][0] if is_call(r, 'collect') and r[2] else r
        if not (is_call(r, 'collect') and r[2]):
            from .loops import collect_source
            cs = collect_source(facts, body, interp(facts, body), interp(facts, body).ret)
            src = cs if cs is not None else src
        base, k, clo = iter_source(src)
        rev = set(iter_adaptors(src)) & {'rev'}
        ok = param_path(base) == (1, ('seq',)) and k == kind and not clo and not (set(iter_adaptors(src)) & LOSSY_ADAPTORS) and not rev
        ctx.check(ok, name, body, 'all of seq in identifier order', 'List::%s is %s, expected every %s of self.seq in map order' % (name, fmt(r, 5), kind))
    # "map order" is the identifier order only in an ordered container keyed by the identifier
    for adt, fld, want in ((LIST, 'seq', 'BTreeMap'), (GLIST, 'list', 'BTreeSet')):
        a = ctx.adt(adt)
        ty = [f['ty'] for f in a['variants'][0]['fields'] if f['name'] == fld]
        ok = bool(ty) and (ty[0].get('path') or '').endswith(want) and ty[0].get('args') and 'Identifier' in (ty[0]['args'][0].get('s') or '')
        ctx.check(ok, '%s.%s' % (adt.split('::')[-1], fld), None, 'ordered container keyed by Identifier',
                  '%s.%s is %s, expected an ordered %s keyed by Identifier (reads rely on its iteration order being the identifier order)'
                  % (adt, fld, ty[0].get('s') if ty else 'missing', want), fnkey=adt)


@rule('MK-HASH', {
    'C15': 'a node is identified by the hash of its children and its value: two different nodes must not share an identity, or the DAG is not a function of the node set',
}, floor=2)
def mk_hash(ctx):
    """Node::hash feeds every child hash and the value into the hasher and returns the finalised digest."""
    facts = ctx.facts
    body = facts.body('crdts::merkle_reg::Node::hash')
    if body is None:
        ctx.shape('hash', None, 'merkle_reg::Node::hash not found')
        return
    body = facts._v(body)
    ctx.analysed.add(body.key)
    it = interp(facts, body)
    rc = Reach(facts, body, Evaluator(facts))
    errs = []
    # children
    child_ok = False
    for bb, c in it.calls.items():
        if call_name(c.term) == 'for_each' and len(c.args) == 2:
            base, kind, clo = iter_source(c.args[0].val)
            if param_path(base) == (1, ('children',)) and not clo and not (set(iter_adaptors(c.args[0].val)) & LOSSY_ADAPTORS):
                for cl, m in closure_bindings(c.term):
                    cb = facts.cb(cl[1])
                    if cb is None:
                        continue
                    cit = interp(facts, cb)
                    for c2 in cit.calls.values():
                        if call_name(c2.term) == 'update' and len(c2.args) == 2 and versionless(subst(c2.args[1].val, m))[0] == 'item':
                            child_ok = rc.must_pass([bb])
    for lp in loops_of(it):
        if lp.whole_over(1, ('children',)) and not lp.early_exits():
            sites = [bb for bb in lp.blocks if bb in it.calls and call_name(it.calls[bb].term) == 'update'
                     and any(item_derived(a.val, lp) for a in it.calls[bb].args[1:])]
            if sites and lp.must(rc, sites) and lp.always_entered(rc):
                child_ok = True
    if not child_ok:
        errs.append('not every child hash is fed into the digest')
    val = [bb for bb, c in it.calls.items() if call_name(c.term) in ('hash', 'update') and c.args
           and any(param_path(versionless(a.val)) == (1, ('value',)) for a in c.args)]
    if not val or not rc.must_pass(val):
        errs.append('the value is not fed into the digest on every path')
    fin = [bb for bb, c in it.calls.items() if call_name(c.term) == 'finalize']
    if not fin or not rc.must_pass(fin):
        errs.append('the digest is not finalised')
    ctx.check(not errs, 'hash', body, 'digest over every child and the value', errs[0] if errs else '')
    # the blanket Sha3Hash impl for byte-like values: the digest is updated with the value's own bytes
    bl = [b for b in facts.bodies if b.impl_trait and b.impl_trait.endswith('merkle_reg::Sha3Hash') and b.name == 'hash' and not b.derived]
    if not bl:
        ctx.shape('blanket', None, 'no Sha3Hash impl found')
    for b0 in bl:
        b = facts._v(b0)
        ctx.analysed.add(b.key)
        bit = interp(facts, b)
        brc = Reach(facts, b, Evaluator(facts))
        ups = [bb for bb, c in bit.calls.items() if call_name(c.term) == 'update' and len(c.args) == 2
               and param_path(versionless(c.args[0].val)) == (2, ())
               and any(param_path(versionless(st)) == (1, ()) for st in subterms(drop_lv(c.args[1].val)))]
        ctx.check(bool(ups) and brc.must_pass(ups), 'blanket/' + (b0.impl_self or 'T').replace('crdts::', ''), b, 'hasher.update(bytes of self) on every path',
                  'the Sha3Hash impl does not feed the bytes of the value into the hasher on every path: different values get the same '
                  'node hash')


def _is_empty_ctor(t, depth=0, facts=None):
    """t is an empty / default value: Default::default(), T::new(), an empty collection constructor, 0 / false, or an
    aggregate of such (through crate-local `new`/`default` helpers)."""
    t = drop_lv(t)
    if t[0] == 'const':
        return t[1] in (0, False, '()') or t[2] in ('()',) or str(t[1]).startswith('PhantomData') or 'PhantomData' in str(t[2])
    if t[0] == 'agg':
        return all(_is_empty_ctor(v, depth + 1, facts) for _, v in t[3])
    if t[0] == 'call' and call_name(t) in ('default', 'new', 'with_hasher') and not t[2]:
        info = cinfo(t[1])
        if info['local'] and facts is not None and depth < 4:
            from ..ordset import local_summary
            sm = local_summary(facts, t)
            if sm is not None and sm != t:
                return _is_empty_ctor(sm, depth + 1, facts)
        return True
    return False


@rule('TYPE-IMPLS', dict({
    'C20': 'replicas with the same content compare equal only if equality looks at every field; keys of hash tables (clocks, dots) need Hash to agree with Eq',
    'C19': 'round-trip equality is judged by the same PartialEq impls',
    'C02': 'the merge laws are stated up to ==',
}, **{p_: TYPE_PROP_WHY for ps_ in TYPE_PROPS.values() for p_ in ps_ if p_ not in ('C20', 'C19', 'C02')}), floor=80,
    inst_filter={p_: (lambda i, p_=p_: p_ in type_props(i) or i in ('floor', 'anchor', 'internal') or (p_ == 'C12' and i.startswith('dot::') and '/from' in i))
                 for ps_ in TYPE_PROPS.values() for p_ in ps_})
def type_impls(ctx):
    """Hand-written PartialEq / Hash / Default / Clone impls of the crate's state, op and clock types behave like the derived
    ones: eq compares every field (true iff all are equal), hash feeds every field eq compares, default builds the empty
    value, clone copies every field.  (Impls with their own rule are skipped: MVReg::eq is MV-EQ; the orderings are
    DOT-PCMP, ID-CMP, ID-PCMP, VC-PCMP.)"""
    facts = ctx.facts
    own_rule = {('crdts::mvreg::MVReg', 'PartialEq')}
    for b0 in facts.bodies:
        if b0.kind != 'AssocFn' or b0.serde or not b0.impl_trait or not (b0.impl_self or '').startswith('crdts::'):
            continue
        if b0.derived:
            # a derive is what the hand-written impls are measured against; counted so that swapping a derive for an equivalent
            # impl (or back) leaves the number of instances unchanged
            tr_ = b0.impl_trait.split('::')[-1]
            if (tr_, b0.name) in (('PartialEq', 'eq'), ('Hash', 'hash'), ('Default', 'default'), ('Clone', 'clone')) \
                    and facts.adts.get(b0.impl_self) is not None:
                ctx.ok('%s/%s' % (b0.impl_self.replace('crdts::', ''), b0.name), None, 'derived', nontrivial=False, fnkey=b0.impl_self)
            continue
        tr = b0.impl_trait.split('::')[-1]
        adt = facts.adts.get(b0.impl_self)
        if adt is None or (b0.impl_self, tr) in own_rule:
            continue
        short = b0.impl_self.replace('crdts::', '')
        b = facts._v(b0)
        fields = [f['name'] for v in adt['variants'] for f in v['fields']] if adt['kind'] == 'struct' else None
        if tr == 'PartialEq' and b0.name == 'eq':
            ctx.analysed.add(b0.key)
            if fields is None:
                ctx.shape(short + '/eq', b, 'hand-written equality on an enum is not modelled')
                continue
            seen = set()

            def atom(t):
                # `a.cmp(&b).is_eq()` / `a.cmp(&b) == Ordering::Equal` on a total order is `a == b`
                if t[0] == 'call' and cinfo(t[1])['name'] in ('is_eq', 'is_ne') and len(t[2]) == 1 and is_call(drop_lv(t[2][0]), 'cmp') \
                        and len(drop_lv(t[2][0])[2]) == 2:
                    inner = atom(('binop', 'Eq' if cinfo(t[1])['name'] == 'is_eq' else 'Ne', drop_lv(t[2][0])[2][0], drop_lv(t[2][0])[2][1]))
                    if inner is not None:
                        return inner
                if t[0] == 'call' and cinfo(t[1])['name'] in ('eq', 'ne') and len(t[2]) == 2:
                    for x_, y_ in ((drop_lv(t[2][0]), drop_lv(t[2][1])), (drop_lv(t[2][1]), drop_lv(t[2][0]))):
                        if is_call(x_, 'cmp') and len(x_[2]) == 2 and is_variant(y_, 'cmp::Ordering', 'Equal'):
                            inner = atom(('binop', 'Eq' if cinfo(t[1])['name'] == 'eq' else 'Ne', x_[2][0], x_[2][1]))
                            if inner is not None:
                                return inner
                if t[0] == 'call' and cinfo(t[1])['name'] in ('eq', 'ne') and len(t[2]) == 2 or (t[0] == 'binop' and t[1] in ('Eq', 'Ne')):
                    a_, b_ = (t[2][0], t[2][1]) if t[0] == 'call' else (t[2], t[3])
                    pa, pb = value_path(drop_lv(a_)), value_path(drop_lv(b_))
                    if pa and pb and {pa[0], pb[0]} == {1, 2} and pa[1] == pb[1] and len(pa[1]) == 1:
                        seen.add(pa[1][0])
                        neg = (cinfo(t[1])['name'] == 'ne') if t[0] == 'call' else (t[1] == 'Ne')
                        return ('not', 'f_' + pa[1][0]) if neg else 'f_' + pa[1][0]
                return None
            errs = []
            closure_value(facts, b, bool_atom=atom)
            allt = closure_value(facts, b, bool_atom=atom, assumption={'f_' + f: True for f in fields})
            if allt is not True:
                errs.append('two values whose fields are all equal do not compare equal')
            for f in fields:
                asm = {'f_' + g: True for g in fields}
                asm['f_' + f] = False
                if closure_value(facts, b, bool_atom=atom, assumption=asm) is not False:
                    errs.append('values that differ in field `%s` can compare equal' % f)
                    break
            ctx.check(not errs, short + '/eq', b, 'equal iff every field is equal (%s)' % ', '.join(fields), errs[0] if errs else '')
        elif tr == 'Hash' and b0.name == 'hash':
            ctx.analysed.add(b0.key)
            it = interp(facts, b)
            rc = Reach(facts, b, Evaluator(facts))
            fed = set()
            for bb, c in it.calls.items():
                if call_name(c.term) == 'hash' and c.args and rc.must_pass([bb]):
                    pp = value_path(drop_lv(c.args[0].val))
                    if pp and pp[0] == 1 and len(pp[1]) == 1:
                        fed.add(pp[1][0])
            # k1 == k2 must imply hash(k1) == hash(k2): nothing may be hashed that equality does not compare
            eqb = facts.trait_impl_method(b0.impl_self, 'PartialEq', 'eq')
            compared = set(fields or [])
            if eqb is not None and not eqb.derived:
                compared = set()
                eit = interp(facts, eqb)
                for st in [c_.term for c_ in eit.calls.values()] + [sw.discr for sw in eit.switches.values()] + [eit.ret] \
                        + [av[1] for av in eit.assign_vals.values()]:
                    for y in subterms(st):
                        pp = value_path(drop_lv(y))
                        if pp and pp[0] in (1, 2) and len(pp[1]) == 1:
                            compared.add(pp[1][0])
            extra = sorted(fed - compared)
            ctx.check(fields is not None and not extra, short + '/hash', b, 'only fields that equality compares are hashed (%s)' % ', '.join(sorted(fed)),
                      'field(s) %s are hashed but not compared by ==: equal values can hash differently' % extra)
        elif tr == 'Default' and b0.name == 'default':
            ctx.analysed.add(b0.key)
            r = interp(facts, b).ret
            ctx.check(_is_empty_ctor(r, 0, facts), short + '/default', b, 'the default value is the empty one',
                      'Default::default() of %s is %s, expected every field empty / default' % (short, fmt(drop_lv(r), 5)))
        elif tr == 'From' and b0.name == 'from' and b0.impl_self in (DOT, 'crdts::dot::OrdDot'):
            # Dot <-> OrdDot <-> (actor, counter): the rules read these conversions as the identity on (actor, counter)
            ctx.analysed.add(b0.key)
            r = drop_lv(normal(facts, interp(facts, b).ret))
            ok = False
            if r[0] == 'agg' and dict(r[3]).keys() >= {'actor', 'counter'}:
                a, c = versionless(dict(r[3])['actor']), versionless(dict(r[3])['counter'])
                ok = (a, c) in ((('field', ('param', 1), 'actor'), ('field', ('param', 1), 'counter')),
                                (('field', ('param', 1), '0'), ('field', ('param', 1), '1')))
            src_ty = (b.locals[1]['ty'].get('s') or '?')
            ctx.check(ok, '%s/from<%s>' % (short, src_ty.split('<')[0].split('::')[-1] or 'tuple'), b, 'actor and counter carried over unchanged',
                      '%s::from(%s) is %s, expected the same actor and counter' % (short, src_ty, fmt(r, 5)))
        elif tr == 'Clone' and b0.name == 'clone':
            ctx.analysed.add(b0.key)
            r = versionless(interp(facts, b).ret)
            ok = r == ('param', 1) or (r[0] == 'agg' and fields is not None and all(versionless(v) == ('field', ('param', 1), k) for k, v in r[3]))
            ctx.check(ok, short + '/clone', b, 'a field-by-field copy', 'Clone::clone of %s is %s, expected a copy of every field' % (short, fmt(r, 5)))


@rule('CMP-PROVIDED', {
    'C10': 'the comparison operators must be the pointwise order partial_cmp defines',
    'C09': 'every merge / deferral / validation decision written with `>=`, `<=`, `<`, `>` runs these operators',
    'C04': 'merge drops or keeps members by `other.clock >= clock`',
    'C05': 'same for Map entries',
    'C14': 'Identifier order must be one total order whichever operator is used; its markers are OrdDots',
    'C12': 'List elements are ordered by identifiers whose sibling markers are OrdDots: every replica must sort them alike',
    'C06': 'MVReg::apply and MVReg::merge keep or evict values by `>` / `<` on their clocks',
    'C08': 'the decision to remember an overtaking remove compares clocks',
    'C02': 'merge decisions on both sides must use one and the same order',
    'C03': 'same decisions as op delivery',
    'C07': '[primitive] MERGE-DROP serves C07 and decides by `>=` on clocks',
    'C17': '[primitive] Map::validate_merge recurses for concurrent clocks, decided through these operators / partial_cmp',
    'C18': '[primitive] Orswot / Map reset_remove drop covered pending removes by a clock comparison',
    'C20': '[primitive] a pending remove is stored only when the comparison says the replica has not seen it all',
}, floor=4, inst_filter={'C07': lambda i: i.startswith('vclock') or i in ('floor', 'anchor', 'internal'),
                         'C17': lambda i: i.startswith('vclock') or i in ('floor', 'anchor', 'internal'),
                         'C18': lambda i: i.startswith('vclock') or i in ('floor', 'anchor', 'internal'),
                         'C20': lambda i: i.startswith('vclock') or i in ('floor', 'anchor', 'internal'),
                         'C14': lambda i: i.startswith(('identifier', 'dot::OrdDot')) or i in ('floor', 'anchor', 'internal'),
                         'C12': lambda i: i.startswith(('identifier', 'dot::OrdDot')) or i in ('floor', 'anchor', 'internal'),
                         'C06': lambda i: i.startswith('vclock') or i in ('floor', 'anchor', 'internal'),
                         'C08': lambda i: i.startswith('vclock') or i in ('floor', 'anchor', 'internal'),
                         'C04': lambda i: i.startswith('vclock') or i in ('floor', 'anchor', 'internal'),
                         'C05': lambda i: i.startswith('vclock') or i in ('floor', 'anchor', 'internal'),
                         'C02': lambda i: i.startswith('vclock') or i in ('floor', 'anchor', 'internal'),
                         'C03': lambda i: i.startswith('vclock') or i in ('floor', 'anchor', 'internal'),
                         'C09': lambda i: i.startswith('vclock') or i in ('floor', 'anchor', 'internal'),
                         'C10': lambda i: i.startswith(('vclock', 'dot')) or i in ('floor', 'anchor', 'internal')})
def cmp_provided(ctx):
    """Hand-written PartialOrd / Ord impls of crate types define the order in ONE place (partial_cmp / cmp): a provided
    operator (lt, le, gt, ge, max, min, clamp) that is overridden must be evaluable from that one place and agree with it."""
    facts = ctx.facts
    want = {'lt': {LT}, 'le': {LT, EQ}, 'gt': {GT}, 'ge': {GT, EQ}}
    for im in sorted(facts.impls, key=lambda i: (i.get('trait') or '').endswith('PartialOrd')):   # Ord before PartialOrd
        tr = (im.get('trait') or '').split('::')[-1]
        if im.get('is_trait_def') or im.get('derived') or tr not in ('PartialOrd', 'Ord') or not str(im.get('self_key', '')).startswith('crdts::'):
            continue
        short = im['self_key'].replace('crdts::', '')
        names = [m.split('::')[-1] for m in im['methods']]
        extra = [n for n in names if n not in ('partial_cmp', 'cmp')]
        inst = '%s/%s' % (short, tr)
        # a hand-written order on a plain struct that has no rule of its own (today: none; e.g. OrdDot if its derive were
        # replaced): it must be a lexicographic comparison over ALL fields, so that Equal means equal and the order is total
        if im['self_key'] not in (VCLOCK, DOT, IDENT):
            adt = facts.adts.get(im['self_key'])
            mname = 'cmp' if tr == 'Ord' else 'partial_cmp'
            mb = [m for m in im['methods'] if m.endswith('::' + mname)]
            if adt is not None and adt['kind'] == 'struct' and mb and facts.by_uid.get(mb[0]) is not None:
                import itertools
                b = facts._v(facts.by_uid[mb[0]])
                ctx.analysed.add(b.key)
                flds = [f['name'] for f in adt['variants'][0]['fields']]

                def fcls(a, b_, t):
                    pa, pb = value_path(drop_lv(a)), value_path(drop_lv(b_))
                    if pa and pb and {pa[0], pb[0]} == {1, 2} and pa[1] == pb[1]:
                        if len(pa[1]) == 1 and pa[1][0] in flds:
                            return ('f_' + pa[1][0], 'fwd' if pa[0] == 1 else 'rev')
                        if pa[1] == () and cmp_parts(t)[0] == 'cmp' and mname == 'partial_cmp':
                            return ('whole', 'fwd' if pa[0] == 1 else 'rev')   # Some(self.cmp(other))
                    return None
                # the type's own total order, when partial_cmp defers to it: the derived one is lexicographic in declaration order
                whole = getattr(ctx, '_ord_tables', {}).get(im['self_key'])
                table = {}
                for combo in itertools.product(TOTAL, repeat=len(flds)):
                    asm = {'f_' + f: o for f, o in zip(flds, combo)}
                    w = whole[combo] if whole is not None else next((o for o in combo if o != EQ), EQ)
                    if w is not None:
                        asm['whole'] = w
                    v = closure_value(facts, b, classify=fcls, assumption=asm)
                    if isinstance(v, tuple) and v[0] == 'optord':
                        v = ('ord', v[1])
                    table[combo] = v[1] if isinstance(v, tuple) and v[0] == 'ord' else None
                lex_ok = False
                for perm in itertools.permutations(range(len(flds))):
                    if all(table[c] == next((c[i] for i in perm if c[i] != EQ), EQ) for c in table):
                        lex_ok = True
                if mname == 'cmp':
                    if not hasattr(ctx, '_ord_tables'):
                        ctx._ord_tables = {}
                    ctx._ord_tables[im['self_key']] = table
                # Ord and PartialOrd of one type must be one order (`<` uses partial_cmp, sorted containers use cmp): the
                # partner impl is either hand-written too (its table) or derived (lexicographic in declaration order)
                partner = 'PartialOrd' if tr == 'Ord' else 'Ord'
                pim = [i for i in facts.impls if i.get('self_key') == im['self_key'] and (i.get('trait') or '').split('::')[-1] == partner]
                if pim and pim[0].get('derived'):
                    decl = {c: next((o for o in c if o != EQ), EQ) for c in table}
                    ctx.check(table == decl, inst + '/agrees-with-derived-' + partner, b,
                              'same order as the derived %s (declaration order of the fields)' % partner,
                              'the hand-written %s of %s and its derived %s disagree: `<`/`>` and sorted containers order the same two '
                              'values differently' % (mname, short, partner), fnkey=im['self_key'])
                elif pim and mname == 'partial_cmp' and whole is not None:
                    ctx.check(table == whole, inst + '/agrees-with-Ord', b, 'same order as the hand-written Ord',
                              'the hand-written partial_cmp and cmp of %s disagree' % short, fnkey=im['self_key'])
                ctx.check(lex_ok and len(flds) <= 4, inst + '/' + mname, b, 'a lexicographic order over every field (%s)' % ', '.join(flds),
                          'the hand-written %s of %s is not a lexicographic comparison over all of its fields: two different values can '
                          'compare Equal, or the order is not total' % (mname, short), fnkey=im['self_key'])
        if not extra:
            ctx.ok(inst, None, 'only %s is defined; the operators are the provided ones' % ('partial_cmp' if tr == 'PartialOrd' else 'cmp'),
                   fnkey=im['self_key'], nontrivial=False)
            continue
        for n in extra:
            b = facts.by_uid.get([m for m in im['methods'] if m.endswith('::' + n)][0])
            if b is None or n not in want:
                ctx.fail(inst + '/' + n, b, 'the provided method `%s` is overridden and cannot be related to the order' % n, fnkey=im['self_key'])
                continue
            b = facts._v(b)
            ctx.analysed.add(b.key)

            def classify(a, b_, t):
                if t[0] == 'call' and cinfo(t[1])['name'] in ('partial_cmp', 'cmp'):
                    va, vb = versionless(a), versionless(b_)
                    if (va, vb) == (('param', 1), ('param', 2)):
                        return ('pc', 'fwd')
                    if (va, vb) == (('param', 2), ('param', 1)):
                        return ('pc', 'rev')
                return None
            dom = PARTIAL if tr == 'PartialOrd' else TOTAL
            truth = {o: closure_value(facts, b, classify=classify, assumption={'pc': o}) for o in dom}
            ok = all(truth[o] is (o in want[n]) for o in dom)
            if not ok and im['self_key'] == VCLOCK and n in ('ge', 'le'):
                # VClock: `a >= b` may also be computed as the pointwise dominance scan itself
                from .vclock import scan_kind

                def satom(t):
                    k_ = scan_kind(facts, t)
                    return k_
                tb = {}
                for ge_ in (True, False):
                    for le_ in (True, False):
                        tb[(ge_, le_)] = closure_value(facts, b, bool_atom=satom, assumption={'ge': ge_, 'le': le_})
                ok = all(v is (k[0] if n == 'ge' else k[1]) for k, v in tb.items())
                truth = {str(k): v for k, v in tb.items()}
            ctx.check(ok, inst + '/' + n, b, '`%s` agrees with the order' % n,
                      '`%s` is overridden with its own computation (%s): `a %s b` no longer is what partial_cmp says, and every decision '
                      'written with that operator changes with it' % (n, {k: v for k, v in truth.items()}, {'lt': '<', 'le': '<=', 'gt': '>', 'ge': '>='}[n]),
                      fnkey=im['self_key'])


SEQ_TYPES = {'Vec', 'VecDeque', 'LinkedList', 'BinaryHeap'}
EQ_STATE_ADTS = [ORSWOT, MAP, 'crdts::map::Entry', MVREG, LIST, GLIST, MERKLE, 'crdts::merkle_reg::Node', VCLOCK, GCOUNTER, PNCOUNTER, GSET, LWWREG,
                 MAXREG, MINREG]


def _seq_inside(ty):
    """A sequence container compared element by element, reached without passing through a crate type (those answer for
    their own equality)."""
    if not isinstance(ty, dict):
        return None
    if ty.get('k') == 'adt':
        if ty['path'].startswith('crdts::'):
            return None
        if ty['path'].split('::')[-1] in SEQ_TYPES:
            return ty.get('s') or ty['path']
    if ty.get('k') in ('slice',):
        return ty.get('s')
    for a in (ty.get('args') or []) + (ty.get('elems') or []):
        r = _seq_inside(a)
        if r:
            return r
    for k in ('ty', 'inner', 'elem'):
        if isinstance(ty.get(k), dict):
            r = _seq_inside(ty[k])
            if r:
                return r
    return None


@rule('EQ-CANON', {
    'C20': 'replicas with the same knowledge must compare equal whatever order (and however often) that knowledge arrived in: a state '
           'type whose `==` is the derived, structural one must therefore keep unordered data in order-insensitive containers',
    'C02': 'a+b == b+a is judged with the same equality',
}, floor=14)
def eq_canon(ctx):
    """State types with a derived PartialEq hold no Vec / VecDeque / LinkedList / BinaryHeap / slice (outside nested crate types)."""
    facts = ctx.facts
    for adt in EQ_STATE_ADTS:
        a = ctx.adt(adt)
        short = adt.replace('crdts::', '')
        pe = [i for i in facts.impls if i.get('self_key') == adt and (i.get('trait') or '').split('::')[-1] == 'PartialEq']
        if not pe:
            ctx.ok(short, None, 'no PartialEq', nontrivial=False, fnkey=adt)
            continue
        if not pe[0].get('derived'):
            ctx.ok(short, None, 'hand-written equality (judged by its own rule)', nontrivial=False, fnkey=adt)
            continue
        bad = [(f['name'], _seq_inside(f['ty'])) for v in a['variants'] for f in v['fields'] if _seq_inside(f['ty'])]
        ctx.check(not bad, short, None, 'derived ==; every field is a map, a set, a scalar or a crate type',
                  '%s derives PartialEq but field %s is %s: two replicas holding the same elements in another order (or with a repeat) '
                  'compare unequal' % (short, bad[0][0] if bad else '', bad[0][1] if bad else ''), fnkey=adt)


@rule('BORROW-ORD', dict({
    'C12': 'List looks its elements up in a map keyed by Identifier: a lookup through a borrowed form that sorts differently misses them',
    'C14': 'one total order on identifiers, whichever form a container compares',
}, **{p_: 'a key type of this module looked up through a borrowed form with another order / equality / hash is not found although present'
      for ps_ in TYPE_PROPS.values() for p_ in ps_}), floor=1,
    inst_filter={p_: (lambda i, p_=p_: p_ in type_props(i) or i in ('floor', 'anchor', 'internal', 'census')) for ps_ in TYPE_PROPS.values() for p_ in ps_})
def borrow_ord(ctx):
    """`impl Borrow<X> for T` promises that X compares, sorts and hashes exactly like T (std contract; BTreeMap / HashMap lookups
    rely on it).  For a crate type that holds only when T's Eq / Ord / Hash are all derived and X is the type of T's single
    field; any other Borrow impl on a crate type is reported."""
    facts = ctx.facts
    n = 0
    for im in facts.impls:
        tr = (im.get('trait') or '').split('::')[-1]
        sk = str(im.get('self_key') or '')
        if tr not in ('Borrow', 'BorrowMut') or not sk.startswith('crdts::'):
            continue
        n += 1
        short = sk.replace('crdts::', '')
        adt = facts.adts.get(sk)
        target = (im.get('trait_args') or [{}])[0]
        manual = sorted(set((i.get('trait') or '').split('::')[-1] for i in facts.impls
                            if i.get('self_key') == sk and not i.get('derived')
                            and (i.get('trait') or '').split('::')[-1] in ('PartialEq', 'Eq', 'PartialOrd', 'Ord', 'Hash')))
        single = adt is not None and adt['kind'] == 'struct' and len(adt['variants'][0]['fields']) == 1
        same = single and (adt['variants'][0]['fields'][0]['ty'].get('s') == target.get('s'))
        ctx.check(not manual and same, '%s/Borrow<%s>' % (short, target.get('s', '?')), None,
                  'newtype with derived Eq/Ord/Hash borrowed as its field',
                  '%s implements Borrow<%s> but %s: the borrowed form does not compare / sort / hash like the owner, so '
                  'map and set lookups through it miss present keys' % (short, target.get('s', '?'),
                  ('its ' + ', '.join(manual) + ' is hand-written') if manual else 'the target is not the type of its single field'),
                  fnkey=sk)
    ctx.ok('census', None, '%d Borrow impls on crate types' % n, nontrivial=False)


FIRST_SEL = {'next', 'first', 'first_key_value'}
LAST_SEL = {'next_back', 'last', 'last_key_value'}
ACC_SPEC = [
    # (type, method, kind, field)
    (GLIST, 'len', 'len', 'list'), (GLIST, 'is_empty', 'is_empty', 'list'), (GLIST, 'iter', 'walk', 'list'),
    (GLIST, 'first', 'first', 'list'), (GLIST, 'last', 'last', 'list'),
    (LIST, 'len', 'len', 'seq'), (LIST, 'is_empty', 'is_empty', 'seq'), (LIST, 'get', 'lookup', 'seq'),
    (LIST, 'first', 'first', 'seq'), (LIST, 'first_entry', 'first', 'seq'), (LIST, 'last', 'last', 'seq'), (LIST, 'last_entry', 'last', 'seq'),
    (MERKLE, 'num_nodes', 'len', 'dag'), (MERKLE, 'num_orphans', 'len', 'orphans'), (MERKLE, 'all_nodes', 'walk', 'dag'),
    ('crdts::merkle_reg::Content', 'is_empty', 'is_empty', 'nodes'), ('crdts::merkle_reg::Content', 'values', 'walk', 'nodes'),
    ('crdts::merkle_reg::Content', 'nodes', 'walk', 'nodes'), ('crdts::merkle_reg::Content', 'hashes', 'walk', 'nodes'),
    ('crdts::merkle_reg::Content', 'hashes_and_nodes', 'walk', 'nodes'),
    (GLIST, 'read', 'walk', 'list'), (GLIST, 'read_into', 'walk', 'list'),
    (ORSWOT, 'clock', 'field', 'clock'),
]
NEW_EMPTY = [ORSWOT, MAP, MVREG, LIST, GLIST, MERKLE, VCLOCK, GCOUNTER, PNCOUNTER, GSET]


def _literal_only_when_absent(facts, body, field):
    """An Option-returning accessor may answer with a literal (`None`) only where the look-up it delegates to found nothing: in the
    world where every look-up / selection in the body succeeds and the container is not empty, no return site yields a literal."""
    it = interp(facts, body)
    empt = emptiness_atom({'c': (1, (field,))})

    def atom(t):
        if t[0] == 'discr' and drop_lv(t[1])[0] == 'call':
            return ('map', 'hit', {True: 1, False: 0})
        if is_call(t, ('is_some', 'is_none')) and t[2] and drop_lv(t[2][0])[0] == 'call':
            return 'hit' if call_name(t) == 'is_some' else ('not', 'hit')
        return empt(t)
    rc = Reach(facts, body, Evaluator(facts, bool_atom=atom, assumption={'hit': True, 'c': False}))
    for (b_, _si), w in it.ret_assigns.items():
        if b_ not in rc.reachable:
            continue
        for a_ in phi_alts(w.val):
            a_ = drop_lv(a_)
            if a_[0] == 'const' or is_variant(a_, 'option::Option', 'None'):
                return False
    return True


@rule('ACC-PLAIN', floor=35, **read_attribution({}, module=None))   # what a replica shows: served per type through READ_OBSERVES
def acc_plain(ctx):
    """Plain read accessors delegate to the container field they describe: len / is_empty of that field, a walk over all of it,
    its first / last element, the n-th element of the walk, the lookup of the given key."""
    facts = ctx.facts
    for adt, name, kind, field in ACC_SPEC:
        body = ctx.inherent(adt, name)
        short = adt.split('::')[-1] + '::' + name
        r = drop_lv(inline_option_maps(facts, normal(facts, interp(facts, body).ret)))
        ok = False
        why = ''

        def over_field(src, allow_rev=False):
            base, k_, clo = iter_source(src)
            pp = param_path(base)
            ads = set(iter_adaptors(src))
            return bool(pp and pp[0] == 1 and pp[1] == (field,) and not (ads & LOSSY_ADAPTORS) and (allow_rev or 'rev' not in ads)
                        and 'nth' not in ads and 'chain' not in ads and 'zip' not in ads)
        if kind in ('len', 'is_empty'):
            if r[0] == 'call' and call_name(r) == kind and len(r[2]) == 1:
                ok = param_path(r[2][0]) == (1, (field,))
            elif kind == 'len' and is_call(r, 'count') and r[2]:
                ok = over_field(r[2][0])
            elif kind == 'is_empty' and r[0] == 'binop' and r[1] == 'Eq':
                a_, b_ = drop_lv(r[2]), drop_lv(r[3])
                for x, y in ((a_, b_), (b_, a_)):
                    if y[0] == 'const' and y[1] == 0 and is_call(x, 'len') and len(x[2]) == 1 and param_path(x[2][0]) == (1, (field,)):
                        ok = True
        elif kind == 'walk':
            src = r[2][0] if is_call(r, 'collect') and r[2] else r
            ok = over_field(src)
            if not ok:
                # the same walk as a loop that puts something made of each item into the result
                from .loops import loop_collected, item_derived
                it_ = interp(facts, body)
                lc = loop_collected(facts, body, it_, it_.ret)
                ok = lc is not None and over_field(lc[0].src) and all(item_derived(v_, lc[0]) for v_ in lc[1])
        elif kind == 'nth':
            # the n-th element of the walk, in any spelling the position algebra understands (nth, skip+next, enumerate+find, ..)
            from .posalg import PosAlg
            p_ = PosAlg(facts, field, lambda x: value_path(drop_lv(x)) == (2, ())).apos(r)
            if p_ is not None and p_[0] == 'enum':
                p_ = p_[1]
            ok = p_ == ('pos', 'I', 0)
        elif kind == 'lookup':
            ok = is_call(r, ('get',)) and len(r[2]) == 2 and param_path(r[2][0]) == (1, (field,)) and value_path(drop_lv(r[2][1])) == (2, ())
        elif kind in ('first', 'last'):
            sels = [st for st in subterms(versionless(r)) if st[0] == 'call' and call_name(st) in FIRST_SEL | LAST_SEL and st[2]]
            if len(sels) == 1:
                st = sels[0]
                n = call_name(st)
                src = st[2][0]
                direct = param_path(src) == (1, (field,))       # first() / last_key_value() on the container itself
                rev = 'rev' in set(iter_adaptors(src))
                end = ('first' if n in FIRST_SEL else 'last')
                if rev:
                    end = 'last' if end == 'first' else 'first'
                ok = end == kind and (direct or over_field(src, allow_rev=True))
        elif kind == 'field':
            v = versionless(r)
            while v[0] == 'call' and call_name(v) in ('clone', 'to_owned') and len(v[2]) == 1:
                v = versionless(v[2][0])
            ok = v == ('field', ('param', 1), field)
        if ok and kind in ('first', 'last', 'nth', 'lookup') and not _literal_only_when_absent(facts, body, field):
            ok = False
            why = ' (a literal answer is returned on a path where the container holds the element)'
        ctx.check(ok, short, body, '%s of self.%s' % (kind, field), '%s is %s, expected the %s of self.%s%s' % (short, fmt(r, 5), kind, field, why))
    # constructors: `new()` is the empty replica
    for adt in NEW_EMPTY:
        body = facts.inherent_method(adt, 'new')
        if body is None:
            continue
        ctx.analysed.add(body.key)
        short = adt.split('::')[-1] + '::new'
        r = interp(facts, body).ret
        ctx.check(_is_empty_ctor(r, 0, facts), short, body, 'the empty replica', '%s is %s, expected every field empty / default' % (short, fmt(drop_lv(r), 5)))
    # List / into_iter, list::Op::id, GSet -> BTreeSet
    b = facts.trait_impl_method(LIST, 'IntoIterator', 'into_iter')
    if b is not None:
        ctx.analysed.add(b.key)
        r = drop_lv(interp(facts, b).ret)
        base, k_, clo = iter_source(r)
        ctx.check(param_path(base) == (1, ('seq',)) and k_ == 'values' and not clo and 'rev' not in set(iter_adaptors(r)), 'List::into_iter', b,
                  'all values of seq in identifier order', 'List::into_iter is %s, expected self.seq.into_values()' % fmt(r, 5))
    b = facts.inherent_method('crdts::list::Op', 'id')
    if b is not None:
        ctx.analysed.add(b.key)
        alts = [versionless(a) for a in phi_alts(drop_lv(interp(facts, b).ret))]
        want = {('field', ('param', 1), 'Insert.id'), ('field', ('param', 1), 'Delete.id')}
        ctx.check(set(alts) == want, 'list::Op::id', b, 'the id of either variant', 'list::Op::id returns %s' % [fmt(a, 4) for a in alts])
