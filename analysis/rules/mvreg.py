"""A.4 — MVReg: dominance filters of Put, merge and read."""
from ..core import rule
from ..terms import drop_lv
from .common import *


def vals_field(facts):
    a = facts.adts.get(MVREG)
    return a['variants'][0]['fields'][0]['name'] if a else 'vals'


def _item_clock_side(t, vf, it=None):
    """t is the clock (.0) of an item of <param i>.vals  ->  i  (with `it`: also of an item of a local collection that holds
    values of one side only when it is walked)"""
    if it is not None:
        from .loops import loop_of_item, coll_local, local_side, peel
        x = peel(t)
        if x[0] == 'field' and x[2] == '0':
            lp = loop_of_item(it, x[1])
            if lp is not None and param_path(lp.source()[0]) is None:
                nm = coll_local(lp.raw_src)
                sd = local_side(it, nm, lp.head, vf) if nm else None
                if sd is not None:
                    return sd
    t = versionless(t)
    if t[0] == 'field' and t[2] == '0':
        e = elem_of(t[1])
        if e is None and t[1][0] == 'item':
            e = elem_of(t[1])
        if e:
            pp = param_path(e[0])
            if pp and pp[1][-1:] == (vf,):
                return pp[0]
    return None


def quantifier(facts, t, mapping):
    """Recognise `no y in X satisfies P` / `all y in X satisfy P` forms.
    Returns (X iterator term, inner closure body, inner mapping, polarity) where the outer value is
    KEPT iff  polarity == 'none' : no y makes P true ;  polarity == 'all' : every y makes P true."""
    ts = subst(t, mapping)
    ts = drop_lv(ts)
    neg = False
    while ts[0] == 'unop' and ts[1] == 'Not':
        neg = not neg
        ts = ts[2]
    q = None
    if ts[0] == 'binop' and ts[1] in ('Eq',):
        a, b = ts[2], ts[3]
        for x, y in ((a, b), (b, a)):
            if y[0] == 'const' and y[1] == 0 and is_call(x, 'count') and x[2] and is_call(x[2][0], 'filter'):
                q = ('none', x[2][0])
    if q is None and is_call(ts, 'all') and len(ts[2]) == 2:
        q = ('all', ts)
    if q is None and is_call(ts, 'any') and len(ts[2]) == 2:
        q = ('none', ts)
        neg = not neg
    if q is None and is_call(ts, 'is_none') and ts[2] and is_call(ts[2][0], ('find', 'position')):
        q = ('none', ts[2][0])
    if q is None:
        return None
    pol, call = q
    if neg:
        return None
    bind = closure_bindings(call)
    if not bind:
        return None
    clo, m = bind[0]
    cb = facts.cb(clo[1])
    if cb is None:
        return None
    return (call[2][0], cb, m, pol)


QUANT_SINKS = ('count', 'next', 'any', 'all', 'find', 'position', 'last', 'nth')


def pair_truth(facts, cb, m, own_side, vf, acc=None, q=None):
    """Truth of the inner predicate for each ordering of (own clock, other clock)."""
    seen = []
    it_ = interp(facts, q['loopq']['body']) if q is not None and q.get('loopq') and not m else None

    def classify(a, b, t):
        sa, sb = subst(a, m), subst(b, m)
        ia, ib = _item_clock_side(sa, vf, it_), _item_clock_side(sb, vf, it_)
        if ia is None or ib is None or ia == ib:
            return None
        seen.append((ia, ib))
        return ('pair', 'fwd' if ia == own_side else 'rev')
    truth = {}
    for o in PARTIAL:
        if q is not None:
            truth[o] = quant_value(facts, q, classify=classify, assumption={'pair': o})
        else:
            truth[o] = closure_value(facts, cb, classify=classify, assumption={'pair': o}, acc=acc)
    return truth, bool(seen)


@rule('MRG-MVREG', {
    'C02': 'asymmetric strict parts give a+b != b+a; keeping both on Eq duplicates a value (a+a != a); keeping none loses it',
    'C03': 'merging must keep what op delivery would keep',
    'C06': 'the register must hold exactly the undominated writes of both sides',
}, floor=3)
def mrg_mvreg(ctx):
    """MVReg::merge, per pair (own clock, other clock): Lt -> own dropped; Gt -> other dropped; None -> both kept;
    Eq -> exactly one kept; surviving other values are added to self."""
    facts = ctx.facts
    vf = vals_field(facts)
    body = ctx.method(MVREG, 'CvRDT', 'merge')
    it = interp(facts, body)
    kill = {1: set(), 2: set()}   # side whose value is dropped -> orderings of (own, other) that drop it
    nfilters = 0

    def q_atoms(side, mapping, problems):
        """Quantifiers over all values of the other side become boolean atoms; in a world where the other side holds a
        single value y with ord(own, other) = o, both `exists y. P` and `forall y. P` have the value P(o)."""
        atoms = {}

        def bool_atom(t):
            q = quant(facts, t, mapping)
            if q is None:
                return None
            xb = param_path(iter_source(q['src'])[0])
            if not xb and q.get('loopq') and q['loopq']['body'].uid == body.uid:
                # the walked collection is a local holding the (surviving) values of one side
                from .loops import coll_local, local_side
                nm = coll_local(q['raw_src'])
                sd = local_side(it, nm, q['loopq']['loop'].head, vf) if nm else None
                if sd is not None:
                    xb = (sd, (vf,))
            if not xb or xb[1][-1:] != (vf,) or xb[0] == side or set(iter_adaptors(q['src'])) & LOSSY_ADAPTORS:
                problems.append('the quantifier does not range over all values of the other side')
                return None
            ctx.analysed.add(q['cb'].key)
            truth, hit = pair_truth(facts, q['cb'], q['m'], 1, vf, q.get('acc'), q=q)
            if not hit or any(v is None for v in truth.values()):
                problems.append('inner predicate is not a comparison of an own clock with an other clock')
                return None
            key = versionless(subst(t, mapping) if mapping else t)
            if key not in atoms:
                tab = {o: (truth[o] != q['neg']) for o in PARTIAL}
                tab['empty'] = (q['kind'] == 'forall') != q['neg']
                atoms[key] = ('q%d' % len(atoms), tab)
            return atoms[key][0]
        return atoms, bool_atom

    def record(side, keep, where, line):
        nonlocal nfilters
        ks = set(o for o, v in keep.items() if v is False)
        kill[side] |= ks
        nfilters += 1
        ctx.ok('filter@%d' % nfilters, where, 'side %s value dropped under ord(own, other) in %s' % ('own' if side == 1 else 'other', sorted(ks)),
               line=line, details={'kill': sorted(ks), 'side': side})

    # closure form: filter / retain over one side whose predicate combines quantifiers over the other side
    for bb, c in sorted(it.calls.items()):
        if call_name(c.term) not in ('filter', 'retain', 'retain_mut'):
            continue
        if call_name(c.term) == 'filter' and any(call_name(c2.term) in QUANT_SINKS and c2.args and c.term in set(subterms(c2.args[0].val))
                                                 for c2 in it.calls.values()):
            continue    # `xs.filter(p).count() == 0`: the filter is the body of a quantifier, not a dominance filter of its own
        for clo, mapping in closure_bindings(c.term):
            item = mapping.get(('param', 2))
            if item is None:
                continue
            base = iter_source(item[1] if item[0] == 'item' else item)[0]
            pp = param_path(base)
            if not pp or pp[1][-1:] != (vf,):
                continue
            side = pp[0]
            cb = facts.cb(clo[1])
            cit = interp(facts, cb)
            ctx.analysed.add(cb.key)
            problems = []
            atoms, ba = q_atoms(side, mapping, problems)
            closure_value(facts, cb, bool_atom=ba)
            keep = {}
            for o in PARTIAL:
                keep[o] = closure_value(facts, cb, bool_atom=ba, assumption={n: tb[o] for n, tb in atoms.values()})
            if not atoms or any(v is None for v in keep.values()):
                ctx.shape('filter@%d' % c.line, cb, (problems[0] if problems else 'dominance filter is not a recognised combination of quantifiers over the other side (%s)' % fmt(cit.ret, 5)), line=cb.line)
                continue
            if closure_value(facts, cb, bool_atom=ba, assumption={n: tb['empty'] for n, tb in atoms.values()}) is not True:
                ctx.fail('filter@%d' % c.line, cb, 'a value is dropped although the other side holds no value at all (universal / existential mix-up)', line=cb.line)
                continue
            record(side, keep, cb, cb.line)
    # loop form: a loop over one side that keeps (pushes into a collection that ends up in self.vals) or drops each item
    from .loops import loops_of, KEEP_CALLS, item_derived, item_filter
    adopted_by_loop = False
    for lp in loops_of(it):
        side = 1 if lp.whole_over(1, (vf,)) else 2 if lp.whole_over(2, (vf,)) else None
        if side is None or lp.early_exits():
            continue
        sites, kind, flows = [], None, False
        if side == 1:
            flt = item_filter(facts, it, lp, (vf,))
            if flt:
                kind, sites, flows = flt[0], flt[1], True
        else:
            for b2 in sorted(lp.blocks):
                c2 = it.calls.get(b2)
                if c2 is None or not c2.args or call_name(c2.term) not in KEEP_CALLS:
                    continue
                a0 = c2.args[0]
                if a0.loc is None or a0.loc[0][0] != 'L' or not any(item_derived(a.val, lp) for a in c2.args[1:]):
                    continue
                lname = 'L%d' % a0.loc[0][1]
                from .loops import locals_into_field
                if lname in locals_into_field(facts, body, it, (vf,)):
                    flows = True
                # that collection is appended to self.vals after the loop, on every path
                for b3, c3 in it.calls.items():
                    if call_name(c3.term) in ('extend', 'append') and len(c3.args) == 2 and b3 not in lp.blocks:
                        p0 = param_path(c3.args[0].val)
                        v = c3.args[1].val
                        while v[0] == 'call' and call_name(v) in ('into_iter', 'iter', 'drain', 'collect') and v[2]:
                            v = v[2][0]
                        if p0 and p0[0] == 1 and p0[1] == (vf,) and v[0] == 'lv' and v[2] == lname \
                                and Reach(facts, body, Evaluator(facts)).must_pass([b3]):
                            flows = True
                kind = 'keep'
                sites.append(b2)
        if not sites or not flows:
            continue
        problems = []
        atoms, ba = q_atoms(side, None, problems)
        lp.inner(Reach(facts, body, Evaluator(facts, bool_atom=ba)))
        keep = {}
        for o in PARTIAL:
            rc = Reach(facts, body, Evaluator(facts, bool_atom=ba, assumption={n: tb[o] for n, tb in atoms.values()}))
            may, must = lp.may(rc, sites), lp.must(rc, sites)
            if kind == 'drop':
                keep[o] = False if must else True if not may else None
            else:
                keep[o] = True if must else False if not may else None
        if not atoms or any(v is None for v in keep.values()):
            ctx.shape('loop@%d' % block_line(it, lp.head), body, (problems[0] if problems else 'the per-item decision of the loop is not a combination of quantifiers over the other side'), line=block_line(it, lp.head))
            continue
        record(side, keep, body, block_line(it, sites[0]))
        if side == 2:
            adopted_by_loop = True
    det = {'own dropped under': sorted(kill[1]), 'other dropped under': sorted(kill[2])}
    errs = []
    if LT not in kill[1]:
        errs.append('an own value dominated by an other value (Lt) is kept')
    if GT in kill[1] or NONE in kill[1]:
        errs.append('an own value that is not dominated (%s) is dropped' % sorted(kill[1] - {LT, EQ}))
    if GT not in kill[2]:
        errs.append('an other value dominated by an own value (Gt) is adopted')
    if LT in kill[2] or NONE in kill[2]:
        errs.append('an other value that is not dominated (%s) is not adopted' % sorted(kill[2] - {GT, EQ}))
    n_eq = (EQ in kill[1]) + (EQ in kill[2])
    if n_eq == 0:
        errs.append('equal clocks: both copies are kept (merge is not idempotent)')
    if n_eq == 2:
        errs.append('equal clocks: both copies are dropped (the value is lost)')
    ctx.check(not errs, 'table', body, 'Lt: own dropped, Gt: other dropped, None: both kept, Eq: exactly one kept',
              errs[0] if errs else '', details=det)
    # surviving others are added
    added = False
    for bb, c in it.calls.items():
        if call_name(c.term) in ('extend', 'append', 'extend_from_slice') and len(c.args) == 2:
            pp = param_path(c.args[0].val)
            src = iter_source(c.args[1].val)[0]
            if is_call(src, 'collect'):
                src = iter_source(src[2][0])[0]
            ps = param_path(src)
            if pp and pp[0] == 1 and pp[1] == (vf,) and ps and ps[0] == 2 and ps[1] == (vf,):
                rc = Reach(facts, body, Evaluator(facts))
                added = rc.must_pass([bb])
                if not added:
                    # shortcuts for an empty side: nothing to adopt from an empty `other`; with no own values every value of other
                    # survives, so `self.vals = other.vals` is the adoption there (and only there)
                    whole = [k_[0] for k_, w_ in it.writes.items() if loc_target(it, w_.loc) and loc_target(it, w_.loc)[:2] == (1, (vf,))
                             and param_path(versionless(w_.val)) == (2, (vf,))]
                    empt_ = emptiness_atom({'own': (1, (vf,))})
                    rc_ne = Reach(facts, body, Evaluator(facts, bool_atom=empt_, assumption={'own': False}))
                    if not any(b_ in rc_ne.reachable for b_ in whole):
                        added = must_pass_unless_noop(facts, body, it, [bb] + whole, {'theirs': (2, (vf,))})
    ctx.check(added or adopted_by_loop, 'adopt', body, 'surviving values of other are appended to self', 'the surviving values of other are not added to self.vals on every path')


@rule('MV-EVICT', {
    'C03': 'a Put whose write the state already holds (learned inside a merged state) must leave the reads as they are, and a Put '
           'delivered as an op must evict exactly what the merge of the writer\'s state would evict',
    'C06': 'keeping Eq duplicates a re-delivered write; keeping Lt shows a superseded write',
    'C20': 'a duplicated or superseded value left in vals is residue: replicas with equal knowledge stop being equal',
    'C08': 'a dominating Put must evict what it observed whatever the arrival order',
    'C09': 're-delivering a Put must not duplicate it',
}, floor=1)
def mv_evict(ctx):
    """MVReg::apply keeps an existing value exactly when partial_cmp(its clock, put.clock) is Greater or None."""
    facts = ctx.facts
    vf = vals_field(facts)
    body = ctx.method(MVREG, 'CmRDT', 'apply')
    it = interp(facts, body)
    done = False
    for bb, c in sorted(it.calls.items()):
        if call_name(c.term) not in ('retain', 'retain_mut', 'filter'):
            continue
        for clo, mapping in closure_bindings(c.term):
            item = mapping.get(('param', 2))
            if item is None:
                continue
            pp = param_path(iter_source(item[1] if item[0] == 'item' else item)[0])
            if not pp or pp[0] != 1 or pp[1] != (vf,):
                continue
            cb = facts.cb(clo[1])
            cit = interp(facts, cb)
            ctx.analysed.add(cb.key)
            hit = []

            def classify(a, b, t, mapping=mapping):
                sa, sb = subst(a, mapping), subst(b, mapping)
                for x, y, orient in ((sa, sb, 'fwd'), (sb, sa, 'rev')):
                    py = param_path(y)
                    if _item_clock_side(x, vf) == 1 and py and py[0] == 2 and py[1][-1:] == ('Put.clock',):
                        hit.append(1)
                        return ('ev', orient)
                return None
            keep = ret_sites_by(cit, lambda v: v[0] == 'const' and v[2] == 'bool' and v[1] == 1)
            drop = ret_sites_by(cit, lambda v: v[0] == 'const' and v[2] == 'bool' and v[1] == 0)
            res = {}
            for o in PARTIAL:
                evr = Evaluator(facts, classify=classify, assumption={'ev': o})
                if keep or drop:
                    rc = Reach(facts, cb, evr)
                    res[o] = (any(b in rc.reachable for b, _ in keep), any(b in rc.reachable for b, _ in drop))
                else:
                    v = closure_value(facts, cb, classify=classify, assumption={'ev': o})
                    res[o] = (v is not False, v is not True)
            det = {'ord(existing clock, put clock) -> (keep may, drop may)': res}
            done = True
            if not hit:
                ctx.fail('retain', cb, 'existing values are not filtered by comparing their clock with the Put clock', line=cb.line, details=det)
                continue
            errs = []
            for o in (GT, NONE):
                if res[o][1]:
                    errs.append('a value that is newer than or concurrent with the Put (%s) is evicted' % o)
            if res[LT][0]:
                errs.append('a value the Put has observed (Lt) is kept: a superseded write stays visible')
            if res[EQ][0]:
                errs.append('a value with the same clock as the Put (Eq) is kept: a re-delivered write is duplicated')
            ctx.check(not errs, 'retain', cb, 'kept exactly under {Gt, None}', errs[0] if errs else '', line=cb.line, details=det)
    # loop form: a complete loop over self.vals that keeps (pushes into the collection that becomes self.vals) or drops each item
    from .loops import loops_of, item_filter, keep_table
    for lp in ([] if done else loops_of(it)):
        if not lp.whole_over(1, (vf,)) or lp.early_exits():
            continue
        flt = item_filter(facts, it, lp, (vf,))
        if not flt:
            continue
        hit = []

        def classify(a, b, t):
            for x, y, orient in ((a, b, 'fwd'), (b, a, 'rev')):
                py = param_path(y)
                if _item_clock_side(x, vf) == 1 and py and py[0] == 2 and py[1][-1:] == ('Put.clock',):
                    hit.append(1)
                    return ('ev', orient)
            return None
        tab, _h = keep_table(facts, body, lp, flt[0], flt[1], lambda o: Evaluator(facts, classify=classify, assumption={'ev': o}), PARTIAL)
        res = {o: (tab[o][0], not tab[o][1]) for o in PARTIAL}     # (keep may, drop may)
        det = {'ord(existing clock, put clock) -> (keep may, drop may)': res}
        done = True
        line = block_line(it, lp.head)
        if not hit:
            ctx.fail('retain', body, 'existing values are not filtered by comparing their clock with the Put clock', line=line, details=det)
            continue
        errs = []
        for o in (GT, NONE):
            if res[o][1]:
                errs.append('a value that is newer than or concurrent with the Put (%s) is evicted' % o)
        if res[LT][0]:
            errs.append('a value the Put has observed (Lt) is kept: a superseded write stays visible')
        if res[EQ][0]:
            errs.append('a value with the same clock as the Put (Eq) is kept: a re-delivered write is duplicated')
        ctx.check(not errs, 'retain', body, 'kept exactly under {Gt, None} (loop form)', errs[0] if errs else '', line=line, details=det)
    if not done:
        ctx.fail('retain', body, 'MVReg::apply never filters self.vals against the Put clock')


@rule('MV-LIVE', {
    'C06': 'a Put with a real (non-empty) clock must reach the eviction and the store decision on every path: an early return on some '
           'other condition silently drops writes',
    'C08': 'same: a dominating Put that returns early never evicts what it observed',
    'C03': 'a write dropped by op delivery is kept by the merge of the writer\'s state: the two routes disagree',
    'C20': 'a Put with an empty clock carries no dot: stored, it is a value no later write is known to supersede (residue)',
}, floor=2)
def mv_live(ctx):
    """MVReg::apply: with a non-empty Put clock every path passes the eviction of superseded values and can reach the store of
    the Put; with an empty Put clock nothing is stored."""
    facts = ctx.facts
    vf = vals_field(facts)
    body = ctx.method(MVREG, 'CmRDT', 'apply')
    it = interp(facts, body)
    evicts, stores = [], []
    for bb, c in sorted(it.calls.items()):
        n = call_name(c.term)
        if n in ('retain', 'retain_mut') and c.args and param_path(c.args[0].val) == (1, (vf,)):
            evicts.append(bb)
        if n in ('push', 'insert', 'push_back', 'extend') and len(c.args) >= 2 and param_path(c.args[0].val) == (1, (vf,)):
            stores.append(bb)
    for (bb, si), w in it.writes.items():      # `self.vals = filtered` spelling of the eviction
        tgt = param_path(('field', ('param', 1), vf))
        from ..summaries import loc_target
        lt_ = loc_target(it, w.loc)
        if lt_ is not None and lt_[0] == 1 and tuple(lt_[1]) == (vf,) and lt_[2] == 'w':
            evicts.append(bb)

    from .loops import loops_of, item_filter
    for lp in loops_of(it):     # the eviction written as a loop over self.vals
        if lp.whole_over(1, (vf,)) and not lp.early_exits() and item_filter(facts, it, lp, (vf,)):
            evicts.append(lp.head)

    def atom(t):
        if is_call(t, 'is_empty') and len(t[2]) == 1:
            pp = param_path(t[2][0])
            if pp and pp[0] == 2 and pp[1][-1:] == ('Put.clock',):
                return 'E'
        return None
    if not evicts or not stores:
        ctx.shape('anchors', body, 'MVReg::apply: eviction (retain / reassignment of vals) or store (push) site not found')
        return
    live = Reach(facts, body, Evaluator(facts, bool_atom=atom, assumption={'E': False}))
    ok1 = live.must_pass(evicts) and any(b in live.reachable for b in stores)
    ctx.check(ok1, 'non-empty', body, 'a Put with a non-empty clock always evicts and can be stored',
              'a Put with a non-empty clock can return from apply without evicting the values it supersedes, or can never be stored'
              + (' (escape path %s)' % live.escape_path(evicts) if not live.must_pass(evicts) else ''), line=block_line(it, evicts[0]))
    dead = Reach(facts, body, Evaluator(facts, bool_atom=atom, assumption={'E': True}))
    ctx.check(not any(b in dead.reachable for b in stores), 'empty', body, 'a Put with an empty clock stores nothing',
              'a Put with an empty clock is stored: a value without any dot can only be superseded by accident', line=block_line(it, stores[0]))


@rule('MV-IGNORE', {
    'C03': 'a Put is stored by op delivery exactly when the merge of the writer\'s state would keep it',
    'C06': 'a Put is shown iff no applied write has superseded it',
    'C20': 'a stale Put stored on one replica and not on another with the same knowledge',
    'C08': 'a dominated Put arriving late must be ignored',
    'C09': 'a stale Put must not re-appear',
}, floor=1)
def mv_ignore(ctx):
    """MVReg::apply stores the Put iff no existing clock is strictly greater than the Put clock."""
    facts = ctx.facts
    vf = vals_field(facts)
    body = ctx.method(MVREG, 'CmRDT', 'apply')
    it = interp(facts, body)
    pushes = []
    for bb, c in it.calls.items():
        if call_name(c.term) in ('push', 'insert', 'push_back') and len(c.args) >= 2:
            pp = param_path(c.args[0].val)
            if pp and pp[0] == 1 and pp[1] == (vf,):
                v = versionless(c.args[-1].val)
                if v[0] == 'tuple' and len(v[1]) == 2 and param_path(v[1][0]) and param_path(v[1][0])[1][-1:] == ('Put.clock',) \
                        and param_path(v[1][1]) and param_path(v[1][1])[1][-1:] == ('Put.val',):
                    pushes.append(bb)
    if not pushes:
        ctx.fail('push', body, 'the Put (clock, val) is never stored in self.vals')
        return
    pb = pushes[0]
    line = block_line(it, pb)
    # find the guarding switch: nearest dominating switch on a plain local
    guard = None
    for d in sorted(it.dom[pb], key=lambda x: -it.rpo.index(x)):
        t = body.blocks[d]['term']
        if t['k'] == 'switch' and d != pb and t['discr']['k'] in ('copy', 'move') and not t['discr']['place']['proj']:
            sw = it.switches[d]
            if sw.discr[0] in ('lv', 'phi', 'const') or (sw.discr[0] == 'unop'):
                guard = (d, t['discr']['place']['local'])
                break
    hit = []

    def classify(a, b, t):
        for x, y, orient in ((a, b, 'fwd'), (b, a, 'rev')):
            py = param_path(y)
            if _item_clock_side(x, vf) == 1 and py and py[0] == 2 and py[1][-1:] == ('Put.clock',):
                hit.append(1)
                return ('dom', orient)
        return None
    # quantifier form (any / all / count == 0 / find().is_none(), directly in the condition or through a local or a
    # helper): in a register holding a single value whose clock is `o` relative to the Put, each quantifier is P(o)
    qatoms = {}
    qprob = []

    def qatom(t):
        if t[0] not in ('call', 'unop', 'binop', 'loopq'):
            return None
        q = quant(facts, t)
        if q is None:
            return None
        if not whole_iteration_over(q['src'], 1, (vf,)):
            qprob.append('the supersession scan does not range over every stored value')
            return None
        seen_ = []

        def cq(a, b, tt, m_=q['m']):
            sa, sb = subst(a, m_), subst(b, m_)
            for x, y, orient in ((sa, sb, 'fwd'), (sb, sa, 'rev')):
                py = param_path(y)
                if _item_clock_side(x, vf) == 1 and py and py[0] == 2 and py[1][-1:] == ('Put.clock',):
                    seen_.append(1)
                    return ('dom', orient)
            return None
        tb = {o: quant_value(facts, q, classify=cq, assumption={'dom': o}) for o in PARTIAL}
        if not seen_ or any(v is None for v in tb.values()):
            return None
        key = versionless(t)
        if key not in qatoms:
            tab = {o: (tb[o] != q['neg']) for o in PARTIAL}
            tab['empty'] = (q['kind'] == 'forall') != q['neg']     # no stored value at all: `all` holds, `any` does not
            qatoms[key] = ('q%d' % len(qatoms), tab)
        return qatoms[key][0]
    def qatom_e(t):
        # a Put with an empty clock is not stored at all (MV-LIVE): the storing obligation is about Puts that carry a clock
        if is_call(t, 'is_empty') and len(t[2]) == 1:
            pp_ = param_path(t[2][0])
            if pp_ and pp_[0] == 2 and pp_[1][-1:] == ('Put.clock',):
                return 'E'
        return qatom(t)
    Reach(facts, body, Evaluator(facts, bool_atom=qatom))
    if qatoms or qprob:
        res = {}
        for o in PARTIAL:
            rc = Reach(facts, body, Evaluator(facts, bool_atom=qatom_e, assumption=dict({n: tb[o] for n, tb in qatoms.values()}, E=False)))
            res[o] = (pb in rc.reachable, rc.must_pass([pb]))
        errs = list(qprob[:1])
        if not errs:
            if res[GT][0]:
                errs.append('a Put dominated by an existing value (Gt) is still stored: a superseded write is shown')
            bad = [o for o in (LT, EQ, NONE) if not res[o][0]]
            if bad:
                errs.append('a Put that is not dominated (%s) is ignored' % bad)
            lost = [o for o in (LT, EQ, NONE) if res[o][0] and not res[o][1]]
            if lost and not bad:
                errs.append('a Put that is not dominated (%s) can be dropped: a path under that case avoids the store' % lost)
            rc_e = Reach(facts, body, Evaluator(facts, bool_atom=qatom, assumption={n: tb['empty'] for n, tb in qatoms.values()}))
            if pb not in rc_e.reachable:
                errs.append('a Put into an empty register is ignored (the scan is a universal where an existential is needed)')
        ctx.check(not errs, 'push', body, 'Put stored iff no existing clock > Put clock (quantifier form)', errs[0] if errs else '',
                  line=line, details={'ord(existing clock, put clock) -> (store may, must)': res})
        return
    if guard is None:
        # quantifier idiom: `if !self.vals.iter().any(|(c, _)| c > &clock) { push }`
        for d in sorted(it.dom[pb], key=lambda x: -it.rpo.index(x)):
            sw = it.switches.get(d)
            if sw is None or d == pb:
                continue
            q = quantifier(facts, sw.discr, {})
            flipped = False
            if q is None:
                # the compiler may switch on `any(..)` itself and swap the targets
                q = quantifier(facts, ('unop', 'Not', drop_lv(sw.discr)), {})
                flipped = q is not None
            if q is None:
                continue
            xs, icb, im, pol = q
            if not whole_iteration_over(xs, 1, (vf,)):
                ctx.fail('push', body, 'the supersession scan does not range over every stored value', line=line)
                return
            seen = []

            def classify_q(a, b, tt, im=im):
                sa, sb = subst(a, im), subst(b, im)
                for x, y, orient in ((sa, sb, 'fwd'), (sb, sa, 'rev')):
                    py = param_path(y)
                    if _item_clock_side(x, vf) == 1 and py and py[0] == 2 and py[1][-1:] == ('Put.clock',):
                        seen.append(1)
                        return ('dom', orient)
                return None
            truth = {}
            for o in PARTIAL:
                truth[o] = Evaluator(facts, classify=classify_q, assumption={'dom': o}).ev(interp(facts, icb).ret)
            # which edge of the switch reaches the push: value of the quantifier result
            rc0 = Reach(facts, body, Evaluator(facts))
            on_true = None
            for val, tb in list(sw.targets) + [('other', sw.otherwise)]:
                if pb in rc0._reach(tb, set()):
                    if val == 'other':
                        on_true = [v for v, _ in sw.targets] == [0]
                    else:
                        on_true = bool(val)
            if flipped and on_true is not None:
                on_true = not on_true
            blocked = set(o for o, v in truth.items() if (v if pol == 'none' else not v))   # outcomes for which some y blocks
            # quantifier result is true iff no y blocks (pol none: `count==0`/`!any`; pol all: all true)
            errs = []
            if not seen or any(v is None for v in truth.values()) or on_true is None:
                errs.append('the guard of the store is not a scan comparing every stored clock with the Put clock')
            elif not on_true:
                errs.append('the Put is stored when some existing value supersedes it and ignored otherwise')
            else:
                if GT not in blocked:
                    errs.append('a Put dominated by an existing value (Gt) is still stored: a superseded write is shown')
                if blocked - {GT}:
                    errs.append('a Put that is not dominated (%s) is ignored' % sorted(blocked - {GT}))
            ctx.check(not errs, 'push', body, 'Put stored iff no existing clock > Put clock (quantifier form)', errs[0] if errs else '',
                      line=line, details={'existing clock vs put clock -> predicate': truth, 'polarity': pol})
            return
        ctx.fail('push', body, 'the Put is stored without checking whether an existing value supersedes it', line=line)
        return
    gbb, flag = guard

    def defs_of(local):
        out = []
        for bi in it.rpo:
            for s in body.blocks[bi]['stmts']:
                if s['k'] == 'assign' and s['place']['local'] == local and not s['place']['proj']:
                    out.append((bi, s['rv']))
        return out
    # the switch may test a temporary copy of the flag: follow single copies
    for _ in range(4):
        ds = defs_of(flag)
        if len(ds) == 1 and ds[0][1]['k'] == 'use' and ds[0][1]['op']['k'] in ('copy', 'move') and not ds[0][1]['op']['place']['proj']:
            flag = ds[0][1]['op']['place']['local']
        else:
            break
    defs = []
    for bi, rv in defs_of(flag):
        val = None
        if rv['k'] == 'use' and rv['op']['k'] == 'const':
            val = rv['op']['val']
        defs.append((bi, val))
    if not defs or any(v not in (0, 1) for _, v in defs):
        ctx.shape('push', body, 'the store of the Put is guarded by a computed flag whose definitions are not constants', line=line)
        return
    # which edge of the guard leads to the push
    rc0 = Reach(facts, body, Evaluator(facts))
    sw = it.switches[gbb]
    edge_val = None
    for val, tb in list(sw.targets) + [('other', sw.otherwise)]:
        if pb in rc0._reach(tb, set()) and tb != gbb:
            edge_val = val if edge_val is None else 'both'
    push_on = None
    if edge_val == 'other':
        vals = [v for v, _ in sw.targets]
        push_on = 1 if vals == [0] else (0 if vals == [1] else None)
    elif edge_val in (0, 1):
        push_on = edge_val
    if push_on is None:
        ctx.fail('push', body, 'the store of the Put does not depend on the supersession flag', line=line)
        return
    kill_defs = [b for b, v in defs if v != push_on]
    init_defs = [b for b, v in defs if v == push_on]
    res = {}
    fr = iteration_frame(it, kill_defs[0]) if kill_defs else None
    for o in PARTIAL:
        rc = Reach(facts, body, Evaluator(facts, classify=classify, assumption={'dom': o}))
        if fr:
            inner = rc._reach(fr[0], {fr[1]})
            res[o] = (any(b in inner for b in kill_defs), rc.must_pass(kill_defs, start=fr[0], stops=(fr[1],)))
        else:
            res[o] = (False, False)
    det = {'ord(existing clock, put clock) -> (flag cleared may, must)': res}
    errs = []
    if not kill_defs or fr is None or not hit:
        errs.append('no scan over the existing values clears the flag when one of them supersedes the Put')
    else:
        if not whole_iteration_over(fr[2], 1, (vf,)):
            errs.append('the supersession scan does not range over every stored value')
        if not res[GT][1]:
            errs.append('a Put dominated by an existing value (Gt) is still stored: a superseded write is shown')
        for o in (LT, EQ, NONE):
            if res[o][0]:
                errs.append('a Put that is not dominated (%s) is ignored' % o)
                break
        if not all(b in it.dom[fr[1]] for b in init_defs):
            errs.append('the flag is not initialised before the scan')
    ctx.check(not errs, 'push', body, 'Put stored iff no existing clock > Put clock (flag cleared exactly under {Gt})',
              errs[0] if errs else '', line=line, details=det)


@rule('MV-WRITE', {
    'C06': 'a write made with the context of a read must carry the whole read clock so that it replaces what the read returned',
    'C07': 'the op is built from the context clock',
}, floor=1)
def mv_write(ctx):
    """MVReg::write(val, ctx) = Put{clock: ctx.clock, val}."""
    facts = ctx.facts
    body = ctx.inherent(MVREG, 'write')
    it = interp(facts, body)
    r = drop_lv(it.ret)
    ok = False
    if r[0] == 'agg' and r[2] == 'Put':
        f = dict(r[3])
        pc, pv = param_path(f.get('clock', ('undef',))), param_path(f.get('val', ('undef',)))
        if pc and pv and pc[1] == ('clock',) and pv[1] == ():
            cty = body.locals[pc[0]]['ty']
            ok = cty.get('k') == 'adt' and cty['path'].endswith('ctx::AddCtx') and pv[0] != pc[0]
            # the clock must be the context clock itself, not a version of it that some call has modified (glb, reset_remove, ..)
            raw = f['clock']
            while raw[0] in ('lv', 'at'):
                raw = raw[3] if raw[0] == 'lv' else raw[2]
            if raw != ('field', ('param', pc[0]), 'clock'):
                ok = False
    ctx.check(ok, 'write', body, 'Put{clock: ctx.clock, val}', 'MVReg::write builds %s, expected Put{clock: ctx.clock, val: val}' % fmt(r))


def _join_loop_form(facts, t, vf, body):
    """t is an accumulator local: initialised to the empty clock, and merged with the clock of every item of a loop
    over all of self.vals (unconditionally, and nothing else touches it inside the loop)."""
    from .loops import loops_of
    from ..ordset import Reach, Evaluator
    if t[0] == 'call' and cinfo(t[1])['local'] and len(t[2]) == 1 and param_path(t[2][0]) == (1, ()):
        cb = facts.cb(cinfo(t[1])['uid'])
        if cb is None or cb.derived:
            return False
        return _join_loop_form(facts, interp(facts, cb).ret, vf, cb)
    if t[0] != 'lv':
        return False
    head, local, init = t[1], t[2], drop_lv(t[3])
    if not (init[0] == 'call' and cinfo(init[1])['name'] in ('new', 'default') and 'VClock' in (init[1] or '')):
        return False
    it = interp(facts, body)
    lp = [l for l in loops_of(it) if l.head == head]
    if not lp or not lp[0].whole_over(1, (vf,)) or lp[0].early_exits():
        return False
    lp = lp[0]
    sites, other = [], []
    for (bb, ai), w in it.muts.items():
        if bb in lp.blocks and w.loc[0] == ('L', int(local[1:])):
            c = it.calls[bb]
            a1 = c.args[1].val if len(c.args) == 2 else None
            src = as_item(versionless(a1)[1]) if a1 is not None and versionless(a1)[0] == 'field' and versionless(a1)[2] == '0' else None
            if ai == 0 and is_call(c.term, 'merge', self_adt='VClock') and src is not None and versionless(src) == versionless(lp.src):
                sites.append(bb)
            else:
                other.append(bb)
    for (bb, si), w in it.writes.items():
        if bb in lp.blocks and w.loc[0] == ('L', int(local[1:])) and not (w.val[0] == 'lv' or versionless(w.val) == versionless(t)):
            other.append(bb)
    if other or not sites:
        return False
    if lp.must(Reach(facts, body, Evaluator(facts)), sites):
        return True
    # a clock may be skipped when it is empty (joining it changes nothing): decided with `item clock is empty` as the assumption

    def empty_atom(t):
        if is_call(t, 'is_empty', self_adt='VClock') and len(t[2]) == 1:
            x = versionless(t[2][0])
            src = as_item(x[1]) if x[0] == 'field' and x[2] == '0' else None
            if src is not None and versionless(src) == versionless(lp.src):
                return 'empty'
        return None
    ev_ = Evaluator(facts, bool_atom=empty_atom, assumption={'empty': False})
    return lp.must(Reach(facts, body, ev_), sites) and 'empty' in ev_.hits


def _join_of_vals(facts, t, vf, body=None):
    """t == fold over all of self.vals joining every value clock."""
    # a field of the ReadCtx another read of self returns (`let ReadCtx { add_clock, .. } = self.read_ctx()`): look inside
    from ..ordset import local_summary
    from ..interp import proj
    for _ in range(4):
        x = t
        while x[0] in ('lv', 'at'):
            x = x[3] if x[0] == 'lv' else x[2]
        if x[0] == 'field' and x[1][0] == 'call' and cinfo(x[1][1])['local'] and len(x[1][2]) == 1 and param_path(x[1][2][0]) == (1, ()):
            sm = local_summary(facts, x[1])
            if sm is None:
                break
            t = proj(drop_lv(sm), x[2])
            continue
        break
    if body is not None and _join_loop_form(facts, t, vf, body):
        return True
    t = expand_all(facts, t, stop=())
    t = drop_lv(t)
    if not (is_call(t, 'fold') and len(t[2]) == 3):
        return False
    if not whole_iteration_over(t[2][0], 1, (vf,)):
        return False
    for clo, m in closure_bindings(t):
        cb = facts.cb(clo[1])
        if cb is None:
            return False
        cit = interp(facts, cb)
        r = subst(cit.ret, m)
        r = drop_lv(r)
        if r[0] == 'post' and is_call(r[1], 'merge', self_adt='VClock') and r[2] == 0:
            a0, a1 = r[1][2]
            if a0[0] == 'acc' and _item_clock_side(a1, vf) == 1:
                return True
    return False


@rule('MV-READ', floor=2, **read_attribution({
    'C06': 'read returns every stored value, and its context is the join of all value clocks (so a write replaces all of them)',
    'C07': 'add and remove context of a register read are both that join',
}, module='mvreg'))
def mv_read(ctx):
    """MVReg::read / read_ctx: val = every stored value; add_clock = rm_clock = join of all value clocks."""
    facts = ctx.facts
    vf = vals_field(facts)
    for name in ('read', 'read_ctx'):
        body = ctx.inherent(MVREG, name)
        it = interp(facts, body)
        r = drop_lv(it.ret)
        raw0 = it.ret
        if not (r[0] == 'agg' and r[1] == READCTX):
            # an empty register answered directly: judge the general path (the empty answer must be the empty context)
            g_ = general_ret(facts, body, {'vals': (1, (vf,))})
            if g_ is not None:
                r, raw0 = drop_lv(g_), g_
        if not (r[0] == 'agg' and r[1] == READCTX):
            ctx.fail(name, body, 'does not return a ReadCtx')
            continue
        f = dict(r[3])
        while raw0[0] in ('lv', 'at'):
            raw0 = raw0[3] if raw0[0] == 'lv' else raw0[2]
        fr = dict(raw0[3]) if raw0[0] == 'agg' else f     # un-peeled fields keep the identity of an accumulator local

        def unclone(x):
            while x[0] == 'at' or (x[0] == 'call' and call_name(x) in ('clone', 'to_owned') and len(x[2]) == 1):
                x = x[2] if x[0] == 'at' else x[2][0]
            return x
        a_ok = _join_of_vals(facts, f['add_clock'], vf, body) or _join_of_vals(facts, unclone(fr['add_clock']), vf, body)
        r_ok = _join_of_vals(facts, f['rm_clock'], vf, body) or _join_of_vals(facts, unclone(fr['rm_clock']), vf, body)
        v_ok = True
        if name == 'read':
            v = f['val']
            v_ok = False
            if is_call(v, 'collect') and v[2]:
                src = v[2][0]
                base, kind, clo = iter_source(src)
                if whole_iteration_over(src, 1, (vf,)):
                    if clo:
                        for n, cl in clo:
                            if cl and cl[0] == 'closure':
                                cb = facts.cb(cl[1])
                                cr = interp(facts, cb).ret
                                if versionless(cr) == ('field', ('param', 2), '1'):
                                    v_ok = True
            if not v_ok:
                # the same list filled by a loop: one push of the item's value per iteration of a complete loop over self.vals
                from .loops import loop_collected
                raw = it.ret
                while raw[0] in ('lv', 'at'):
                    raw = raw[3] if raw[0] == 'lv' else raw[2]
                lc = loop_collected(facts, body, it, dict(raw[3]).get('val', v)) if raw[0] == 'agg' else None
                if lc is not None and len(lc[1]) == 1 and lc[0].whole_over(1, (vf,)) and not lc[0].source()[2]:
                    x = drop_lv(lc[1][0])
                    while is_call(x, ('clone', 'cloned', 'copied', 'to_owned')) and len(x[2]) == 1:
                        x = drop_lv(x[2][0])
                    src_ = as_item(x[1]) if x[0] == 'field' and x[2] == '1' else None
                    v_ok = src_ is not None and versionless(src_) == versionless(lc[0].src)
        errs = []
        if not a_ok:
            errs.append('add_clock is not the join of all value clocks')
        if not r_ok:
            errs.append('rm_clock is not the join of all value clocks')
        if not v_ok:
            errs.append('val is not the list of every stored value')
        ctx.check(not errs, name, body, 'contexts = join of value clocks; val = all values', errs[0] if errs else '',
                  details={'ret': fmt(r, 6)})


@rule('MV-EQ', {
    'C20': 'replicas that learned the same writes must compare equal whatever the order in which the values are stored',
}, floor=1)
def mv_eq(ctx):
    """MVReg::eq is order-insensitive set equality: false exactly when some value of one side has no equal on the other
    side, both directions scanned over all values."""
    facts = ctx.facts
    vf = vals_field(facts)
    body = ctx.method(MVREG, 'PartialEq', 'eq')
    it = interp(facts, body)
    false_s = ret_sites_by(it, lambda v: v[0] == 'const' and v[2] == 'bool' and v[1] == 0)
    true_s = ret_sites_by(it, lambda v: v[0] == 'const' and v[2] == 'bool' and v[1] == 1)
    scans = {}
    atom_hits = {}

    def atom(t):
        # `self.vals.len() == other.vals.len()`: holds when every value of each side occurs exactly once on the other side (the
        # only world that assumes it); decides nothing elsewhere
        if t[0] == 'binop' and t[1] in ('Eq', 'Ne'):
            l_, r_ = drop_lv(t[2]), drop_lv(t[3])
            if is_call(l_, 'len') and is_call(r_, 'len') and len(l_[2]) == 1 and len(r_[2]) == 1:
                pl, pr = param_path(versionless(l_[2][0])), param_path(versionless(r_[2][0]))
                if pl and pr and {pl[0], pr[0]} == {1, 2} and pl[1] == pr[1] == (vf,):
                    return 'leneq' if t[1] == 'Eq' else ('not', 'leneq')
        # `count(filter(iter(X.vals), |d| d == outer item))`: how often the outer item occurs on the other side (0, 1, 2 = more)
        x = t
        if is_call(x, 'count') and x[2] and is_call(x[2][0], 'filter'):
            f = x[2][0]
            inner_side = param_path(iter_source(f[2][0])[0])
            if not inner_side or inner_side[1] != (vf,) or set(iter_adaptors(f[2][0])) & LOSSY_ADAPTORS:
                return None
            for clo, m in closure_bindings(f):
                cb = facts.cb(clo[1])
                cr = drop_lv(subst(interp(facts, cb).ret, m))
                if cr[0] == 'call' and cinfo(cr[1])['name'] == 'eq' and len(cr[2]) == 2:
                    a, b = versionless(cr[2][0]), versionless(cr[2][1])
                    outer = [z for z in (a, b) if z[0] != 'item' and as_item(z) is not None]
                    inner = [z for z in (a, b) if z[0] == 'item']
                    if outer and inner:
                        os_ = param_path(iter_source(as_item(outer[0]))[0])
                        if os_ and os_[0] != inner_side[0] and os_[1] == (vf,) and whole_iteration_over(as_item(outer[0]), os_[0], (vf,)):
                            scans[os_[0]] = True
                            atom_hits[os_[0]] = True
                            return ('map', 'found%d' % os_[0], {0: 0, 1: 1, 2: 2})
        return None
    res = {}
    must_true = None
    for c1 in (0, 1, 2):
        for c2 in (0, 1, 2):
            rc = Reach(facts, body, Evaluator(facts, bool_atom=atom, assumption=dict({'found1': c1, 'found2': c2}, **({'leneq': True} if (c1, c2) == (1, 1) else {}))))
            # the constants the function can return on the surviving paths (the result may travel through locals: `a && b`,
            # a helper's return value)
            vals = set()
            for rb in rc.return_blocks():
                if rb in rc.reachable:
                    vals |= set(rc._values_at(0, rb))
            res[(c1, c2)] = (0 in vals or None in vals, 1 in vals or None in vals)
            if (c1, c2) == (1, 1):
                panics = [bi for bi, blk in enumerate(body.blocks) if not blk.get('cleanup') and blk['term'].get('k') == 'call'
                          and blk['term'].get('target') is None]
                must_true = vals == {1} and not any(b in rc.reachable for b in panics)
    errs = []
    if set(scans) != {1, 2}:
        errs.append('equality does not look for every value of each side among the values of the other side (scanned sides: %s)' % sorted(scans))
    else:
        if res[(1, 1)][0] or not res[(1, 1)][1]:
            errs.append('registers holding the same values can compare unequal')
        elif not must_true:
            errs.append('comparing registers that hold the same values (each found exactly once on the other side) can fail to return '
                        'true (a path diverges)')
        if res[(0, 1)][1] and not res[(0, 1)][0]:
            errs.append('a value of self missing from other does not make the registers unequal')
        if not res[(0, 1)][0] or not res[(1, 0)][0]:
            errs.append('a value present on one side only does not make the registers unequal')
        # .. on every path: once some value has no equal on the other side, `true` is out of reach
        if not errs:
            from .loops import loops_of
            fsites = [b for b, _ in false_s]
            for lp in loops_of(it):
                side = 1 if lp.whole_over(1, (vf,)) else 2 if lp.whole_over(2, (vf,)) else None
                if side is None or not any(b in lp.blocks or True for b in fsites):
                    continue
                # an iteration that finds no equal for its value ends the comparison with `false`, on every path; nothing else
                # cuts the scan short
                rc0_ = Reach(facts, body, Evaluator(facts, bool_atom=atom, assumption={'found%d' % side: 0}))
                panics_ = [bi for bi, blk in enumerate(body.blocks) if not blk.get('cleanup') and blk['term'].get('k') == 'call'
                           and blk['term'].get('target') is None]
                if atom_hits.get(side) and (not lp.must(rc0_, fsites) or any(b in lp.inner(rc0_) for b in panics_)):
                    errs.append('a value of side %d without an equal on the other side does not always end the comparison with false '
                                '(a path goes on, or panics)' % side)
                rc1_ = Reach(facts, body, Evaluator(facts, bool_atom=atom, assumption={'found%d' % side: 1}))
                inner_ = lp.inner(rc1_)
                edges_ = rc1_.rel_edges(lp.start, (lp.head,))
                leaving = [e for e in lp.early_exits() if e in inner_ and any(
                    y not in lp.blocks and body.blocks[y]['term']['k'] != 'unreachable' for y in edges_.get(e, []))]
                if atom_hits.get(side) and leaving:
                    errs.append('the scan over side %d can stop before every value was looked for on the other side' % side)
    if not errs:
        # .. and `true` is never answered on a path that has not run both scans (a shortcut may answer `false` - different
        # lengths - but never `true`)
        from .loops import loops_of
        empt = emptiness_atom({'e1': (1, (vf,)), 'e2': (2, (vf,))})
        # a side that is empty needs no scan (`if a.is_empty() && b.is_empty() { return true }`); a side that is not must be scanned
        for e1, e2 in ((False, False), (True, False), (False, True)):
            rcu = Reach(facts, body, Evaluator(facts, bool_atom=empt, assumption={'e1': e1, 'e2': e2}))
            for lp in loops_of(it):
                side = 1 if lp.whole_over(1, (vf,)) else 2 if lp.whole_over(2, (vf,)) else None
                if side is None or not atom_hits.get(side) or (e1, e2)[side - 1]:
                    continue
                region = rcu._reach(0, {lp.head})
                for rb in rcu.return_blocks():
                    if rb in region:
                        vals_ = rcu._values_at(0, rb, 0, region, 0)
                        if 1 in vals_ or None in vals_:
                            errs.append('equality can be answered with `true` on a path that never scans the values of side %d' % side)
                            break
                if errs:
                    break
            if errs:
                break
    ctx.check(not errs, 'eq', body, 'order-insensitive set equality over both sides', errs[0] if errs else '',
              details={'(times an own value occurs in other, times a value of other occurs in own) -> (false may, true may)': {str(k): v for k, v in res.items()}})
