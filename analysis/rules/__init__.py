from . import gates, removes  # noqa
