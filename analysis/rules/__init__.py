from . import gates, removes, merge, vclock, mvreg, ctx, counters, seqmerkle  # noqa
