from . import gates, removes, merge, vclock, mvreg, ctx, counters, seqmerkle, validation, reset_serde, access, coverage  # noqa
