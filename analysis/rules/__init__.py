from . import gates, removes, merge, vclock, mvreg  # noqa
