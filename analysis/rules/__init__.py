from . import gates  # noqa
