from . import gates, removes, merge, vclock  # noqa
