from . import gates, removes, merge  # noqa
