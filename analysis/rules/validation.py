"""A.9 — validate_op / validate_merge: what is consulted and under which outcome Err is returned."""
from ..core import rule
from ..terms import drop_lv
from .common import *
from .gates import _gate_eval, GATED, _stamp_sites
from .removes import roles

INFALLIBLE = 'std::convert::Infallible'


def _validation_types(facts, trait):
    """adt path -> resolved Validation type string of its `trait` impl (aliases through other impls followed)."""
    raw = {}
    for i in facts.impls:
        if i['trait'] and i['trait'].endswith('traits::' + trait) and i['self_key'].startswith('crdts::'):
            raw[i['self_key']] = i['assoc_tys'].get('Validation', {}).get('s')
    out = {}
    for k, s in raw.items():
        seen = 0
        while s and s.startswith('<') and ' as ' in s and seen < 5:
            inner = s[1:].split(' as ')[0]
            base = inner.split('<')[0]
            cand = [kk for kk in raw if kk.endswith(base)]
            which = 'CmRDT' if 'CmRDT' in s else 'CvRDT'
            if not cand:
                break
            if which == trait:
                s = raw[cand[0]]
            else:
                s = _validation_types(facts, which).get(cand[0])
            seen += 1
        out[k] = s
    return out


@rule('VAL-SIBLING', {
    'C16': 'validate_op must check dot continuity against the clock the apply gate consults, and nothing else: '
           'a check against another clock rejects in-order ops or accepts gaps',
}, floor=3)
def val_sibling(ctx):
    """Engler-style sibling cross-check: every VClock::validate_op(recv, dot) inside a CmRDT::validate_op uses the
    receiver that the apply gate of the same type reads, with the op's dot; the check is on every path of the dot-carrying arm."""
    facts = ctx.facts
    for inst, adt, op_adt, vs in GATED:
        ab = ctx.method(adt, 'CmRDT', 'apply')
        found = []
        _gate_eval(ctx, ab, op_adt, vs[0], LT, found)
        if not found:
            ctx.shape(inst, ab, 'no dot gate in apply (see GATE)')
            continue
        gate_clock = param_path(found[0]['clock'])
        vb = ctx.method(adt, 'CmRDT', 'validate_op')
        it = interp(facts, vb)
        calls = [(bb, c) for bb, c in sorted(it.calls.items()) if is_call(c.term, 'validate_op', self_adt='VClock') and len(c.args) == 2]
        good, bad = [], []
        for bb, c in calls:
            pr = param_path(c.args[0].val)
            if pr == gate_clock and drop_lv(c.args[0].val) == drop_lv(found[0]['clock']):
                good.append(bb)
            else:
                bad.append((bb, c))
        for bb, c in bad:
            ctx.fail('%s/foreign-clock' % inst, vb,
                     'validate_op checks dot continuity against %s, but apply only gates on %s: an in-order op can be rejected '
                     '(or a gap accepted)' % (fmt(versionless(c.args[0].val), 5), fmt(found[0]['clock'], 3)), line=c.line,
                     details={'receiver': fmt(c.args[0].val, 6), 'gate_clock': fmt(found[0]['clock'], 3)})
        if not good:
            ctx.fail(inst, vb, 'validate_op never checks dot continuity against the replica clock %s' % fmt(found[0]['clock'], 3))
            continue
        vn = variants(facts, op_adt)
        errs = []
        for v in vs:
            rc = Reach(facts, vb, Evaluator(facts, bool_atom=discr_atom_of_param(2), assumption={'variant': vn.index(v)}))
            if not rc.must_pass(good):
                errs.append('a path of the %s arm skips the continuity check' % v)
        # the dot passed is the op's dot, and the verdict reaches the result
        for bb in good:
            d = versionless(it.calls[bb].args[1].val)
            ok_dot = (param_path(d) and param_path(d)[0] == 2) or (is_call(d, 'dot') and versionless(d[2][0]) == ('param', 2))
            if not ok_dot:
                errs.append('the dot checked (%s) is not the dot of the op' % fmt(d, 3))
            if not any(st == it.calls[bb].term for st in subterms(it.ret)):
                errs.append('the verdict of the continuity check is dropped')
        # .. on every path: whenever the continuity check says Err, the function returns an Err (whatever else it looks at)
        if not errs:
            for v in vs:
                esc = err_verdict_escapes(facts, vb, it, good, base_atom=discr_atom_of_param(2), assumption={'variant': vn.index(v)})
                if esc:
                    errs.append('a path of the %s arm returns %s although the continuity check failed' % (v, esc))
        ctx.check(not errs, inst, vb, 'continuity checked against the gate clock on every path of the dot-carrying arm', errs[0] if errs else '',
                  line=block_line(it, good[0]))


@rule('VAL-RM-OK', {
    'C16': 'remove ops may arrive in any order (they are deferred), so validate_op must accept them',
}, floor=2)
def val_rm_ok(ctx):
    """Orswot/Map validate_op returns Ok for every Rm op."""
    facts = ctx.facts
    for inst, adt, op_adt in (('orswot', ORSWOT, 'crdts::orswot::Op'), ('map', MAP, 'crdts::map::Op')):
        vb = ctx.method(adt, 'CmRDT', 'validate_op')
        it = interp(facts, vb)
        vn = variants(facts, op_adt)
        rc = Reach(facts, vb, Evaluator(facts, bool_atom=discr_atom_of_param(2), assumption={'variant': vn.index('Rm')}))
        vals = [alt for (bb, si), w in it.ret_assigns.items() if bb in rc.reachable for alt in phi_alts(w.val)]
        ok = bool(vals) and all(is_variant(v, 'result::Result', 'Ok') for v in vals)
        ctx.check(ok, inst, vb, 'Rm -> Ok(())', 'validate_op can reject a remove op: %s' % [fmt(v, 3) for v in vals if not is_variant(v, 'result::Result', 'Ok')])


@rule('VAL-NESTED', {
    'C16': 'Map must forward the nested op to the nested value\'s validate_op (and wrap its error)',
}, floor=1)
def val_nested(ctx):
    """Map::validate_op(Up) forwards op.op to entries[key].val (or default).validate_op."""
    facts = ctx.facts
    vb = ctx.method(MAP, 'CmRDT', 'validate_op')
    it = interp(facts, vb)
    good = []
    for bb, c in it.calls.items():
        info = cinfo(c.cid)
        if info['name'] == 'validate_op' and (info['trait'] or '').endswith('CmRDT') and info['self'] is None and len(c.args) == 2:
            pa = param_path(c.args[1].val)
            ev = elem_value_of(c.args[0].val)
            if pa and pa[0] == 2 and pa[1][-1:] == ('Up.op',) and ev and tuple(ev[3]) == ('val',) and param_path(ev[1]) and param_path(ev[1])[1][-1:] == ('Up.key',):
                good.append(bb)
    used = any(st == it.calls[b].term for b in good for st in subterms(it.ret))
    vn_ = variants(facts, 'crdts::map::Op')
    # every nested verdict counts (the value under the key, or a fresh default when the key is absent)
    every = [bb for bb, c in it.calls.items() if cinfo(c.cid)['name'] == 'validate_op' and (cinfo(c.cid)['trait'] or '').endswith('CmRDT')
             and cinfo(c.cid)['self'] is None and len(c.args) == 2 and param_path(c.args[1].val) and param_path(c.args[1].val)[1][-1:] == ('Up.op',)]
    esc = err_verdict_escapes(facts, vb, it, sorted(set(good) | set(every)), base_atom=discr_atom_of_param(2), assumption={'variant': vn_.index('Up')}) if good and used else []
    ctx.check(bool(good) and used and not esc, 'map', vb, 'nested op forwarded to the value stored under op.key, its Err always returned',
              'Map::validate_op does not forward the nested op to entries[key].val.validate_op' if not (good and used) else
              'Map::validate_op can return %s although the nested value rejected the op' % esc)


@rule('VAL-INFALLIBLE', {
    'C16': 'types without ordering needs accept everything: with Validation = Infallible an Err cannot even be constructed',
    'C17': 'same for validate_merge of the types that cannot conflict',
}, floor=16)
def val_infallible(ctx):
    """The order-free types have CmRDT::Validation = Infallible (7) and the conflict-free ones CvRDT::Validation = Infallible (9)."""
    facts = ctx.facts
    cm = _validation_types(facts, 'CmRDT')
    cv = _validation_types(facts, 'CvRDT')
    for adt in (GCOUNTER, PNCOUNTER, GSET, MAXREG, MINREG, MVREG, GLIST):
        b = facts.trait_impl_method(adt, 'CmRDT', 'validate_op')
        ctx.check(cm.get(adt) == INFALLIBLE, 'CmRDT/' + adt.split('::')[-1], b, 'Validation = Infallible',
                  '%s::validate_op can now fail (Validation = %s) although the type needs no delivery order' % (adt, cm.get(adt)), props=['C16'], nontrivial=False)
    for adt in (VCLOCK, GCOUNTER, PNCOUNTER, GSET, MAXREG, MINREG, MVREG, GLIST, MERKLE):
        b = facts.trait_impl_method(adt, 'CvRDT', 'validate_merge')
        ctx.check(cv.get(adt) == INFALLIBLE, 'CvRDT/' + adt.split('::')[-1], b, 'Validation = Infallible',
                  '%s::validate_merge can now fail (Validation = %s)' % (adt, cv.get(adt)), props=['C17'], nontrivial=False)


@rule('VM-COND', {
    'C17': 'validate_merge must flag exactly a dot that witnesses two different elements, scanning all pairs',
}, floor=2)
def vm_cond(ctx):
    """Orswot/Map validate_merge: Err(DoubleSpentDot) exactly when the elements differ and other's clock has the same
    counter for the dot's actor; all pairs of entries and all dots are scanned; Map recurses only for equal keys with concurrent clocks."""
    facts = ctx.facts
    for inst, adt in (('orswot', ORSWOT), ('map', MAP)):
        r = roles(facts, adt)
        sub = () if inst == 'orswot' else ('clock',)
        vb = ctx.method(adt, 'CvRDT', 'validate_merge')
        it = interp(facts, vb)
        errs_s = build_sites(it, lambda v: is_variant(v, 'result::Result', 'Err') and v[3][0][1][0] == 'agg' and v[3][0][1][2] == 'DoubleSpentDot')
        if not errs_s:
            ctx.fail(inst, vb, 'validate_merge never reports DoubleSpentDot')
            continue
        info = {}

        def side_key(t):
            e = elem_of(t)
            if e and e[2] == 'key' and param_path(e[0]) and param_path(e[0])[1] == (r['entries'],):
                return param_path(e[0])[0]
            return None

        def atom(t):
            if t[0] == 'call' and cinfo(t[1])['name'] in ('eq', 'ne') and len(t[2]) == 2:
                sa, sb = side_key(t[2][0]), side_key(t[2][1])
                if sa and sb and {sa, sb} == {1, 2}:
                    return 'same' if cinfo(t[1])['name'] == 'eq' else ('not', 'same')
            if is_call(t, 'concurrent') and len(t[2]) == 2:
                sides = set()
                for a in t[2]:
                    ev = elem_value_of(a)
                    if ev and param_path(ev[0]) and param_path(ev[0])[1] == (r['entries'],) and tuple(ev[3]) == tuple(sub):
                        sides.add(param_path(ev[0])[0])
                if sides == {1, 2}:
                    return 'conc'
                info['bad_conc'] = fmt(t, 4)
                return None
            return None

        def classify(a, b, t):
            for x, y, orient in ((a, b, 'fwd'), (b, a, 'rev')):
                cg = clock_get_of(x)
                if cg is not None:
                    k, v = versionless(cg[1]), versionless(y)
                    if k[0] == 'field' and k[2] == 'actor' and v == ('field', k[1], 'counter'):
                        ev = elem_value_of(cg[0])
                        src = as_item(k[1])
                        if ev and param_path(ev[0]) and src is not None:
                            dsrc = elem_value_of(iter_source(src)[0])
                            info['clock_side'] = param_path(ev[0])[0]
                            info['dot_side'] = param_path(dsrc[0])[0] if dsrc and param_path(dsrc[0]) else None
                            info['dot_iter'] = src
                            return ('dot', orient)
            return None
        ebs = [b for b, _ in errs_s]
        table = {}
        # frame: innermost loop around the comparison
        fr = None
        for bb, c in sorted(it.calls.items()):
            a0_ = versionless(c.args[0].val) if c.args else ('top',)
            if is_call(c.term, 'get', self_adt='VClock') or (is_call(c.term, 'get') and a0_[0] == 'field' and a0_[2] == 'dots'):
                fr = iteration_frame(it, bb)
        # "may" is judged over one iteration of the loop over the other side's entries (the element comparison may be
        # hoisted out of the dot loop); "must" over one iteration of the dot loop
        from .loops import loops_of
        outer = None
        for lp in loops_of(it):
            if lp.whole_over(2, (r['entries'],)) or (param_path(lp.source()[0]) and param_path(lp.source()[0])[:2] == (2, (r['entries'],))):
                outer = lp
        for same in (True, False):
            for o in TOTAL:
                rc = Reach(facts, vb, Evaluator(facts, classify=classify, bool_atom=atom, assumption={'same': same, 'dot': o, 'conc': False}))
                if fr:
                    inner = rc._reach(fr[0], {fr[1]})
                    may = any(b in inner for b in ebs)
                    if outer is not None:
                        may = outer.may(rc, ebs)
                    table[(same, o)] = (may, rc.must_pass(ebs, start=fr[0], stops=(fr[1],)))
                else:
                    table[(same, o)] = (any(b in rc.reachable for b in ebs), False)
        det = {'(same element, ord(other_clock.get(actor), counter)) -> (Err may, must)': {str(k): v for k, v in table.items()}}
        errs = []
        if 'clock_side' not in info or fr is None:
            errs.append('no per-dot comparison of one side\'s witness counter with the other side\'s clock')
        else:
            if not table[(False, EQ)][1]:
                errs.append('a dot that witnesses two different elements is not reported')
            for k, v in table.items():
                if k != (False, EQ) and v[0]:
                    errs.append('DoubleSpentDot is reported for %s element and counter ordering %s' % ('the same' if k[0] else 'a different', k[1]))
                    break
            if {info.get('clock_side'), info.get('dot_side')} != {1, 2}:
                errs.append('the dots of one state are not compared with the clocks of the other state')
            # all three loops range over whole collections
            loops_ok = bool(info.get('dot_side')) and not (set(iter_adaptors(info['dot_iter'])) & LOSSY_ADAPTORS)
            heads = []
            cur = fr
            n_whole = 0
            for (u, h) in it.back_edges:
                sw = None
            for bb2, sw in it.switches.items():
                if sw.discr[0] == 'discr':
                    src = as_item(('field', sw.discr[1], 'Some.0'))
                    if src is not None:
                        b = iter_source(src)[0]
                        pp = param_path(b)
                        if pp and pp[1] == (r['entries'],) and not (set(iter_adaptors(src)) & LOSSY_ADAPTORS):
                            n_whole += 1
            if n_whole < 2 or not loops_ok:
                errs.append('the scan does not range over every entry of both states and every dot')
            # .. and none of the scan loops is left early unless there is something to report: in a world without any reused dot
            # (and without concurrent equal keys) no edge out of a loop is taken before the loop is exhausted
            for same_ in (True, False):
                for o_ in (LT, GT):
                    rcw = Reach(facts, vb, Evaluator(facts, classify=classify, bool_atom=atom, assumption={'same': same_, 'dot': o_, 'conc': False}))
                    for lp_ in loops_of(it):
                        inner_ = lp_.inner(rcw)
                        edges_ = rcw.rel_edges(lp_.start, (lp_.head,))
                        for e_ in lp_.early_exits():
                            if e_ in inner_ and any(y not in lp_.blocks and vb.blocks[y]['term']['k'] != 'unreachable' for y in edges_.get(e_, [])):
                                msg_ = 'a scan loop can be left early (line %d) although nothing was found: pairs after that point are never checked' % block_line(it, e_)
                                if msg_ not in errs:
                                    errs.append(msg_)
            # no verdict without the scan: every path to an `Ok` return goes through the outermost scan loop
            encl = [lp for lp in loops_of(it) if ebs[0] in lp.blocks or any(b in lp.blocks for b in it.preds.get(ebs[0], []))]
            encl = encl or [lp for lp in loops_of(it) if fr and fr[1] in lp.blocks]
            if encl:
                top = max(encl, key=lambda l: len(l.blocks))
                oks = [b for b, _ in ret_sites_by(it, lambda v: is_variant(v, 'result::Result', 'Ok'))]
                # (with no entries on one side there is no pair to compare: `if self.entries.is_empty() || other.entries.is_empty()
                # { return Ok(()) }` skips nothing; the clause is asked in the world where both sides hold entries)
                rc0 = Reach(facts, vb, Evaluator(facts, bool_atom=emptiness_atom({'e1': (1, (r['entries'],)), 'e2': (2, (r['entries'],))}),
                                                 assumption={'e1': False, 'e2': False}))
                rets = [i_ for i_, blk_ in enumerate(vb.blocks) if not blk_['cleanup'] and blk_['term']['k'] == 'return']
                # an `Ok` assigned before the scan is a shortcut only if the function can return from there without scanning
                byp = [b for b in oks if b in rc0._reach(0, {top.head}) and any(r_ in rc0._reach(b, {top.head}) for r_ in rets)]
                if byp:
                    errs.append('a path returns Ok without scanning the entries (shortcut at line %d): a reused dot goes unreported there' % block_line(it, byp[0]))
        ctx.check(not errs, inst, vb, 'Err exactly under (different element, equal counter), all pairs scanned', errs[0] if errs else '', details=det)
        if inst == 'map':
            nested = [bb for bb, c in it.calls.items() if cinfo(c.cid)['name'] == 'validate_merge' and cinfo(c.cid)['self'] is None]
            res = {}
            for same in (True, False):
                for conc in (True, False):
                    rc = Reach(facts, vb, Evaluator(facts, classify=classify, bool_atom=atom, assumption={'same': same, 'conc': conc, 'dot': GT}))
                    fr2 = iteration_frame(it, nested[0]) if nested else None
                    if fr2:
                        inner = rc._reach(fr2[0], {fr2[1]})
                        res[(same, conc)] = (any(b in inner for b in nested), rc.must_pass(nested, start=fr2[0], stops=(fr2[1],)))
            ok = bool(nested) and res.get((True, True), (0, 0))[1] and not any(v[0] for k, v in res.items() if k != (True, True)) and 'bad_conc' not in info
            if ok:
                esc = err_verdict_escapes(facts, vb, it, nested, frame=iteration_frame(it, nested[0]))
                if esc:
                    ok = False
                    info['nested_dropped'] = esc[0]
            ctx.check(ok, 'map/nested', vb, 'nested validate_merge exactly for equal keys with concurrent entry clocks',
                      ('an Err of the nested validate_merge can be dropped: a path leads from it to %s' % info['nested_dropped']) if 'nested_dropped' in info else
                      ('the concurrency test gating the nested check is %s, not a comparison of the two entry clocks' % info['bad_conc']) if 'bad_conc' in info else
                      'Map::validate_merge does not recurse into the values exactly for equal keys with concurrent clocks',
                      details={'(same key, concurrent) -> (nested may, must)': {str(k): v for k, v in res.items()}})


@rule('VM-BELIEF', {
    'C17': 'validate_merge believes "one dot vouches for at most one element"; apply must not stamp one dot on several elements, '
           'otherwise states produced by correct use are rejected',
}, floor=2)
def vm_belief(ctx):
    """Contradiction rule: in apply, the op dot must not be stamped inside a loop over several elements while
    validate_merge reports a dot shared by two elements as misuse."""
    facts = ctx.facts
    for inst, adt, op_adt, v in (('orswot', ORSWOT, 'crdts::orswot::Op', 'Add'), ('map', MAP, 'crdts::map::Op', 'Up')):
        vb = ctx.method(adt, 'CvRDT', 'validate_merge')
        vit = interp(facts, vb)
        believes = bool(ret_sites_by(vit, lambda x: is_variant(x, 'result::Result', 'Err') and x[3][0][1][0] == 'agg' and x[3][0][1][2] == 'DoubleSpentDot'))
        ab = ctx.method(adt, 'CmRDT', 'apply')
        it = interp(facts, ab)
        found = []
        _gate_eval(ctx, ab, op_adt, v, LT, found)
        name = '%s/%s' % (inst, v)
        if not found:
            ctx.shape(name, ab, 'no dot gate (see GATE)')
            continue
        sub = () if inst == 'orswot' else ('clock',)
        sts = _stamp_sites(it, found[0], sub=sub)
        multi = []
        for bb, cpath, key in sts:
            src = as_item(key)
            if src is not None and innermost_loop(it, bb) is not None:
                # the key varies with the loop, the dot does not
                if not any(st == versionless(key) for st in subterms(found[0]['dot'])):
                    multi.append((bb, key))
        if believes and multi:
            bb, key = multi[0]
            ctx.fail(name, ab, 'apply stamps the same dot %s on every element of a loop (%s) while validate_merge reports a dot that '
                     'witnesses two different elements as DoubleSpentDot: a state produced by add_all is rejected by validate_merge'
                     % (fmt(found[0]['dot'], 3), fmt(key, 3)), line=block_line(it, bb))
        else:
            ctx.ok(name, ab, 'one dot stamps one element' if believes else 'validate_merge has no one-dot-one-element belief', nontrivial=bool(sts))
