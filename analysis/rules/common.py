"""Shared recognisers for the rule tables."""
import re
from ..interp import interp, cinfo, fmt_term
from ..terms import (versionless, is_call, call_name, param_path, rooted_at_param, elem_of, elem_value_of,
                     as_item, iter_source, iter_adaptors, LOSSY_ADAPTORS, subterms, closure_bindings, subst, phi_alts, drop_lv, value_path)
from ..summaries import call_effects, effects, loc_target, Effect
from ..ordset import Evaluator, Reach, TOTAL, PARTIAL, LT, EQ, GT, NONE

ORSWOT = 'crdts::orswot::Orswot'
MAP = 'crdts::map::Map'
LIST = 'crdts::list::List'
GLIST = 'crdts::glist::GList'
VCLOCK = 'crdts::vclock::VClock'
MVREG = 'crdts::mvreg::MVReg'
MERKLE = 'crdts::merkle_reg::MerkleReg'
GCOUNTER = 'crdts::gcounter::GCounter'
PNCOUNTER = 'crdts::pncounter::PNCounter'
GSET = 'crdts::gset::GSet'
LWWREG = 'crdts::lwwreg::LWWReg'
MAXREG = 'crdts::maxreg::MaxReg'
MINREG = 'crdts::minreg::MinReg'
DOT = 'crdts::dot::Dot'
IDENT = 'crdts::identifier::Identifier'
READCTX = 'crdts::ctx::ReadCtx'


def variants(facts, adt_path):
    a = facts.adts.get(adt_path)
    return [v['name'] for v in a['variants']] if a else []


def fmt(t, d=8):
    return fmt_term(t, d)


def discr_atom_of_param(i, var='variant'):
    """atom callback: discriminant of parameter i (any projection-free version) is variable `var`."""
    def atom(t):
        if t[0] == 'discr':
            x = versionless(t[1])
            if x == ('param', i):
                return var
        return None
    return atom


def mutation_sites(facts, it, param=1):
    """bb -> (set of Effect on `param`, line) for every block that may write state reachable
    from parameter `param` (directly, through an element, or through a crate-local callee)."""
    out = {}
    for (bb, si), w in it.writes.items():
        tgt = loc_target(it, w.loc)
        if tgt is not None and tgt[0] == param:
            out.setdefault(bb, [set(), w.line])[0].add(Effect(tgt[0], tgt[1], tgt[2], 'assign', tgt[3]))
    for bb, c in it.calls.items():
        effs = set(e for e in call_effects(facts, it, bb) if e.param == param)
        if effs:
            ent = out.setdefault(bb, [set(), c.line])
            ent[0] |= effs
    return {bb: (v[0], v[1]) for bb, v in out.items()}


def clock_get_of(t):
    """t is the counter a clock holds for an actor, 0 when absent: `C.get(k)`, or the same spelled on the dots map
    (`C.dots.get(k).copied().unwrap_or(0)`, `.map_or(0, |c| *c)`, `.unwrap_or_default()`, `match .. { Some(c) => *c, None => 0 }`)
    ->  (clock term C, key term k) or None."""
    t = drop_lv(t)
    if is_call(t, 'get', self_adt='VClock') and len(t[2]) == 2:
        return t[2][0], t[2][1]
    inner = None
    if t[0] == 'field' and t[2] == 'Some.0' and is_call(drop_lv(t[1]), 'get') and len(drop_lv(t[1])[2]) == 2:
        # the payload of a successful lookup in the dots map (`if let Some(c) = C.dots.get(k)`): where it exists it is C.get(k);
        # the absent case is the caller's business (see clock_presence_atom)
        inner = drop_lv(t[1])
    if is_call(t, ('unwrap_or', 'map_or')) and len(t[2]) >= 2 and drop_lv(t[2][1])[0] == 'const' and drop_lv(t[2][1])[1] == 0:
        inner = drop_lv(t[2][0])
    elif is_call(t, 'unwrap_or_default') and len(t[2]) == 1:
        inner = drop_lv(t[2][0])
    elif t[0] == 'phi' and len(t[1]) == 2:
        alts = list(t[1])
        for z, g in ((alts[0], alts[1]), (alts[1], alts[0])):
            if z[0] == 'const' and z[1] == 0 and g[0] == 'field' and g[2] == 'Some.0':
                inner = drop_lv(g[1])
    if inner is not None and is_call(inner, 'get') and len(inner[2]) == 2:
        m_ = drop_lv(inner[2][0])
        if m_[0] == 'field' and m_[2] == 'dots':
            return m_[1], inner[2][1]
    return None


def clock_presence_atom(t, param=1, name='present'):
    """`<param>.dots` (or a clock inside it) has an entry for the key: the discriminant of / is_some / is_none on
    `C.dots.get(k)`, contains_key  ->  atom `name` (or its negation / discriminant map), else None."""
    ts = drop_lv(t)

    def look(x):
        x = drop_lv(x)
        if is_call(x, ('get', 'get_mut', 'get_key_value')) and len(x[2]) == 2:
            m_ = drop_lv(x[2][0])
            pp = param_path(versionless(m_))
            return m_[0] == 'field' and m_[2] == 'dots' and (param is None or (pp and pp[0] == param))
        return False
    if ts[0] == 'discr' and look(ts[1]):
        return ('map', name, {True: 1, False: 0})
    if is_call(ts, ('is_some', 'is_none')) and ts[2] and look(ts[2][0]):
        return name if call_name(ts) == 'is_some' else ('not', name)
    if is_call(ts, 'contains_key') and len(ts[2]) == 2:
        m_ = drop_lv(ts[2][0])
        pp = param_path(versionless(m_))
        if m_[0] == 'field' and m_[2] == 'dots' and (param is None or (pp and pp[0] == param)):
            return name
    return None


def match_dot_gate(a, b):
    """`get(C, D.actor)` compared with `D.counter`  ->  dict(clock=C, dot=D) (versionless) or None."""
    cg = clock_get_of(a)
    if cg is None:
        return None
    C, X = cg
    Xv, cv = versionless(X), versionless(b)
    if Xv[0] == 'field' and Xv[2] == 'actor' and cv[0] == 'field' and cv[2] == 'counter' and Xv[1] == cv[1]:
        return {'clock': versionless(C), 'dot': Xv[1], 'kf': 'actor', 'vf': 'counter'}
    # the same dot seen as an (actor, counter) entry of a clock's dots map
    if Xv[0] == 'field' and Xv[2] == '0' and cv[0] == 'field' and cv[2] == '1' and Xv[1] == cv[1]:
        src = as_item(Xv[1])
        if src is not None:
            base = versionless(iter_source(src)[0])
            if base[0] == 'field' and base[2] == 'dots':
                return {'clock': versionless(C), 'dot': Xv[1], 'kf': '0', 'vf': '1'}
    return None


def gate_classifier(found, param=1, var='gate'):
    """classify callback for the dedup gate: ordering of (clock.get(dot.actor), dot.counter) where
    clock is state of parameter `param`.  Matches are appended to `found`."""
    def classify(a, b, t):
        m = match_dot_gate(a, b)
        orient = 'fwd'
        if m is None:
            m = match_dot_gate(b, a)
            orient = 'rev'
        if m is None:
            return None
        pp = param_path(m['clock'])
        if param is not None and (pp is None or pp[0] != param):
            return None
        found.append(m)
        return (var, orient)
    return classify


def emptiness_atom(specs):
    """bool_atom for `X.is_empty()` / `X.len() == 0` where X is one of the operands in specs = {name: (param, path prefix)}
    (a longer path under the prefix is that operand's content as well: `other.inner.is_empty()`, `other.inner.dots.is_empty()`)."""
    def which(x):
        pp = param_path(versionless(x))
        if pp is None:
            return None
        for name, (prm, pre) in specs.items():
            if pp[0] == prm and tuple(pp[1][:len(pre)]) == tuple(pre):
                return name
        return None

    def atom(t):
        if is_call(t, 'is_empty') and len(t[2]) == 1:
            return which(t[2][0])
        if t[0] == 'binop' and t[1] in ('Eq', 'Ne'):
            for a, b in ((t[2], t[3]), (t[3], t[2])):
                a, b = drop_lv(a), drop_lv(b)
                if b[0] == 'const' and b[1] == 0 and is_call(a, 'len') and len(a[2]) == 1 and which(a[2][0]):
                    return which(a[2][0]) if t[1] == 'Eq' else ('not', which(a[2][0]))
        return None
    return atom


def must_pass_unless_noop(facts, body, it, sites, noop_when_empty, start=0, only_field=None):
    """Every path passes one of `sites` — except paths that are only taken when an operand whose emptiness makes the whole
    operation a no-op is empty (`if other.is_empty() { return }` in front of a merge, `if clock.is_empty() { return }` in front of a
    reset) and that leave self untouched.  noop_when_empty = {name: (param, path prefix)}."""
    from ..ordset import Reach, Evaluator
    rc0 = Reach(facts, body, Evaluator(facts))
    if sites and rc0.must_pass(sites):
        return True
    if not sites or not noop_when_empty:
        return False
    atom = emptiness_atom(noop_when_empty)
    ev = Evaluator(facts, bool_atom=atom, assumption={n: False for n in noop_when_empty})
    rc = Reach(facts, body, ev)
    if not rc.must_pass(sites) or not ev.hits:
        return False
    # the paths that skip the sites exist only in worlds where some such operand is empty; they must not touch self
    for n in noop_when_empty:
        rcw = Reach(facts, body, Evaluator(facts, bool_atom=atom, assumption={n: True}))
        skipping = rcw._reach(0, set(sites))
        if not any(body.blocks[b]['term']['k'] == 'return' for b in skipping):
            continue
        for (bb, _i), w in list(it.muts.items()) + list(it.writes.items()):
            if bb in skipping and w.loc[0][0] in ('P', 'O'):
                tgt = loc_target(it, w.loc)
                if tgt is not None and tgt[0] == 1 and only_field is not None and tuple(tgt[1][:1]) != (only_field,):
                    continue        # a clause about one field: what the skipping path does to the other fields is their clauses' business
                if tgt is not None and tgt[0] == 1:
                    # .. unless the write is itself on a path that still reaches a site
                    if any(r_ in rcw._reach(bb, set(sites)) for r_ in rcw.return_blocks()):
                        return False
    return True


def is_empty_literal(t):
    """t is an empty value spelled out: `X::new()`, `Default::default()`, `zero()`, `vec![]`, 0, or an aggregate of such."""
    from ..terms import drop_lv
    t = drop_lv(t)
    if t[0] == 'const':
        return t[1] in (0, '()', None)
    if t[0] == 'call' and call_name(t) in ('new', 'default', 'zero', 'with_capacity') and all(drop_lv(a_)[0] == 'const' for a_ in t[2]):
        return True
    if t[0] == 'agg':
        return all(is_empty_literal(v_) for _n, v_ in t[3])
    return False


def general_ret(facts, body, containers):
    """A read accessor with a shortcut for the empty state (`if self.vals.is_empty() { return <empty answer> }`): the value returned
    in the world where the named containers are not empty, provided that it is one return site, that the shortcut was really
    decided by an emptiness test, and that every answer given in an empty world is an empty literal.  containers = {name:
    (param, path prefix)}.  None when the function has no such shape (the caller then judges the plain return value)."""
    from ..ordset import Reach, Evaluator
    it = interp(facts, body)
    atom = emptiness_atom(containers)
    ev = Evaluator(facts, bool_atom=atom, assumption={n: False for n in containers})
    rc = Reach(facts, body, ev)
    sites = [(k, w) for k, w in sorted(it.ret_assigns.items()) if k[0] in rc.reachable]
    if len(sites) != 1 or not ev.hits or len(it.ret_assigns) < 2:
        return None
    gk, gw = sites[0]
    for k, w in it.ret_assigns.items():
        if k == gk:
            continue
        if not all(is_empty_literal(a_) for a_ in phi_alts(w.val)):
            return None
    return gw.val


def err_verdict_escapes(facts, body, it, call_bbs, base_atom=None, assumption=None, frame=None):
    """The calls ending the blocks `call_bbs` return a Result (a validation verdict).  Assume that verdict is Err: every value
    the function can then return must be an Err (the verdict itself, possibly through `?` / map_err / and_then / map / a local,
    or an explicit Err).  -> the descriptions of returned values that are not (empty list = the Err always propagates)."""
    from ..ordset import Reach, Evaluator
    vterms = set(drop_lv(it.calls[bb].term) for bb in call_bbs)

    def verdict_core(t):
        t = drop_lv(t)
        for _ in range(6):
            if t in vterms:
                return True
            if t[0] == 'phi':
                return all(verdict_core(a) for a in t[1])
            if t[0] == 'call' and call_name(t) in ('branch', 'map_err', 'and_then', 'map', 'into', 'from') and t[2]:
                t = drop_lv(t[2][0])
                continue
            if t[0] == 'field' and t[2] in ('Break.0', 'Err.0'):
                t = drop_lv(t[1])
                continue
            return False
        return False

    def atom(t):
        if t[0] == 'discr' and verdict_core(t[1]):
            return ('map', 'verr', {True: 1, False: 0})      # Err / Break are variant 1 of Result / ControlFlow
        if is_call(t, ('is_err', 'is_ok')) and t[2] and verdict_core(t[2][0]):
            return 'verr' if call_name(t) == 'is_err' else ('not', 'verr')
        return base_atom(t) if base_atom is not None else None
    rc = Reach(facts, body, Evaluator(facts, bool_atom=atom, assumption=dict(assumption or {}, verr=True)))
    if not any(bb in rc.reachable for bb in call_bbs):
        return []
    if frame is not None:
        # the verdict is computed once per iteration of a loop: from each such call every path returns an Err before the next
        # iteration starts
        errs_s = [b for b, _ in ret_sites_by(it, lambda v: is_variant(v, 'result::Result', 'Err') or is_call(v, 'from_residual') or verdict_core(v))]
        bad = [bb for bb in call_bbs if bb in rc.reachable and not (errs_s and rc.must_pass(errs_s, start=bb, stops=(frame[1],)))]
        return ['the next iteration / the end of the scan (from line %d)' % block_line(it, bb) for bb in bad]
    kinds = set()
    for rb in [b for b in rc.return_blocks() if b in rc.reachable]:
        for t_ in rc.reaching_terms(0, rb):
            for a_ in phi_alts(drop_lv(t_)):
                if not (is_variant(a_, 'result::Result', 'Err') or is_call(a_, 'from_residual') or verdict_core(a_)):
                    kinds.add(fmt(a_, 3))
    return sorted(kinds)


def block_line(it, bb):
    c = it.calls.get(bb)
    if c is not None:
        return c.line
    s = it.switches.get(bb)
    if s is not None:
        return s.line
    blk = it.body.blocks[bb]
    for st in blk['stmts']:
        if st['k'] == 'assign':
            return st['span']['line']
    return it.body.line


def innermost_loop(it, bb):
    """(head, set of blocks) of the smallest natural loop containing bb, or None."""
    best = None
    for h in sorted(set(h_ for (_, h_) in it.back_edges)):
        # the natural loop of ALL back edges into h (a `continue` and the end of the body are two back edges of one loop)
        loop = {h}
        stack = [u_ for (u_, h_) in it.back_edges if h_ == h]
        while stack:
            x = stack.pop()
            if x in loop:
                continue
            loop.add(x)
            stack.extend(it.preds.get(x, []))
        if bb in loop:
            if best is None or len(loop) < len(best[1]):
                best = (h, loop)
    return best


def calls_matching(it, pred):
    return [(bb, c) for bb, c in sorted(it.calls.items()) if pred(c)]


def iteration_frame(it, bb):
    """For a block inside a `for` loop: (start block of one iteration = Some-arm of the `next` switch,
    loop head, iterator term) of the innermost loop, or None."""
    lp = innermost_loop(it, bb)
    if lp is None:
        return None
    head, blocks = lp
    for x in sorted(blocks):
        sw = it.switches.get(x)
        if sw and sw.discr[0] == 'discr':
            src = as_item(('field', sw.discr[1], 'Some.0'))
            if src is not None:
                for val, tb in sw.targets:
                    if val == 1:
                        return (tb, head, src)
    return None


def whole_iteration_over(src, param, path_suffix=None):
    """The iterator term ranges over all of a container rooted at parameter `param` (no lossy adaptors)."""
    base, kind, clo = iter_source(src)
    pp = param_path(base)
    if pp is None or pp[0] != param:
        return False
    if path_suffix is not None and tuple(pp[1][-len(path_suffix):]) != tuple(path_suffix) and path_suffix:
        return False
    if set(iter_adaptors(src)) & LOSSY_ADAPTORS:
        return False
    return True


PRIMITIVES = ('VClock::get', 'CmRDT>::apply', 'CvRDT>::merge', 'reset_remove', 'VClock::is_empty', 'VClock::intersection',
              'VClock::clone_without', 'VClock::glb', 'PartialOrd>::', 'PartialEq>::', 'validate_op', 'validate_merge',
              'VClock::concurrent', 'Identifier::between', 'Node::hash', 'Ord>::cmp')


def expand_all(facts, t, stop=(), depth=6):
    """Recursively replace calls to side-effect-free crate-local functions by their return terms, and the post-state of
    `&mut` arguments of crate-local helpers by the helper's final value of that argument."""
    from ..ordset import local_summary, local_post_summary
    from ..terms import rebuild

    def stopped(cid):
        return any(s_ in cid for s_ in stop)

    def f(x):
        if depth <= 0:
            return x
        if x[0] == 'call':
            info = cinfo(x[1])
            if info['local'] and info['uid'] and not stopped(x[1]):
                s_ = local_summary(facts, x)
                if s_ is not None and s_ != x:
                    return expand_all(facts, s_, stop, depth - 1)
        if x[0] == 'post' and x[1][0] == 'call' and isinstance(x[2], int):
            info = cinfo(x[1][1])
            if info['local'] and info['uid'] and not stopped(x[1][1]):
                s_ = local_post_summary(facts, x[1], x[2])
                if s_ is not None and s_ != x:
                    return expand_all(facts, s_, stop, depth - 1)
        return x
    return rebuild(t, f)


def normal(facts, t):
    """Fully expanded normal form: every crate-local helper is expanded except the primitives the rules are phrased in."""
    from ..terms import drop_lv, rebuild
    from ..interp import proj

    def simp(x):
        # obj(agg{..}, field := v)  ->  agg with the field replaced
        if x[0] == 'obj' and x[1][0] == 'agg':
            fields = dict(x[1][3])
            for f_, v in x[2]:
                if f_ in fields:
                    fields[f_] = v
            return ('agg', x[1][1], x[1][2], tuple((k, fields[k]) for k, _ in x[1][3]))
        # obj(phi{agg, agg}, field := v): apply to every alternative
        if x[0] == 'obj' and x[1][0] == 'phi' and all(a[0] == 'agg' for a in x[1][1]):
            from ..interp import mk_phi
            return simp(mk_phi([simp(('obj', a, x[2])) for a in x[1][1]]))
        if x[0] == 'phi':
            alts = list(x[1])
            # phi{Dot{a, c1}, Dot{a, c2}} -> Dot{a, phi{c1, c2}}: the same aggregate built in both arms of a match
            if all(a[0] == 'agg' for a in alts) and len(set((a[1], a[2], tuple(k for k, _ in a[3])) for a in alts)) == 1:
                from ..interp import mk_phi
                names = [k for k, _ in alts[0][3]]
                merged = tuple((k, simp(mk_phi([dict(a[3])[k] for a in alts]))) for k in names)
                return ('agg', alts[0][1], alts[0][2], merged)
            # phi{0, dots.get(k).Some.0} -> VClock::get(clock, k): the stored counter or 0, spelled as a match
            if len(alts) == 2:
                for z, g in ((alts[0], alts[1]), (alts[1], alts[0])):
                    if z[0] == 'const' and z[1] == 0 and g[0] == 'field' and g[2] == 'Some.0' and is_call(g[1], ('get',)) and len(g[1][2]) == 2:
                        m_ = g[1][2][0]
                        if m_[0] == 'field' and m_[2] == 'dots':
                            gb = facts.inherent_method(VCLOCK, 'get')
                            if gb is not None:
                                from ..interp import callee_id
                                cid = callee_id({'def': 'crdts::vclock::VClock::get', 'uid': gb.base_uid, 'name': 'get', 'trait': None,
                                                 'self_ty': {'k': 'adt', 'path': VCLOCK, 'args': [], 's': 'vclock::VClock'}, 'local': True, 'substs': [],
                                                 'resolved': None, 'resolved_uid': None, 'resolved_self': None})
                                return ('call', cid, (m_[1], g[1][2][1]))
        return x
    return rebuild(drop_lv(expand_all(facts, t, stop=PRIMITIVES, depth=8)), simp)


def ret_sites_by(it, pred):
    """Return-value assignment blocks whose (alternative) value satisfies pred -> list of (bb, value)."""
    out = []
    for (bb, si), w in sorted(it.ret_assigns.items(), key=lambda kv: str(kv[0])):
        for alt in phi_alts(w.val):
            if pred(alt):
                out.append((bb, alt))
    return out


def is_variant(t, adt_suffix, variant):
    return t[0] == 'agg' and t[1].endswith(adt_suffix) and t[2] == variant


def inline_option_maps(facts, t):
    """`Option::map(x, |e| body)` -> body[e := x] (options are transparent for provenance)."""
    from ..terms import rebuild

    def f(x):
        if x[0] == 'call' and (cinfo(x[1])['def'] or '').endswith(('option::Option::map', 'option::Option::and_then')) and len(x[2]) == 2 and x[2][1][0] == 'closure':
            cb = facts.cb(x[2][1][1])
            if cb is not None:
                m = {('param', 2): x[2][0]}
                for k, v in enumerate(x[2][1][2]):
                    m[('upvar', k)] = v
                return subst(interp(facts, cb).ret, m)
        if x[0] == 'call' and (cinfo(x[1])['def'] or '').endswith(('option::Option::map_or_else', 'option::Option::map_or')) and len(x[2]) == 3 \
                and x[2][2][0] == 'closure':
            # `opt.map_or_else(default_fn, |e| body)` / `opt.map_or(default, |e| body)`: either the default or body[e := opt]
            cb = facts.cb(x[2][2][1])
            d = x[2][1]
            if cinfo(x[1])['name'] == 'map_or_else':
                if d[0] == 'fn':
                    d = ('call', d[1], ())
                elif d[0] == 'closure' and facts.cb(d[1]) is not None:
                    d = subst(interp(facts, facts.cb(d[1])).ret, {('upvar', k): v for k, v in enumerate(d[2])})
                else:
                    d = None
            if cb is not None and d is not None:
                m = {('param', 2): x[2][0]}
                for k, v in enumerate(x[2][2][2]):
                    m[('upvar', k)] = v
                return ('phi', frozenset({d, subst(interp(facts, cb).ret, m)}))
        return x
    for _ in range(4):   # a spliced body may itself contain a map (a helper returning `first().map(..)`)
        t2 = rebuild(t, f)
        if t2 == t:
            break
        t = t2
    return t


def _strip_conv(t):
    from ..terms import drop_lv
    t = drop_lv(t)
    while t[0] == 'call' and call_name(t) in ('into', 'from', 'clone') and len(t[2]) == 1:
        t = drop_lv(t[2][0])
    return t


def dot_parts(facts, t):
    """Fully expanded t is Dot{actor, counter} (through conversions) -> (actor term, counter term) else None."""
    n = _strip_conv(normal(facts, _strip_conv(t)))
    if n[0] == 'agg' and n[1] in (DOT, 'crdts::dot::OrdDot'):
        f = dict(n[3])
        if 'actor' in f and 'counter' in f:
            return f['actor'], f['counter']
    return None


def next_dot_of(facts, t):
    """t is `<clock>.get(actor) + 1` tagged with `actor`  ->  (clock term, actor term) (lv-free), else None."""
    from ..terms import drop_lv
    dp = dot_parts(facts, t)
    if dp is None:
        return None
    actor, c = dp
    c = drop_lv(c)
    if c[0] == 'binop' and c[1] == 'Add':
        ops = [drop_lv(c[2]), drop_lv(c[3])]
        one = [o for o in ops if o[0] == 'const' and o[1] == 1]
        get = [clock_get_of(o) for o in ops if clock_get_of(o) is not None]
        if one and get and versionless(get[0][1]) == versionless(actor):
            return drop_lv(get[0][0]), versionless(actor)
    return None


def stepped_dot_of(facts, t):
    """t is Dot{actor, steps + clock.get(actor)} -> (clock, actor, steps) else None."""
    from ..terms import drop_lv
    dp = dot_parts(facts, t)
    if dp is None:
        return None
    actor, c = dp
    c = drop_lv(c)
    if c[0] == 'binop' and c[1] == 'Add':
        ops = [drop_lv(c[2]), drop_lv(c[3])]
        get = [o for o in ops if clock_get_of(o) is not None and versionless(clock_get_of(o)[1]) == versionless(actor)]
        rest = [o for o in ops if o not in get]
        if get and len(rest) == 1:
            return drop_lv(clock_get_of(get[0])[0]), versionless(actor), versionless(rest[0])
    return None


def quant(facts, t, mapping=None, depth=0):
    """t (after substituting `mapping`) is a boolean quantified over the items of an iterator.
    Returns dict(kind='forall'|'exists', neg=bool, src=<iterator term>, cb=<predicate closure body>, m=<its bindings>)
    with  value(t) = neg XOR (kind over the items of src of the predicate), or None."""
    from ..terms import drop_lv
    from ..ordset import local_summary
    ts = subst(t, mapping) if mapping else t
    ts = drop_lv(ts)
    neg = False
    while ts[0] == 'unop' and ts[1] == 'Not':
        neg = not neg
        ts = drop_lv(ts[2])
    kind = call = None
    if ts[0] == 'binop' and ts[1] in ('Eq', 'Ne', 'Gt', 'Lt'):
        for x, y, swapped in ((ts[2], ts[3], False), (ts[3], ts[2], True)):
            if y[0] == 'const' and y[1] == 0 and is_call(x, 'count') and x[2] and is_call(x[2][0], 'filter'):
                op = ts[1]
                if op == 'Eq':
                    kind, call, neg = 'exists', x[2][0], not neg
                elif op == 'Ne' or (op == 'Gt' and not swapped) or (op == 'Lt' and swapped):
                    kind, call = 'exists', x[2][0]
    if kind is None and is_call(ts, 'all') and len(ts[2]) == 2:
        kind, call = 'forall', ts
    if kind is None and is_call(ts, 'any') and len(ts[2]) == 2:
        kind, call = 'exists', ts
    if kind is None and is_call(ts, ('is_none', 'is_some')) and ts[2] and is_call(drop_lv(ts[2][0]), ('find', 'position', 'find_map')):
        kind, call = 'exists', drop_lv(ts[2][0])
        if call_name(ts) == 'is_none':
            neg = not neg
    if kind is None and is_call(ts, 'fold') and len(ts[2]) == 3 and ts[2][2][0] == 'closure' and drop_lv(ts[2][1])[0] == 'const' \
            and drop_lv(ts[2][1])[2] == 'bool':
        # fold(false, |seen, x| seen || P(x)) is `any`, fold(true, |ok, x| ok && P(x)) is `all`
        cb_ = facts.cb(ts[2][2][1])
        init = bool(drop_lv(ts[2][1])[1])
        if cb_ is not None and closure_value(facts, cb_, acc=(not init)) is (not init):
            bind = closure_bindings(ts)
            if bind:
                clo, m = bind[0]
                m = dict(m)
                m[('param', 2)] = m.get(('param', 3), m.get(('param', 2)))   # users look the item up under param 2
                return {'kind': 'forall' if init else 'exists', 'neg': neg, 'src': ts[2][0], 'cb': cb_, 'm': m, 'acc': init, 'item_param': 3}
    if kind is None and ts[0] == 'loopq':
        d = facts.__dict__.get('_loopq', {}).get(ts[1])
        if d is not None:
            return _loopq_desc(d, mapping or {}, neg)
    if kind is None and ts[0] == 'call' and depth < 3:
        info = cinfo(ts[1])
        if info['local'] and info['uid']:
            sm = local_summary(facts, ts)
            if sm is not None and sm != ts:
                q = quant(facts, sm, None, depth + 1)
                if q:
                    q['neg'] = q['neg'] != neg
                    return q
            # a helper whose boolean result is a quantifier written as a loop (early `return`, or a flag)
            hb = facts.by_uid.get(info['uid'])
            if hb is not None and not hb.derived and hb.arg_count == len(ts[2]) and sm is not None:
                from ..ordset import Reach, Evaluator
                rc_ = Reach(facts, hb, Evaluator(facts))
                rets = rc_.return_blocks()
                if len(rets) == 1:
                    r_ = rc_.loop_quant_term(0, rets[0])
                    if r_ is not None:
                        m_ = {('param', i + 1): a for i, a in enumerate(ts[2])}
                        return _loopq_desc(r_[2], m_, neg != r_[1])
    if kind is None:
        return None
    bind = closure_bindings(call)
    if not bind:
        return None
    clo, m = bind[0]
    cb = facts.cb(clo[1])
    if cb is None:
        return None
    return {'kind': kind, 'neg': neg, 'src': call[2][0], 'cb': cb, 'm': m}


def _loopq_desc(d, m, neg):
    """Quantifier descriptor of a loop-form quantifier: value = neg XOR (exists item of src: the iteration reaches a site)."""
    lp = d['loop']
    return {'kind': 'exists', 'neg': neg, 'src': subst(lp.src, m) if m else lp.src, 'cb': d['body'], 'm': dict(m), 'loopq': d,
            'raw_src': lp.raw_src}


def quant_item(q, t):
    """t is the item the quantifier q ranges over (in the coordinates the consumer's classify sees: after q['m'])."""
    if q.get('loopq'):
        s_ = as_item(t)
        return s_ is not None and s_[0] != 'item' and versionless(s_) == versionless(q['src'])
    it_ = q['m'].get(('param', q.get('item_param', 2)))
    return it_ is not None and versionless(t) == versionless(it_)


def quant_value(facts, q, classify=None, bool_atom=None, assumption=None):
    """Value of the predicate of quantifier q for one item under an assumption (True / False / None = not decided).
    Closure form: the closure's return value; loop form: whether the iteration reaches one of the sites."""
    d = q.get('loopq')
    if d is None:
        return closure_value(facts, q['cb'], classify=classify, bool_atom=bool_atom, assumption=assumption, acc=q.get('acc'))
    from ..ordset import Reach, Evaluator
    rc = Reach(facts, d['body'], Evaluator(facts, classify=classify, bool_atom=bool_atom, assumption=assumption))
    lp = d['loop']
    may, must = lp.may(rc, d['sites']), lp.must(rc, d['sites'])
    return may if may == must else None


def pred_truth(facts, q, classify, domain, var):
    """Truth of the predicate of a quantifier for every outcome of variable `var`; classify works on root-coordinate terms."""
    cit = interp(facts, q['cb'])
    m = q['m']
    hit = []

    def cl(a, b, t):
        r_ = classify(subst(a, m), subst(b, m), t)
        if r_ is not None:
            hit.append(1)
        return r_
    out = {}
    for o in domain:
        out[o] = quant_value(facts, q, classify=cl, assumption={var: o})
    return out, bool(hit)


def chain_parts(src):
    """Iterator term -> the iterators it concatenates (`a.chain(b)`), in order."""
    s_ = versionless(src)
    while s_[0] == 'call' and call_name(s_) == 'into_iter' and s_[2] and versionless(s_[2][0])[0] == 'call' \
            and call_name(versionless(s_[2][0])) in ('chain', 'into_iter'):
        s_ = versionless(s_[2][0])
    if s_[0] == 'call' and call_name(s_) == 'chain' and len(s_[2]) == 2:
        return chain_parts(s_[2][0]) + chain_parts(s_[2][1])
    return [s_]


def presence_atom(t, side, field, name, subst_map=None):
    """`<side>.<field>` has the key: contains_key / contains / get(..).is_some() / !get(..).is_none() /
    `match get(..) { Some.. }` (discriminant)  ->  atom `name` (or its negation / discriminant map), else None."""
    ts = subst(t, subst_map) if subst_map else t
    ts = drop_lv(ts)

    def on_field(x):
        pp = param_path(versionless(x))
        return bool(pp and pp[0] == side and tuple(pp[1]) == (field,))
    if is_call(ts, ('contains_key', 'contains')) and len(ts[2]) == 2 and on_field(ts[2][0]):
        return name
    if is_call(ts, ('is_some', 'is_none')) and ts[2] and is_call(drop_lv(ts[2][0]), ('get', 'get_mut', 'get_key_value')) \
            and len(drop_lv(ts[2][0])[2]) == 2 and on_field(drop_lv(ts[2][0])[2][0]):
        return name if call_name(ts) == 'is_some' else ('not', name)
    if ts[0] == 'discr' and is_call(drop_lv(ts[1]), ('get', 'get_mut', 'get_key_value', 'remove')) and len(drop_lv(ts[1])[2]) == 2 \
            and on_field(drop_lv(ts[1])[2][0]):
        return ('map', name, {True: 1, False: 0})
    return None


def ret_value(facts, body, evr):
    """The value a function returns under the evaluator's assumption: evaluated over the return sites that stay reachable
    (so `matches!(x, P)`, `if c { true } else { false }` and a plain expression are the same thing).  None when not unique."""
    it = interp(facts, body)
    rc = Reach(facts, body, evr)
    vals = set()
    sites = [(k, w) for k, w in it.ret_assigns.items() if k[0] in rc.reachable]
    if not sites:
        return evr.ev(it.ret)
    for (bb, si), w in sites:
        alts = phi_alts(w.val)
        if len(alts) > 1:
            # a joined value: which alternative flows here depends on the path; use the path-sensitive view of the local
            v = evr.ev(w.val)
            if v is None:
                return evr.ev(it.ret) if len(sites) == 1 and False else None
            vals.add(v if not isinstance(v, list) else tuple(v))
            continue
        v = evr.ev(alts[0])
        if v is None:
            # an expression over a joined boolean (`!matches!(..)`: `_0 = Not(_3)` with _3 set on both arms): the constants that
            # reach the return slot along the paths the assumption leaves
            cv = rc._values_at(0, bb)
            if len(cv) == 1 and next(iter(cv)) in (0, 1) and isinstance(drop_lv(alts[0]), tuple) and drop_lv(alts[0])[0] == 'unop':
                v = bool(next(iter(cv)))
        if v is None:
            return None
        vals.add(v)
    return next(iter(vals)) if len(vals) == 1 else None


def closure_value(facts, cb, classify=None, bool_atom=None, assumption=None, acc=None):
    """Value a (pure) closure body returns under an assumption, decided per path (so `matches!`, `if`/`else`, `a || b`
    inside the closure are fine).  acc = the assumed value of the accumulator parameter of a fold closure."""
    asm = dict(assumption or {})
    ba = bool_atom
    if acc is not None:
        asm['__acc'] = acc

        def ba(t, inner=bool_atom):
            if t == ('param', 2):
                return '__acc'
            return inner(t) if inner is not None else None
    evr = Evaluator(facts, classify=classify, bool_atom=ba, assumption=asm)
    it = interp(facts, cb)
    rc = Reach(facts, cb, evr)
    vals = set()
    rets = rc.return_blocks()
    if len(rets) == 1 and rets[0] in rc.reachable:
        lq0 = rc._loop_quant_value(0, rets[0])      # the result itself is a quantifier written as a loop
        if lq0 is not None:
            return bool(lq0)
    for (bb, si), w in it.ret_assigns.items():
        if bb not in rc.reachable:
            continue
        cands = None
        if isinstance(si, int):
            st = cb.blocks[bb]['stmts'][si]
            rv = st.get('rv', {})
            loc, neg = None, False
            if rv.get('k') == 'use' and rv['op']['k'] in ('copy', 'move') and not rv['op']['place']['proj']:
                loc = rv['op']['place']['local']
            elif rv.get('k') == 'unop' and rv.get('op') == 'Not' and rv['op1']['k'] in ('copy', 'move') and not rv['op1']['place']['proj']:
                loc, neg = rv['op1']['place']['local'], True
            lq = rc._loop_quant_value(loc, bb) if loc is not None else None
            if lq is not None:
                cands = [bool(lq) != neg]
            elif loc is not None and w.val[0] in ('phi', 'unop', 'lv') :
                cands = []
                for tm in rc.reaching_terms(loc, bb):
                    v = evr.ev(tm)
                    cands.append((not v) if (neg and isinstance(v, bool)) else v)
        if cands is None:
            cands = [evr.ev(alt) for alt in phi_alts(w.val)] if w.val[0] != 'phi' else [evr.ev(w.val)]
        for v in cands:
            if v is None:
                return None
            vals.add(v)
    if not vals:
        return evr.ev(it.ret)
    return next(iter(vals)) if len(vals) == 1 else None


def build_sites(it, pred):
    """Blocks where a value satisfying pred is built (assigned to the return place or to any local that carries it out of
    a loop / closure splice) -> list of (bb, value), return sites first."""
    out = ret_sites_by(it, pred)
    seen = set(b for b, _ in out)
    for (bb, si), (l, val, rv) in sorted(it.assign_vals.items(), key=lambda kv: str(kv[0])):
        if bb in seen or rv is None or rv.get('k') != 'agg':
            continue
        if pred(val):
            out.append((bb, val))
            seen.add(bb)
    return out


# the property whose subject a type is: a replica that was cloned, restored from its serialised form or built by
# Default is a replica, so an impl that changes the state on the way breaks what the property says about every replica
TYPE_PROPS = {
    'orswot': ['C04'], 'map': ['C05'], 'mvreg': ['C06'], 'vclock': ['C10'], 'dot': ['C10'], 'gcounter': ['C11'], 'pncounter': ['C11'],
    'lwwreg': ['C11'], 'maxreg': ['C11'], 'minreg': ['C11'], 'gset': ['C11'], 'list': ['C12'], 'glist': ['C12', 'C14'], 'identifier': ['C14', 'C12'],
    'merkle_reg': ['C15'],
}
TYPE_PROP_WHY = 'every replica of the type, also one that was cloned, defaulted or restored from its serialised form, is subject to the property: ' \
                'an impl that loses or changes state on the way changes what that replica reads'


def type_props(instance):
    """instance name starts with `<module>::` -> the properties about that module's type."""
    return TYPE_PROPS.get(str(instance).split('::')[0], [])


# ---- which properties are *observed* through the reads of a module's type: every behavioural property is stated over what
# replicas read, so a read that hides, adds or reorders stored data breaks each of them on the histories that reach such a state
READ_OBSERVES = {
    'mvreg': ['C02', 'C03', 'C06', 'C07', 'C08', 'C09', 'C18', 'C20'],
    'orswot': ['C02', 'C03', 'C04', 'C07', 'C08', 'C09', 'C18', 'C20'],
    'map': ['C02', 'C03', 'C05', 'C07', 'C08', 'C09', 'C18', 'C20'],
    'vclock': ['C02', 'C03', 'C04', 'C05', 'C06', 'C07', 'C08', 'C09', 'C10', 'C11', 'C18', 'C20'],
    'gcounter': ['C02', 'C03', 'C11', 'C18'], 'pncounter': ['C02', 'C03', 'C11', 'C18'],
    'maxreg': ['C02', 'C03', 'C11'], 'minreg': ['C02', 'C03', 'C11'], 'gset': ['C02', 'C03', 'C11'], 'lwwreg': ['C02', 'C03', 'C11'],
    'list': ['C12', 'C09'], 'glist': ['C02', 'C12', 'C14'], 'merkle_reg': ['C02', 'C03', 'C15'],
}
READ_WHY = 'the property is stated over what replicas read: a read that hides, adds or reorders stored data changes the observation ' \
           'on every history that reaches such a state'
_TYPE_MODULE = {'Orswot': 'orswot', 'Map': 'map', 'MVReg': 'mvreg', 'VClock': 'vclock', 'GCounter': 'gcounter', 'PNCounter': 'pncounter',
                'MaxReg': 'maxreg', 'MinReg': 'minreg', 'GSet': 'gset', 'LWWReg': 'lwwreg', 'List': 'list', 'GList': 'glist',
                'MerkleReg': 'merkle_reg', 'Content': 'merkle_reg'}


def read_attribution(own, module=None, default=None, own_filter=None):
    """(props, inst_filter) for a read rule: `own` = the rule's own necessity arguments; every other property observed
    through the module's reads is added with READ_WHY.  `module` fixes the module for all instances; otherwise the
    instance name starts with the type (`Orswot::read`, `GList.list`)."""
    def mod_of(inst):
        if module is not None:
            return module
        head = re.split(r'::|\.|/', str(inst))[0]
        if head in READ_OBSERVES:
            return head
        return _TYPE_MODULE.get(head, default)
    mods = [module] if module else sorted(set(_TYPE_MODULE.values()))
    props = dict(own)
    filt = dict(own_filter or {})
    for m in mods:
        for p_ in READ_OBSERVES.get(m, []):
            props.setdefault(p_, READ_WHY)
    for p_ in props:
        if p_ in own:
            continue
        filt[p_] = (lambda i, p_=p_: i in ('floor', 'anchor', 'internal') or p_ in READ_OBSERVES.get(mod_of(i), []))
    return {'props': props, 'inst_filter': filt}


def strip_lossless(t):
    """Peel `T::from(x)` / `x.into()` of NON-crate impls off a term: std (and num) `From` conversions between numeric types are
    value-preserving by contract; the crate's own From impls (Dot -> VClock, ..) are left alone."""
    from ..terms import drop_lv
    t = drop_lv(t)
    while t[0] == 'call' and len(t[2]) == 1:
        info = cinfo(t[1])
        if info['local'] or info['name'] not in ('from', 'into') or not (info['trait'] or '').endswith(('convert::From', 'convert::Into')):
            break
        t = drop_lv(t[2][0])
    return t
