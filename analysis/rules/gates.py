"""A.1 — dedup gates, clock absorption, stamping (GATE, ABSORB, STAMP)."""
from ..core import rule
from .common import *
from ..terms import drop_lv

GATED = [
    # (instance, adt, op adt, gated variants or None when the gate precedes the match)
    ('orswot', ORSWOT, 'crdts::orswot::Op', ['Add']),
    ('map', MAP, 'crdts::map::Op', ['Up']),
    ('list', LIST, 'crdts::list::Op', ['Insert', 'Delete']),
]


def _gate_eval(ctx, body, op_adt, variant, o, found, extra_atom=None, extra_asm=None):
    facts = ctx.facts
    asm = dict(extra_asm or {})
    if variant is not None:
        asm['variant'] = variants(facts, op_adt).index(variant)
    if o is not None:
        asm['gate'] = o
    base = discr_atom_of_param(2)
    atom = base if extra_atom is None else (lambda t: base(t) or extra_atom(t))
    evr = Evaluator(facts, classify=gate_classifier(found), bool_atom=atom, assumption=asm)
    return Reach(facts, body, evr), evr


@rule('GATE', {
    'C09': 'with <= admitted, re-delivering the add of a removed member re-stamps it (resurrection)',
    'C04': 'a duplicated add after a covering remove would make the member present again',
    'C05': 'a duplicated update after a covering key remove would recreate the key',
    'C12': 'a duplicated insert after its delete would re-insert the element',
    'C20': 'the state is a function of the set of updates learned: a duplicate that changes the replica makes equal knowledge unequal',
    'C03': 'Orswot, Map: an op whose update the replica already holds (it arrived inside a merged state) must be a no-op when it is '
           'delivered as an op too, and a new op that is dropped is kept by the merge of its writer\'s state: the two routes disagree',
}, floor=4, inst_filter={'C03': lambda i: not i.startswith('list')})
def gate(ctx):
    """Every write to replica state in a dot-carrying apply arm is reachable only under
    clock.get(actor) < dot.counter."""
    facts = ctx.facts
    prop_of = {'orswot': ['C09', 'C04', 'C03', 'C20'], 'map': ['C09', 'C05', 'C03', 'C20'], 'list': ['C09', 'C12']}
    for inst, adt, op_adt, vs in GATED:
        body = ctx.method(adt, 'CmRDT', 'apply')
        it = interp(facts, body)
        sites = mutation_sites(facts, it, 1)
        vnames = variants(facts, op_adt)
        for v in vs:
            name = '%s/%s' % (inst, v)
            if v not in vnames:
                ctx.shape(name, body, 'op variant %s not found in %s' % (v, op_adt), props=prop_of[inst])
                continue
            found = []
            r0, e0 = _gate_eval(ctx, body, op_adt, v, None, found)
            arm_sites = sorted(bb for bb in sites if bb in r0.reachable)
            if not found:
                ctx.fail(name, body, 'no comparison of clock.get(dot.actor) with dot.counter guards the %s arm '
                         '(%d state writes reachable unguarded)' % (v, len(arm_sites)), props=prop_of[inst],
                         details={'writes': [block_line(it, b) for b in arm_sites]})
                continue
            may = {}
            for o in TOTAL:
                r, _ = _gate_eval(ctx, body, op_adt, v, o, [])
                may[o] = sorted(bb for bb in arm_sites if bb in r.reachable)
            bad = [(o, bb) for o in (EQ, GT) for bb in may[o]]
            det = {'clock': fmt(found[0]['clock']), 'dot': fmt(found[0]['dot']),
                   'ordering_set': {o: [block_line(it, b) for b in may[o]] for o in TOTAL},
                   'state_writes': len(arm_sites)}
            if bad:
                o, bb = bad[0]
                r, _ = _gate_eval(ctx, body, op_adt, v, o, [])
                path = r.path_to(bb)
                ctx.fail(name, body, 'state write at line %d is reachable when clock.get(actor) %s dot.counter '
                         '(an already-applied op would change the replica); path bb%s'
                         % (block_line(it, bb), {'Eq': '==', 'Gt': '>'}[o], '->bb'.join(map(str, path or []))),
                         line=block_line(it, bb), details=det, props=prop_of[inst])
            elif not may[LT]:
                ctx.fail(name, body, 'no state write is reachable under clock.get(actor) < dot.counter: a new op is dropped',
                         details=det, props=prop_of[inst])
            else:
                ctx.ok(name, body, 'all %d state writes only under {Lt}' % len(arm_sites), details=det, props=prop_of[inst])


def _merkle_atoms(hash_found):
    def look(t):
        # a lookup of the op's own hash in a field of self -> the field path
        if len(t[2]) == 2:
            pp = param_path(t[2][0])
            k = versionless(t[2][1])
            if pp and pp[0] == 1 and is_call(k, 'hash') and k[2] and versionless(k[2][0]) == ('param', 2):
                return pp[1]
        return None

    def atom(t):
        if is_call(t, 'contains_key') or is_call(t, 'contains'):
            f = look(t)
            if f:
                hash_found.append(f)
                return 'in_' + '.'.join(f)
        # presence spelled through a lookup: `get(h).is_some()`, `match get(h) { Some(..) .. }`, `node(h)` = dag.get(h).or_else(orphans.get(h))
        if t[0] == 'discr' and is_call(drop_lv(t[1]), ('get', 'get_key_value')):
            f = look(drop_lv(t[1]))
            if f:
                hash_found.append(f)
                return ('map', 'in_' + '.'.join(f), {True: 1, False: 0})
        return None
    return atom


@rule('GATE-MERKLE', {
    'C09': 're-delivering a node must not change dag/orphans/roots',
    'C15': 'a duplicate node would be re-rooted (its children already demoted stay demoted, but it is re-inserted as a head)',
    'C03': 'a node the register already holds through a merged state must be a no-op when its op is delivered as well',
    'C02': 'MerkleReg::merge applies every node of the other side through apply (MK-MERGE): idempotence of merge is this gate',
}, floor=1)
def gate_merkle(ctx):
    """MerkleReg::apply writes state only when the node's hash is in neither dag nor orphans."""
    facts = ctx.facts
    body = ctx.method(MERKLE, 'CmRDT', 'apply')
    it = interp(facts, body)
    sites = mutation_sites(facts, it, 1)
    found = []
    evr = Evaluator(facts, bool_atom=_merkle_atoms(found), assumption={})
    Reach(facts, body, evr)
    # a lookup that is only evaluated when an earlier one missed (`dag.get(h).or_else(|| orphans.get(h))`) shows up under that outcome
    Reach(facts, body, Evaluator(facts, bool_atom=_merkle_atoms(found), assumption={'in_dag': False, 'in_orphans': False}))
    fields = sorted(set(found))
    if ('dag',) not in fields or ('orphans',) not in fields:
        ctx.fail('merkle', body, 'apply does not test the node hash against both dag and orphans (found: %s)' % fields)
        return
    may = {}
    for d in (True, False):
        for o in (True, False):
            evr = Evaluator(facts, bool_atom=_merkle_atoms([]), assumption={'in_dag': d, 'in_orphans': o})
            r = Reach(facts, body, evr)
            may[(d, o)] = sorted(bb for bb in sites if bb in r.reachable)
    det = {'ordering_set': {'dag=%s,orphans=%s' % k: [block_line(it, b) for b in v] for k, v in may.items()}}
    bad = [(k, v) for k, v in may.items() if k != (False, False) and v]
    if bad:
        k, v = bad[0]
        ctx.fail('merkle', body, 'state write at line %d reachable although the node is already known (dag=%s, orphans=%s)'
                 % (block_line(it, v[0]), k[0], k[1]), line=block_line(it, v[0]), details=det)
    elif not may[(False, False)]:
        ctx.fail('merkle', body, 'no state write reachable for an unknown node', details=det)
    else:
        ctx.ok('merkle', body, 'all %d state writes only under (dag=F, orphans=F)' % len(may[(False, False)]), details=det)


@rule('ABSORB', {
    'C09': 'the replica clock is the only memory of removed dots; an op whose dot is not absorbed is re-applied on re-delivery',
    'C07': 'the next derive_add_ctx would hand out the same dot again',
    'C12': 'List: a second op by the actor would reuse the dot',
    'C04': 'an unabsorbed dot makes a later remove context miss the add',
    'C05': 'same for Map updates',
    'C20': 'replicas that learned the same updates must hold the same clock',
    'C03': 'Orswot, Map: with the dot unabsorbed the replica that applied the op and the replica that merged the writer\'s state '
           'answer the next (re-)delivery differently',
}, floor=3)
def absorb(ctx):
    """In every gated arm, under the gate, every normal path joins the op's dot into the replica clock."""
    facts = ctx.facts
    prop_of = {'orswot': ['C09', 'C07', 'C04', 'C03', 'C20'], 'map': ['C09', 'C07', 'C05', 'C03', 'C20'], 'list': ['C09', 'C12']}
    for inst, adt, op_adt, vs in GATED:
        body = ctx.method(adt, 'CmRDT', 'apply')
        it = interp(facts, body)
        for v in vs:
            name = '%s/%s' % (inst, v)
            if v not in variants(facts, op_adt):
                ctx.shape(name, body, 'op variant %s not found' % v, props=prop_of[inst])
                continue
            found = []
            r, _ = _gate_eval(ctx, body, op_adt, v, LT, found)
            if not found:
                ctx.shape(name, body, 'no dot gate in arm %s (see GATE)' % v, props=prop_of[inst])
                continue
            g = found[0]
            sites = []
            for bb, c in it.calls.items():
                if is_call(c.term, ('apply', 'merge'), self_adt='VClock') and len(c.args) == 2:
                    if versionless(c.args[0].val) == g['clock'] and c.args[0].is_mut_ref:
                        d = versionless(c.args[1].val)
                        if d == g['dot'] or (is_call(d, 'from') and d[2] and versionless(d[2][0]) == g['dot']):
                            sites.append(bb)
                elif call_name(c.term) == 'insert' and len(c.args) == 3 and c.args[0].is_mut_ref and bb in r.reachable \
                        and versionless(c.args[0].val) == ('field', g['clock'], 'dots') \
                        and versionless(c.args[1].val) == ('field', g['dot'], 'actor') and versionless(c.args[2].val) == ('field', g['dot'], 'counter'):
                    # under the gate (clock.get(actor) < counter) storing the counter directly is what `apply` does; the store is
                    # only looked for on the paths the gate {Lt} leaves (GATE keeps every state write of the arm there)
                    sites.append(bb)
            det = {'clock': fmt(g['clock']), 'dot': fmt(g['dot']), 'absorb_sites': [block_line(it, b) for b in sites]}
            if not sites:
                ctx.fail(name, body, 'the op dot is never joined into %s' % fmt(g['clock']), details=det, props=prop_of[inst])
            elif not r.must_pass(sites):
                p = r.escape_path(sites)
                ctx.fail(name, body, 'a path under the gate returns without joining the dot into the replica clock: bb%s'
                         % '->bb'.join(map(str, p or [])), details=det, props=prop_of[inst])
            else:
                ctx.ok(name, body, 'dot absorbed into replica clock on every gated path', details=det,
                       line=block_line(it, sites[0]), props=prop_of[inst])


@rule('ABSORB-MERGE', {
    'C09': 'a merged-in update that is not in the clock is adopted again from any stale state',
    'C03': 'an op already contained in a merged state must be a no-op when delivered later; the gate only looks at the clock',
    'C07': 'the add context must cover everything the replica has applied',
    'C02': 'the clock of a merged state decides what the next merge drops or keeps: with other.clock not joined, (a+b)+c and a+(b+c) differ',
    'C04': 'Orswot: a remove context read after the merge must cover the merged-in adds (it is read off the replica clock)',
    'C05': 'Map: same for key removes',
    'C08': 'the growth of the replica clock by a merge is what makes a pending remove applicable (DEF-REEXAM)',
    'C20': 'replicas that learned the same updates, one of them through a merge, must hold the same clock',
}, floor=2, inst_filter={'C04': lambda i: i.startswith('orswot') or i in ('floor', 'anchor', 'internal'),
                         'C05': lambda i: i.startswith('map') or i in ('floor', 'anchor', 'internal')})
def absorb_merge(ctx):
    """Orswot/Map merge joins other.clock into self.clock on every path."""
    facts = ctx.facts
    for inst, adt in (('orswot', ORSWOT), ('map', MAP)):
        body = ctx.method(adt, 'CvRDT', 'merge')
        it = interp(facts, body)
        clock_fields = _clock_fields(facts, adt)
        sites = []
        for bb, c in it.calls.items():
            if is_call(c.term, 'merge', self_adt='VClock') and len(c.args) == 2 and c.args[0].is_mut_ref:
                a, b = param_path(c.args[0].val), param_path(c.args[1].val)
                if a and b and a[0] == 1 and b[0] == 2 and a[1] == b[1] and a[1] in clock_fields:
                    sites.append(bb)
        r = Reach(facts, body, Evaluator(facts))
        if not sites:
            ctx.fail(inst, body, 'merge never joins other.clock into self.clock')
        elif not r.must_pass(sites):
            ctx.fail(inst, body, 'a path through merge skips joining other.clock into self.clock: bb%s'
                     % '->bb'.join(map(str, r.escape_path(sites) or [])))
        else:
            ctx.ok(inst, body, 'self.clock ⊔= other.clock on every path', line=block_line(it, sites[0]))


def _clock_fields(facts, adt):
    a = facts.adts.get(adt)
    out = set()
    if a:
        for f in a['variants'][0]['fields']:
            if f['ty'].get('k') == 'adt' and f['ty']['path'] == VCLOCK:
                out.add((f['name'],))
    return out


def _stamp_sites(it, g, entries_field=None, sub=()):
    """Calls VClock::apply(<element of a self container>[.sub], gate dot)."""
    out = []
    for bb, c in it.calls.items():
        if is_call(c.term, 'apply', self_adt='VClock') and len(c.args) == 2 and c.args[0].is_mut_ref:
            if versionless(c.args[1].val) != g['dot']:
                continue
            ev = elem_value_of(c.args[0].val)
            if ev is None:
                continue
            cont, key, part, s = ev
            pp = param_path(cont)
            if pp and pp[0] == 1 and part == 'value' and tuple(s) == tuple(sub):
                out.append((bb, pp[1], key))
        elif call_name(c.term) == 'insert' and len(c.args) == 3 and c.args[0].is_mut_ref and not sub:
            # a member that is not there yet may be entered with the clock holding exactly the dot: `insert(member, VClock::from(dot))`
            # (VC-ACCESS/from-dot: that is the empty clock with the dot applied)
            v = drop_lv(c.args[2].val)
            pp = param_path(c.args[0].val)
            from_dot = is_call(v, ('from', 'into')) and len(v[2]) == 1 and versionless(v[2][0]) == g['dot'] \
                and 'VClock' in (cinfo(v[1])['def'] or '') + str(cinfo(v[1]).get('self_ty') or '')
            # .. or, seen through the conversion (helper-inlining views): a fresh clock with the dot applied
            applied = v[0] == 'post' and is_call(v[1], 'apply', self_adt='VClock') and len(v[1][2]) == 2 and versionless(v[1][2][1]) == g['dot'] \
                and drop_lv(v[1][2][0])[0] == 'call' and call_name(drop_lv(v[1][2][0])) in ('default', 'new') and not drop_lv(v[1][2][0])[2]
            if (from_dot or applied) and pp and pp[0] == 1 and pp[1]:
                out.append((bb, pp[1], c.args[1].val))
    return out


@rule('STAMP', {
    'C04': 'an add that does not stamp every listed member leaves that member absent',
    'C05': 'an update that does not stamp the entry clock / forward the nested op loses the update',
    'C08': 'an update overtaken by a remove must still be applied in full when it arrives: what the nested op does beyond its own dot is otherwise lost, and causal delivery would have kept it',
    'C03': 'the merge of the writer\'s state carries the stamped member / the nested update: op delivery must leave the same',
    'C20': 'the witness clock of a member is part of the state replicas with equal knowledge must agree on',
}, floor=2, inst_filter={'C08': lambda i: i.startswith('map') or i in ('floor', 'anchor', 'internal')})
def stamp(ctx):
    """Orswot Add: for every member of the op the member's witness clock absorbs the op dot.
    Map Up: the entry clock absorbs the dot and the nested op reaches entry.val.apply."""
    facts = ctx.facts
    # ---- Orswot
    body = ctx.method(ORSWOT, 'CmRDT', 'apply')
    it = interp(facts, body)
    found = []
    r, _ = _gate_eval(ctx, body, 'crdts::orswot::Op', 'Add', LT, found)
    if not found:
        ctx.shape('orswot/Add', body, 'no dot gate (see GATE)', props=['C04', 'C03', 'C20'])
    else:
        g = found[0]
        sts = _stamp_sites(it, g)
        ok = False
        msg = 'no VClock::apply(entries[member], dot) in the Add arm'
        for bb, cpath, key in sts:
            src = as_item(key)
            if src is None:
                msg = 'stamped member is not an item of an iteration over the op members'
                continue
            base, kind, clo = iter_source(src)
            pp = param_path(base)
            lossy = set(iter_adaptors(src)) & LOSSY_ADAPTORS
            if not (pp and pp[0] == 2 and pp[1] and pp[1][-1].endswith('members')) or clo or lossy:
                msg = 'the stamping loop does not range over all members of the op (source %s, adaptors %s)' % (fmt(base), sorted(lossy))
                continue
            lp = innermost_loop(it, bb)
            if lp is None:
                msg = 'stamp is not inside a loop over the members'
                continue
            head, blocks = lp
            # the block that binds the item: successor of the `next` switch on Some
            starts = [x for x in blocks if x in it.switches and as_item(('field', it.switches[x].discr[1], 'Some.0')) is not None
                      and it.switches[x].discr[0] == 'discr']
            start = None
            for x in starts:
                for val, tb in it.switches[x].targets:
                    if val == 1:
                        start = tb
            if start is None:
                msg = 'loop shape not recognised'
                continue
            same_loop = [b_ for b_, _p, _k in sts if b_ in blocks]
            if not r.must_pass(same_loop, start=start, stops=(head,)):
                p = r.escape_path(same_loop, start=start, stops=(head,))
                msg = 'an iteration can finish without stamping the member: bb%s' % '->bb'.join(map(str, p or []))
                continue
            if bb not in r.reachable:
                msg = 'stamp not reachable under the gate'
                continue
            ok = True
            ctx.ok('orswot/Add', body, 'every member of the op is stamped with the op dot', line=block_line(it, bb),
                   details={'container': '.'.join(cpath), 'key': fmt(key), 'dot': fmt(g['dot'])}, props=['C04', 'C03', 'C20'])
            break
        if not ok:
            ctx.fail('orswot/Add', body, msg, props=['C04', 'C03', 'C20'])
    # ---- Map
    body = ctx.method(MAP, 'CmRDT', 'apply')
    it = interp(facts, body)
    found = []
    r, _ = _gate_eval(ctx, body, 'crdts::map::Op', 'Up', LT, found)
    if not found:
        ctx.shape('map/Up', body, 'no dot gate (see GATE)', props=['C05', 'C03', 'C20'])
        return
    g = found[0]
    sts = [s for s in _stamp_sites(it, g, sub=('clock',))]
    key_ok = [s for s in sts if param_path(s[2]) and param_path(s[2])[0] == 2 and param_path(s[2])[1][-1:] == ('Up.key',)]
    nested = []
    for bb, c in it.calls.items():
        info = cinfo(c.cid)
        if info['name'] == 'apply' and (info['trait'] or '').endswith('CmRDT') and len(c.args) == 2 and c.args[0].is_mut_ref:
            ev = elem_value_of(c.args[0].val)
            pp = param_path(c.args[1].val)
            if ev and tuple(ev[3]) == ('val',) and pp and pp[0] == 2 and pp[1][-1:] == ('Up.op',):
                kp = param_path(ev[1])
                cp = param_path(ev[0])
                if kp and kp[0] == 2 and kp[1][-1:] == ('Up.key',) and cp and cp[0] == 1:
                    nested.append(bb)
    if not key_ok:
        ctx.fail('map/Up', body, 'the entry clock of op.key is not stamped with the op dot', props=['C05', 'C08', 'C03', 'C20'])
    elif not nested:
        ctx.fail('map/Up', body, 'the nested op is not forwarded to entries[op.key].val.apply', props=['C05', 'C08', 'C03', 'C20'])
    elif not r.must_pass([s[0] for s in key_ok]) or not r.must_pass(nested):
        ctx.fail('map/Up', body, 'a gated path skips stamping the entry clock or forwarding the nested op', props=['C05', 'C08', 'C03', 'C20'])
    else:
        ctx.ok('map/Up', body, 'entry clock stamped and nested op forwarded on every gated path',
               line=block_line(it, key_ok[0][0]), props=['C05', 'C08', 'C03', 'C20'])
