"""What the analysis has seen: conditional compilation.

The driver sees the crate after cfg-stripping, once per analysed configuration (default profile, release profile, and the
feature set without quickcheck).  Code under any other configuration is invisible to every rule, so a predicate that no
analysed configuration satisfies - or one over a dimension the analysis does not vary (target, pointer width, ..) - means a
part of the crate users may compile was not analysed: reported fail-closed as a shape finding naming the attribute."""
from ..core import rule
from ..props import PROPS
from .common import value_path

# configuration atoms true in each analysed configuration (`test` is false in all of them: the library is analysed as its
# users compile it)
ANALYSED = {
    'default': {'debug_assertions', 'feature=quickcheck', 'feature=num', 'feature=merkle'},
    'release': {'feature=quickcheck', 'feature=num', 'feature=merkle'},
    'noqc': {'debug_assertions', 'feature=num', 'feature=merkle'},
}
KNOWN_ATOMS = {'test', 'debug_assertions', 'feature=quickcheck', 'feature=num', 'feature=merkle'}


class Unknown(Exception):
    pass


def parse(tokens):
    """cfg predicate grammar: ident | ident = "lit" | not(p) | all(p,..) | any(p,..)"""
    pos = [0]

    def peek():
        return tokens[pos[0]] if pos[0] < len(tokens) else None

    def eat(x=None):
        t = peek()
        if t is None or (x is not None and t != x):
            raise Unknown('unexpected %r' % (t,))
        pos[0] += 1
        return t

    def pred():
        name = eat()
        if name in ('not', 'all', 'any') and peek() == '(':
            eat('(')
            args = []
            while peek() != ')':
                args.append(pred())
                if peek() == ',':
                    eat(',')
            eat(')')
            return (name, args)
        if peek() == '=':
            eat('=')
            lit = eat()
            return ('atom', '%s=%s' % (name, lit.strip('"')))
        return ('atom', name)
    p = pred()
    if peek() == ',':
        eat(',')
    if peek() is not None:
        raise Unknown('trailing %r' % peek())
    return p


def atoms(p):
    if p[0] == 'atom':
        return {p[1]}
    return set().union(*[atoms(a) for a in p[1]]) if p[1] else set()


def holds(p, true_atoms):
    if p[0] == 'atom':
        return p[1] in true_atoms
    if p[0] == 'not':
        return not holds(p[1][0], true_atoms)
    if p[0] == 'all':
        return all(holds(a, true_atoms) for a in p[1])
    return any(holds(a, true_atoms) for a in p[1])


@rule('CFG-COVER', {p: 'a clause decided on the analysed configurations says nothing about code compiled only under another one'
                    for p in PROPS}, floor=1, family='COVER')
def cfg_cover(ctx):
    """Every cfg / cfg! / cfg_attr predicate in the crate's sources is over configuration atoms the analysis varies and is
    satisfied by an analysed configuration (or needs `test`, which users never compile)."""
    facts = ctx.facts
    if facts.cfgs is None:
        ctx.shape('cfgs', None, 'the fact file carries no cfg predicate list (old driver?)')
        return
    bad = []
    for c in facts.cfgs:
        try:
            p = parse(_tok(c['tokens']))
        except Unknown as e:
            bad.append((c, 'predicate not understood (%s)' % e))
            continue
        unk = atoms(p) - KNOWN_ATOMS
        if unk:
            bad.append((c, 'depends on %s, a configuration dimension the analysis does not vary' % ', '.join(sorted(unk))))
            continue
        if any(holds(p, a) for a in ANALYSED.values()):
            continue
        if not any(holds(p, a | {'test'}) for a in ANALYSED.values()) or 'test' not in atoms(p):
            bad.append((c, 'holds in none of the analysed configurations (%s)' % ', '.join(sorted(ANALYSED))))
    for c, why in bad:
        ctx.fail('%s(%s)' % (c['kind'], c['pred']), None, 'code under `%s(%s)` at %s:%s is compiled for some users but was not analysed: %s'
                 % (c['kind'], c['pred'], c['file'], c['line'], why), line=c['line'], fnkey=c['file'])
    ctx.check(not bad, 'predicates', None, '%d cfg predicates, all over {test, debug_assertions, feature=quickcheck|num|merkle} and each '
              'satisfied by an analysed configuration or test-only' % len(facts.cfgs),
              '%d cfg predicates select code the analysis has not seen' % len(bad), nontrivial=bool(facts.cfgs))


def _tok(tokens):
    # the driver records the tokens from the opening parenthesis of cfg(..) on; drop that parenthesis
    t = list(tokens)
    if t and t[0] == '(':
        t = t[1:]
    return t


INTERIOR = ('cell::Cell', 'cell::RefCell', 'cell::UnsafeCell', 'cell::OnceCell', 'cell::LazyCell', 'sync::Mutex', 'sync::RwLock',
            'sync::OnceLock', 'sync::LazyLock', 'sync::atomic::', 'sync::nonpoison::', 'sync::poison::')


def _interior(ty):
    """Names an interior-mutability or raw-pointer type anywhere inside the dumped type?"""
    if not isinstance(ty, dict):
        return None
    if ty.get('k') == 'adt' and any(x in (ty.get('path') or '') for x in INTERIOR):
        return ty['path']
    if ty.get('k') in ('rawptr', 'ptr') or str(ty.get('s', '')).startswith(('*mut ', '*const ')):
        return ty.get('s')
    for a in ty.get('args') or []:
        r = _interior(a)
        if r:
            return r
    for key in ('inner', 'elem', 'ty'):
        if isinstance(ty.get(key), dict):
            r = _interior(ty[key])
            if r:
                return r
    return None


@rule('ALIAS-PRECOND', {p: 'every effect clause assumes that state changes only through a `&mut` path from a parameter; unsafe code, '
                           'global state or interior mutability would let a function the rules call read-only change a replica'
                        for p in PROPS}, floor=2, family='COVER')
def alias_precond(ctx):
    """The crate has no user-written unsafe block / fn, no `static mut` or interior-mutable static, and no field of an interior-mutability or raw-pointer
    type: mutation is visible to the effect analysis as a `&mut` borrow."""
    facts = ctx.facts
    if facts.escapes is None:
        ctx.shape('escapes', None, 'the fact file carries no unsafe/static list (old driver?)')
        return
    esc = [e for e in facts.escapes if not (e['kind'] == 'static' and e.get('freeze'))]   # an immutable static of plain data is a constant
    for e in esc:
        ctx.fail('%s/%s' % (e['kind'], e['in'].replace('crdts::', '')), None,
                 '%s in %s (%s:%s): state can change outside the `&mut` paths the effect analysis follows%s'
                 % (e['kind'], e['in'], e['file'], e['line'], (' (type %s)' % e['ty']) if e.get('ty') else ''),
                 line=e['line'], fnkey=e['in'])
    ctx.check(not esc, 'unsafe-static', None, 'no user-written unsafe block or fn and no mutable or interior-mutable static in %d bodies'
              % len(facts.bodies), '%d unsafe / static constructs' % len(esc))
    nf, bad = 0, 0
    for path, adt in sorted(facts.adts.items()):
        if not path.startswith('crdts::'):
            continue
        for v in adt['variants']:
            for f in v['fields']:
                nf += 1
                hit = _interior(f['ty'])
                if hit:
                    bad += 1
                    ctx.fail('field/%s.%s' % (path.replace('crdts::', ''), f['name']), None,
                             'field %s.%s has type %s: it can be written through a shared reference, which the effect analysis '
                             'does not follow' % (path, f['name'], f['ty'].get('s')), fnkey=path)
    ctx.check(not bad, 'fields', None, '%d fields of %d crate types, none of an interior-mutability or raw-pointer type'
              % (nf, sum(1 for p in facts.adts if p.startswith('crdts::'))), '%d fields with interior mutability' % bad)


# provided (defaulted) methods of the std traits crate types implement: an inherent method of that name shadows them too
STD_PROVIDED = {
    'PartialEq': ['ne'], 'PartialOrd': ['lt', 'le', 'gt', 'ge'], 'Ord': ['max', 'min', 'clamp'], 'Clone': ['clone_from'],
    'Hash': ['hash_slice'],
}
# inherent methods that legitimately share a name with a trait method of the same type: (type, method) -> reason
SHADOW_OK = {
    ('crdts::merkle_reg::Node', 'hash'): 'Node::hash(&self) is the content hash (rule MK-HASH); the derived Hash::hash takes a hasher, so the '
                                         'two never compete for the same call',
}


def _is_delegation(facts, body, trait_uids):
    """The inherent method only forwards its parameters, in order, to the trait method of the same name."""
    from ..interp import interp, cinfo
    from ..terms import drop_lv
    it = interp(facts, body)
    calls = [c for c in it.calls.values() if cinfo(c.cid)['local']]
    if len(calls) != 1 or cinfo(calls[0].cid)['uid'] not in trait_uids:
        return False
    args = [drop_lv(a.val) for a in calls[0].args]
    return len(args) == body.arg_count and all(value_path(a) == (i + 1, ()) for i, a in enumerate(args)) and len(it.calls) == 1


@rule('SHADOW', {p: 'method-call syntax prefers an inherent method over a trait method of the same name: every caller written as '
                    '`x.merge(..)`, `x.apply(..)`, `x.clone()`, `a.partial_cmp(b)` silently changes meaning, while the rules keep '
                    'checking the trait impl nobody calls any more'
                 for p in PROPS}, floor=1, family='COVER')
def shadow(ctx):
    """No crate type has an inherent method named like a method of a trait it implements (unless it merely delegates)."""
    facts = ctx.facts
    inh, trm = {}, {}
    local_items = {t['trait']: [i['name'] for i in t.get('items', []) if i.get('kind') == 'Fn'] for t in facts.traits}
    for im in facts.impls:
        sk = str(im.get('self_key') or '')
        if not sk.startswith('crdts::'):
            continue
        if im.get('trait'):
            names = {m.split('::')[-1]: m for m in im['methods']}
            for n in local_items.get(im['trait'], []) + STD_PROVIDED.get(im['trait'].split('::')[-1], []):
                names.setdefault(n, None)
            for n, uid in names.items():
                trm.setdefault(sk, {}).setdefault(n, []).append((im['trait'], uid))
        else:
            for m in im['methods']:
                inh.setdefault(sk, {})[m.split('::')[-1]] = m
    n_inh, bad = 0, 0
    for sk in sorted(inh):
        for n, uid in sorted(inh[sk].items()):
            n_inh += 1
            hit = trm.get(sk, {}).get(n)
            if not hit or (sk, n) in SHADOW_OK:
                continue
            b = facts.by_uid.get(uid)
            if b is not None and _is_delegation(facts, b, set(u for _, u in hit if u)):
                continue
            bad += 1
            ctx.fail('%s::%s' % (sk.replace('crdts::', ''), n), b, 'inherent method %s::%s has the name of %s::%s, which the type implements: '
                     '`x.%s(..)` now resolves to the inherent method in every caller' % (sk, n, hit[0][0], n, n), fnkey=sk + '::' + n)
    ctx.check(not bad, 'inherent-vs-trait', None, '%d inherent methods of crate types, none shadows a method of a trait the type implements '
              '(%d listed exceptions)' % (n_inh, len(SHADOW_OK)), '%d inherent methods shadow trait methods' % bad)


_W = {'u8': 8, 'u16': 16, 'u32': 32, 'u64': 64, 'u128': 128, 'i8': 8, 'i16': 16, 'i32': 32, 'i64': 64, 'i128': 128}


def _int_range(name, as_dest):
    """(signed, bits); usize/isize are 64 bits as a source and 32 as a destination (the crate builds for both)."""
    if name in ('usize', 'isize'):
        return (name[0] == 'i', 32 if as_dest else 64)
    if name in _W:
        return (name[0] == 'i', _W[name])
    return None


def _lossless(src, dst):
    a, b = _int_range(src, False), _int_range(dst, True)
    if src in ('bool', 'char') or a is None or b is None:
        return src in ('bool',) or (src == 'char' and dst in ('u32', 'u64', 'u128', 'i64', 'i128'))
    (ss, sb), (ds, db) = a, b
    if not ss and not ds:
        return db >= sb
    if not ss and ds:
        return db > sb
    if ss and ds:
        return db >= sb
    return False


def _has_float(ty):
    if not isinstance(ty, dict):
        return False
    if ty.get('k') == 'prim' and ty.get('name') in ('f32', 'f64', 'f16', 'f128'):
        return True
    return any(_has_float(a) for a in (ty.get('args') or []) + (ty.get('elems') or []) + [ty.get('ty'), ty.get('inner'), ty.get('elem')] if a)


@rule('NUM-EXACT', {p: 'counters, identifiers and hashes are exact integers for every value: one that passes through a float or a narrower '
                       'integer on its way (a decoder, a conversion, a size computation) is changed for large values, and every property '
                       'quantifies over all of them'
                    for p in PROPS}, floor=1, family='COVER')
def num_exact(ctx):
    """Hand-written code of the crate holds no floating-point value and performs no lossy integer cast."""
    facts = ctx.facts
    nb, bad = 0, 0
    for b in facts.bodies:
        if b.derived or b.kind == 'Promoted':
            continue
        nb += 1
        fl = sorted(set(l['ty'].get('s', '?') for l in b.locals if _has_float(l.get('ty'))))
        if fl:
            bad += 1
            ctx.fail('float/' + b.key.replace('crdts::', ''), b, '%s holds floating-point values (%s): an integer that passes through them is '
                     'rounded above 2^53' % (b.key, ', '.join(fl[:3])), fnkey=b.key)
        for blk in b.blocks:
            for st in blk['stmts']:
                rv = st.get('rv') if st.get('k') == 'assign' else None
                if not isinstance(rv, dict) or rv.get('k') != 'cast' or (st.get('span') or {}).get('exp'):
                    continue
                kind, src, dst = rv.get('cast'), (rv.get('from') or {}).get('name'), (rv.get('ty') or {}).get('name')
                if kind in ('FloatToInt', 'IntToFloat', 'FloatToFloat') or (kind == 'IntToInt' and src and dst and not _lossless(src, dst)):
                    bad += 1
                    ctx.fail('cast/%s/%s->%s' % (b.key.replace('crdts::', ''), src, dst), b,
                             '%s casts %s to %s (%s), which does not preserve every value' % (b.key, src, dst, kind),
                             line=(st.get('span') or {}).get('line'), fnkey=b.key)
    ctx.check(not bad, 'casts-floats', None, 'no float value and no lossy numeric cast in %d hand-written bodies' % nb,
              '%d lossy numeric constructs' % bad)
