"""A.2 — remove routines and deferral (RM, DEF-DECIDE, DEF-REEXAM, DEF-TAKE, DEF-MERGE)."""
from ..core import rule
from ..terms import drop_lv
from .common import *
from .gates import _gate_eval, GATED

ADDING = {'insert', 'entry', 'extend', 'append', 'or_default', 'or_insert', 'or_insert_with', 'push', 'try_insert'}
EMPTYING = {'take', 'replace', 'drain', 'clear'}

ORS_MAP = {'C04': lambda i: i.startswith('orswot') or i in ('floor', 'anchor', 'internal'), 'C05': lambda i: i.startswith('map') or i in ('floor', 'anchor', 'internal')}
TYPES = [('orswot', ORSWOT, 'crdts::orswot::Op', 'Add'), ('map', MAP, 'crdts::map::Op', 'Up')]
EL = {'orswot': 'C04', 'map': 'C05'}


def roles(facts, adt):
    """Type-driven field roles of Orswot/Map: clock (VClock), deferred (map keyed by VClock), entries (other map)."""
    a = facts.adts.get(adt)
    r = {'clock': None, 'deferred': None, 'entries': None}
    if not a:
        return r
    for f in a['variants'][0]['fields']:
        ty = f['ty']
        if ty.get('k') == 'adt' and ty['path'] == VCLOCK:
            r['clock'] = f['name']
        elif ty.get('k') == 'adt' and ty['path'].endswith(('HashMap', 'BTreeMap')) and ty['args']:
            k0 = ty['args'][0]
            if k0.get('k') == 'adt' and k0['path'] == VCLOCK:
                r['deferred'] = f['name']
            else:
                r['entries'] = f['name']
    return r


def adt_bodies(facts, adt):
    out = []
    for b in facts.bodies:
        if b.derived or b.kind == 'Closure':
            continue
        if b.impl_self == adt and (b.impl_trait is None or b.impl_trait.startswith('crdts::')):
            out.append(facts._v(b))
    return out


def direct_adding_sites(facts, it, field):
    """Blocks of this body that add to self.<field> directly (not through crate-local callees)."""
    out = []
    for bb, c in it.calls.items():
        info = cinfo(c.cid)
        if info['local']:
            continue
        for i, a in enumerate(c.args):
            if a.is_mut_ref and a.loc is not None and (bb, i) in it.muts:
                tgt = loc_target(it, a.loc)
                if tgt and tgt[0] == 1 and tgt[1][:1] == (field,) and info['name'] in ADDING:
                    out.append(bb)
    return sorted(set(out))


def deferred_adders(facts, adt):
    """Every body of the type that adds to the pending table directly: each of them must take the deferral decision."""
    r = roles(facts, adt)
    out = []
    if not r['deferred']:
        return out
    for b in adt_bodies(facts, adt):
        from ..inline import _remove_routines
        if facts.view in ('i', 'is', 'p', 'ps') and b.vis not in ('pub', None) and b.impl_trait is None \
                and b.base_uid not in _remove_routines(facts):
            continue   # a private helper: in this view it is judged as part of each caller it is inlined into
        it = interp(facts, b)
        sites = [bb for bb in direct_adding_sites(facts, it, r['deferred']) if not _is_rebuild(it, bb, r['deferred'])]
        if sites:
            out.append((b, it, sites))
    return out


def _is_rebuild(it, bb, field):
    """The insertion at bb puts back an entry of the replica's OWN pending table that was taken out of self before the
    loop (`for (c, k) in mem::take(&mut self.deferred) { .. self.deferred.insert(c, k) }`): an entry that is already pending is
    re-filed (after being trimmed), no new remove is remembered.  Entries of another replica's table do not qualify."""
    c = it.calls[bb]
    vals = [a.val for a in c.args[1:]]
    if not vals:
        return False

    def own_taken(src):
        # the walked table is the old value of self.<field> (mem::take / replace hand out that very value; iterating the field in
        # place while inserting into it does not borrow-check)
        return param_path(iter_source(src)[0]) == (1, (field,))
    for v in vals:
        items = [st for st in subterms(versionless(v)) if st[0] == 'item' or (st[0] == 'field' and st[2] == 'Some.0' and is_call(st[1], 'next'))]
        srcs = [st[1] if st[0] == 'item' else st[1][2][0] for st in items if (st[0] == 'item' or st[1][2])]
        if not srcs or not all(own_taken(s_) for s_ in srcs):
            return False
    return True


def rm_routines(facts, adt):
    """The remove routines of the type: the smallest functions that (transitively) both subtract from elements of
    `entries` and may remember the remove in the pending table (no single call inside them does both).  Each is returned
    with its private helpers inlined, so that the subtraction and the deferral decision are visible in one body however
    the routine is split into helpers."""
    from ..inline import inlined
    from ..summaries import effects
    r = roles(facts, adt)
    out = []
    if not r['deferred']:
        return out
    for b in facts.bodies:
        if b.derived or b.kind == 'Closure' or b.impl_self != adt or not (b.impl_trait is None or b.impl_trait.startswith('crdts::')):
            continue
        effs = [e for e in effects(facts, b) if e.param == 1]
        adds = any(e.path[:1] == (r['deferred'],) and e.how in ADDING for e in effs)
        elems = any(e.path[:1] == (r['entries'],) and (e.kind == 'ew' or e.how in ('remove', 'retain')) for e in effs)
        if not (adds and elems):
            continue
        it0 = interp(facts, b)
        if any(is_rm_call(facts, it0, bb, r) for bb in it0.calls):
            continue
        bi = inlined(facts, b, t1=True, t2=facts.view in ('s', 'is', 'ps'))
        iti = interp(facts, bi)
        sites = direct_adding_sites(facts, iti, r['deferred'])
        if sites:
            out.append((bi, iti, sites))
    return out


def is_rm_call(facts, it, bb, r):
    """The call at bb performs a whole remove on self: (transitively) it subtracts from elements of entries AND may
    remember the remove in the pending table.  A helper that only files the remove, or only strips entries, is not one."""
    c = it.calls.get(bb)
    if c is None or not cinfo(c.cid)['local']:
        return False
    effs = [e for e in call_effects(facts, it, bb) if e.param == 1]
    adds = any(e.path[:1] == (r['deferred'],) and e.how in ADDING for e in effs)
    elems = any(e.path[:1] == (r['entries'],) and (e.kind == 'ew' or e.how in ('remove', 'retain')) for e in effs)
    return adds and elems


def defer_classifier(found, clock_field):
    """ordering of (remove clock X, replica clock): one side is self.<clock>, the other a VClock not rooted at self."""
    def classify(a, b, t):
        if t[0] != 'call':
            return None
        info = cinfo(t[1])
        if info['self'] != VCLOCK:
            return None
        pa, pb = param_path(a), param_path(b)
        a_self = pa is not None and pa[0] == 1 and pa[1] == (clock_field,)
        b_self = pb is not None and pb[0] == 1 and pb[1] == (clock_field,)
        if a_self == b_self:
            return None
        x = b if a_self else a
        px = param_path(x)
        if px is not None and px[0] == 1:
            return None
        found.append(versionless(x))
        return ('defer', 'fwd' if b_self else 'rev')
    return classify


@rule('DEF-DECIDE', {
    'C09': 'an element whose adds are all covered by an applied remove must stay absent: a remove that arrived first has to be remembered in full',
    'C08': 'deferring only when the remove clock is strictly ahead loses removes whose context is concurrent with the replica',
    'C04': 'a remove the replica has applied must still cover the adds it observed when they arrive later (all delivery schedules)',
    'C05': 'same for key removes of Map',
    'C20': 'storing a remove the replica clock already covers leaves a stale pending remove (residue); dropping part of a pending remove makes replicas with the same knowledge differ',
    'C02': 'merge files the other replica\'s pending removes through this very routine: if part of a pending remove is dropped or the '
           'decision depends on which side holds it, (a+b)+c and a+(b+c) remember different removes',
    'C03': 'a remove delivered as an op and the same remove arriving inside a merged state are filed by the same routine and must end '
           'up equally remembered',
}, floor=2)
def def_decide(ctx):
    """A remove is written to the pending table exactly when partial_cmp(rm.clock, self.clock) is Greater or None."""
    facts = ctx.facts
    for inst, adt, _, _ in TYPES:
        r = roles(facts, adt)
        rms = deferred_adders(facts, adt)
        if not rms:
            ctx.fail(inst, None, 'no function of %s ever adds to the pending-remove table %s' % (adt, r['deferred']))
            continue
        cases = []
        for body, it, sites in rms:
            found = []
            Reach(facts, body, Evaluator(facts, classify=defer_classifier(found, r['clock'])))
            if found:
                cases.append((body, it, sites, body, it, None))
                continue
            # a helper that only files the remove: the decision has to be taken by every caller, at the call
            keypar = None
            for bb in sites:
                for a in it.calls[bb].args:
                    for st in subterms(versionless(a.val)):
                        if st[0] == 'param' and st[1] >= 2 and keypar is None and 'VClock' in str(body.locals[st[1]]['ty'].get('s', '')):
                            keypar = st[1]
            callers = []
            if body.vis not in ('pub', None) and body.impl_trait is None and body.kind != 'Closure':
                for cb_ in adt_bodies(facts, adt):
                    cit = interp(facts, cb_)
                    cs = [bb for bb, c in cit.calls.items() if cinfo(c.cid)['uid'] == body.base_uid]
                    if cs:
                        callers.append((cb_, cit, cs))
            if not callers or keypar is None:
                ctx.fail(inst, body, 'pending removes are stored without comparing the remove clock with the replica clock',
                         line=block_line(it, sites[0]))
                continue
            for cb_, cit, cs in callers:
                cases.append((cb_, cit, cs, body, it, keypar))
        for body, it, sites, abody, ait, keypar in cases:
            key_sites = list(sites)
            sites = _lift_loop_sites(facts, body, it, sites)
            found = []
            evr = Evaluator(facts, classify=defer_classifier(found, r['clock']))
            Reach(facts, body, evr)
            name = inst
            if not found:
                ctx.fail(name, body, 'pending removes are stored without comparing the remove clock with the replica clock',
                         line=block_line(it, sites[0]))
                continue
            may, must = {}, {}
            for o in PARTIAL:
                ev2 = Evaluator(facts, classify=defer_classifier([], r['clock']), assumption={'defer': o})
                rc = Reach(facts, body, ev2)
                may[o] = [bb for bb in sites if bb in rc.reachable]
                must[o] = rc.must_pass(sites)
            det = {'rm_clock': fmt(found[0]), 'may': {o: [block_line(it, b) for b in may[o]] for o in PARTIAL},
                   'must': must}
            # key stored = the compared clock
            keyed = False
            for bb in key_sites:
                c = it.calls[bb]
                if keypar is not None:
                    # the helper files the remove under its parameter `keypar`: that argument must be the compared clock
                    if keypar - 1 < len(c.args) and versionless(c.args[keypar - 1].val) == found[0]:
                        keyed = True
                    continue
                for a in c.args[1:]:
                    if versionless(a.val) == found[0]:
                        keyed = True
                for a in c.args[:1]:
                    for st in subterms(versionless(a.val)):
                        if st == found[0]:
                            keyed = True
            lost = [o for o in (GT, NONE) if not must[o]]
            stale = [o for o in (LT, EQ) if may[o]]
            if lost:
                ctx.fail(name + '/must', body, 'a remove whose clock is %s the replica clock can return without being remembered'
                         % ' / '.join({'Gt': 'ahead of', 'None': 'concurrent with'}[o] for o in lost),
                         line=block_line(it, sites[0]), details=det, props=['C08', 'C09', 'C02', 'C03', EL[inst]])
            else:
                ctx.ok(name + '/must', body, 'remembered under {Gt, None}', line=block_line(it, sites[0]), details=det, props=['C08', 'C09', 'C02', 'C03', EL[inst]])
            if stale:
                ctx.fail(name + '/may', body, 'a remove already covered by the replica clock (%s) is stored as pending'
                         % ','.join(stale), line=block_line(it, may[stale[0]][0]), details=det, props=['C20'])
            else:
                ctx.ok(name + '/may', body, 'stored only under {Gt, None}', line=block_line(it, sites[0]), details=det, props=['C20'])
            ctx.check(keyed, name + '/key', body, 'pending remove is keyed by the compared clock',
                      'the clock stored in the pending table is not the clock that was compared', details=det,
                      props=['C08', 'C09', 'C02', 'C03', EL[inst]])
            # accumulate: elements already pending under the same clock must not be discarded
            inserts, unions = [], []
            for bb2, c2 in ait.calls.items():
                n = call_name(c2.term)
                if not c2.args or not c2.args[0].is_mut_ref:
                    continue
                pp = param_path(c2.args[0].val)
                if n in ('insert', 'try_insert') and pp and pp[0] == 1 and pp[1] == (r['deferred'],) and len(c2.args) == 3:
                    inserts.append(bb2)
                ev = elem_value_of(c2.args[0].val)
                if n in ('extend', 'append', 'insert', 'union', 'extend_from_slice') and ev and param_path(ev[0]) == (1, (r['deferred'],)):
                    unions.append(bb2)

            unions = _lift_loop_sites(facts, abody, ait, unions)

            def present_atom(t):
                if t[0] == 'discr' and is_call(t[1], ('get', 'get_mut')) and len(t[1][2]) == 2 and param_path(t[1][2][0]) == (1, (r['deferred'],)):
                    return ('map', 'present', {True: 1, False: 0})
                if is_call(t, ('contains_key',)) and len(t[2]) == 2 and param_path(t[2][0]) == (1, (r['deferred'],)):
                    return 'present'
                return None
            acc = {}
            hit = False
            for pres in (True, False):
                # in both cases in which the remove is remembered: its clock strictly ahead of ours (Gt) or concurrent with it (None)
                row = []
                for o_ in (GT, NONE):
                    ev3 = Evaluator(facts, classify=defer_classifier([], r['clock']), bool_atom=present_atom, assumption={'defer': o_, 'present': pres})
                    rc3 = Reach(facts, abody, ev3)
                    row.append((any(b in rc3.reachable for b in inserts), rc3.must_pass(unions) if unions else False,
                                rc3.must_pass(inserts + unions) if (inserts or unions) else False))
                    hit = hit or bool(ev3.hits.get('present'))
                acc[pres] = (any(x[0] for x in row), all(x[1] for x in row), all(x[2] for x in row))
            aerrs = []
            if inserts and (not hit or acc[True][0]):
                aerrs.append('a remove deferred under a clock that already has pending elements overwrites them (insert replaces the stored set)')
            elif inserts and not acc[True][1]:
                aerrs.append('elements already pending under the same clock are not merged with the new ones')
            elif not inserts and not acc[True][1]:
                aerrs.append('the new elements are not added to the pending set')
            ctx.check(not aerrs, name + '/accumulate', abody, 'pending elements under the same clock are accumulated, never replaced',
                      aerrs[0] if aerrs else '', details={'present -> (insert may, union must, any must)': {str(k): v for k, v in acc.items()}},
                      props=['C08', 'C09', 'C20', 'C02', 'C03', EL[inst]])


def _lift_loop_sites(facts, body, it, sites):
    """A site that adds ONE incoming element per iteration of a complete loop over the incoming elements
    (`for m in members { existing.insert(m) }` instead of `existing.extend(members)`) stands for the whole loop: whether it is
    passed is asked of the loop head (an empty batch adds nothing in either spelling)."""
    from .loops import loops_of, item_derived
    out = []
    lps = None
    for bb in sites:
        if lps is None:
            lps = loops_of(it)
            rc0 = Reach(facts, body, Evaluator(facts))
        best = None
        for lp in lps:
            if bb in lp.blocks and (best is None or len(lp.blocks) < len(best.blocks)):
                best = lp
        c = it.calls.get(bb)
        if best is not None and c is not None and not best.early_exits() and best.must(rc0, [bb]) \
                and any(item_derived(a.val, best) for a in c.args[1:]):
            base = iter_source(best.src)[0]
            pp = param_path(base)
            partial = set(iter_adaptors(best.src)) & {'skip', 'take', 'step_by', 'skip_while', 'take_while', 'filter', 'filter_map'}
            if not (pp and pp[0] == 1) and not partial:          # the loop ranges over ALL of something handed in, not over self
                out.append(best.head)
                continue
        out.append(bb)
    return sorted(set(out))


def _rm_elem_sites(facts, it, r, sub=()):
    """reset_remove(<entries[k]>[.sub], X) call sites with X not rooted at self."""
    out = []
    for bb, c in it.calls.items():
        if call_name(c.term) != 'reset_remove' or len(c.args) != 2 or not c.args[0].is_mut_ref:
            continue
        ev = elem_value_of(c.args[0].val)
        if ev is None:
            continue
        cont, key, part, s = ev
        pp = param_path(cont)
        if not (pp and pp[0] == 1 and pp[1] == (r['entries'],)):
            continue
        if tuple(s) != tuple(sub):
            continue
        out.append((bb, key, versionless(c.args[1].val)))
    return out


@rule('RM', {
    'C09': 'an element whose adds were all covered by an applied remove stays absent only if the remove routine subtracts the whole remove context and prunes: it is also what a remembered (pending) remove is replayed through when the stale adds arrive',
    'C04': 'subtracting anything but the remove context removes unobserved adds; not pruning keeps a removed member visible',
    'C05': 'same for keys; without the nested reset everything the remover saw under a surviving key stays',
    'C08': 'a deferred remove is replayed through this routine',
    'C02': 'merge replays the other side\'s pending removes through this routine (DEF-MERGE): merge of states holding pending removes '
           'is a join only if the routine subtracts exactly the remove context',
    'C03': 'the merge of the remover\'s state drops exactly what the remove context covers and keeps the rest: the remove delivered '
           'as an op must leave the same reads',
}, floor=2)
def rm(ctx):
    """The remove routine subtracts the op clock from each listed element's witness clock, drops the element exactly
    when the result is empty, and (Map) otherwise resets the nested value with the same clock."""
    facts = ctx.facts
    for inst, adt, _, _ in TYPES:
        r = roles(facts, adt)
        props = ['C04', 'C08', 'C03', 'C02'] if inst == 'orswot' else ['C05', 'C08', 'C03', 'C02']
        rms = rm_routines(facts, adt)
        if not rms:
            ctx.shape(inst, None, 'no remove routine found (see DEF-DECIDE)', props=props)
            continue
        rms_with_elems = [(b, i, s_) for b, i, s_ in rms if _rm_elem_sites(facts, i, r, () if inst == 'orswot' else ('clock',))]
        for body, it, _sites in (rms_with_elems or rms):
            sub = () if inst == 'orswot' else ('clock',)
            found = []
            Reach(facts, body, Evaluator(facts, classify=defer_classifier(found, r['clock'])))
            rmclock = found[0] if found else None
            es = _rm_elem_sites(facts, it, r, sub)
            if not es:
                ctx.fail(inst, body, 'the remove routine never subtracts a clock from entries[k]%s' % ''.join('.' + s for s in sub), props=props)
                continue
            for bb, key, x in es:
                line = block_line(it, bb)
                det = {'key': fmt(key), 'subtracted': fmt(x), 'decision_clock': fmt(rmclock) if rmclock else None}
                # (a) what is subtracted is the remove clock, for every listed element
                src = as_item(key)
                ok_src = False
                if src is not None:
                    base, kind, clo = iter_source(src)
                    pb = param_path(base)
                    lossy = set(iter_adaptors(src)) & LOSSY_ADAPTORS
                    ok_src = pb is not None and pb[0] not in (1,) and not clo and not lossy
                px = param_path(x)
                ok_clock = px is not None and px[0] != 1 and (rmclock is None or x == rmclock)
                ctx.check(ok_clock, inst + '/clock', body, 'subtracts the remove clock',
                          'the clock subtracted from the element (%s) is not the remove clock (%s)' % (fmt(x), fmt(rmclock) if rmclock else '?'),
                          line=line, details=det, props=props)
                ctx.check(ok_src, inst + '/all-elements', body, 'every listed element is visited',
                          'the subtraction loop does not range over all elements listed in the remove (key %s)' % fmt(key),
                          line=line, details=det, props=props)
                # (a') .. for every listed element the replica holds, whatever the remove clock is relative to the replica clock: a
                # remove that is ahead of (or concurrent with) the replica still takes the dots it covers away NOW
                from .loops import loop_of_block
                lp_e = loop_of_block(it, bb)

                # (a replica that holds a listed element does not have an empty element table: `if !self.entries.is_empty() { loop }`)
                ent_empty = emptiness_atom({'ent_empty': (1, (r['entries'],))})

                def has_atom(t):
                    return presence_atom(t, 1, r['entries'], 'has') or ent_empty(t)
                skipped = None
                for o_ in PARTIAL:
                    rc_o = Reach(facts, body, Evaluator(facts, classify=defer_classifier([], r['clock']), bool_atom=has_atom,
                                                        assumption={'defer': o_, 'has': True, 'ent_empty': False}))
                    if lp_e is not None:
                        if not lp_e.must(rc_o, [bb]) or not rc_o.must_pass([lp_e.head]):
                            skipped = o_
                    elif not rc_o.must_pass([bb]):
                        skipped = o_
                ctx.check(skipped is None, inst + '/always', body, 'the covered dots are taken away on every path, for every listed element that is present',
                          'when the remove clock is %s relative to the replica clock a listed element the replica holds can keep the dots the remove covers '
                          '(the subtraction is skipped)' % skipped, line=line, details=det, props=props + ['C09'])
                # (b) prune exactly when empty
                elem_id = versionless(it.calls[bb].args[0].val)

                def empty_atom(t, elem_id=elem_id):
                    if is_call(t, 'is_empty', self_adt='VClock') and t[2] and versionless(t[2][0]) == elem_id:
                        return 'empty'
                    return None
                rem_sites = []
                for b2, c2 in it.calls.items():
                    if call_name(c2.term) in ('remove', 'remove_entry') and len(c2.args) == 2:
                        pp = param_path(c2.args[0].val)
                        if pp and pp[0] == 1 and pp[1] == (r['entries'],) and versionless(c2.args[1].val) == versionless(key):
                            rem_sites.append(b2)
                lp = innermost_loop(it, bb)
                stops = (lp[0],) if lp else ()
                res = {}
                for val in (True, False):
                    ev2 = Evaluator(facts, bool_atom=empty_atom, assumption={'empty': val})
                    rc = Reach(facts, body, ev2)
                    res[val] = (any(s in rc._reach(bb, set()) for s in rem_sites),
                                rc.must_pass(rem_sites, start=bb, stops=stops) if rem_sites else False, rc, ev2)
                hit = bool(res[True][3].hits.get('empty'))
                if not rem_sites or not hit:
                    ctx.fail(inst + '/prune', body, 'the element is not removed when its witness clock becomes empty '
                             '(no is_empty test on the subtracted clock followed by entries.remove(key))', line=line, details=det, props=props + ['C20'])
                elif not res[True][1]:
                    ctx.fail(inst + '/prune', body, 'an emptied element can stay in entries (path avoids entries.remove)', line=line, details=det, props=props + ['C20'])
                elif res[False][0]:
                    ctx.fail(inst + '/prune', body, 'an element with surviving witnesses is removed (entries.remove reachable when is_empty is false)',
                             line=line, details=det, props=props)
                else:
                    ctx.ok(inst + '/prune', body, 'element removed exactly when its witness clock is empty', line=line, details=det, props=props + ['C20'])
                # (c) Map: nested reset with the same clock on the keep path
                if inst == 'map':
                    vs = [s for s in _rm_elem_sites(facts, it, r, ('val',)) if versionless(s[1]) == versionless(key)]
                    good = [s for s in vs if s[2] == x]
                    if not vs:
                        ctx.fail(inst + '/nested-reset', body, 'the nested value of a surviving key is not reset by the remove clock', line=line, props=['C05'])
                    elif not good:
                        ctx.fail(inst + '/nested-reset', body, 'the nested value is reset with %s instead of the remove clock %s' % (fmt(vs[0][2]), fmt(x)),
                                 line=block_line(it, vs[0][0]), props=['C05'])
                    else:
                        rc = res[False][2]
                        if rc.must_pass([s[0] for s in good], start=bb, stops=stops):
                            ctx.ok(inst + '/nested-reset', body, 'nested value reset with the remove clock whenever the key survives',
                                   line=block_line(it, good[0][0]), props=['C05'])
                        else:
                            ctx.fail(inst + '/nested-reset', body, 'a surviving key can skip the nested reset', line=line, props=['C05'])


@rule('RM-CALL', {
    'C04': 'the remove routine must be handed exactly the members and the clock of the Rm op',
    'C05': 'same for Map key removes',
    'C08': 'the pending table is keyed by that clock',
    'C03': 'the merge of the remover\'s state removes exactly those members under exactly that context',
    'C20': 'a remove filed under another clock or for other members leaves different pending tables on replicas with equal knowledge',
}, floor=2)
def rm_call(ctx):
    """apply(Rm{clock, elements}) hands the op's elements and the op's clock to the remove routine on every path."""
    facts = ctx.facts
    for inst, adt, op_adt, _ in TYPES:
        body = ctx.method(adt, 'CmRDT', 'apply')
        it = interp(facts, body)
        rm_uids = set(b.base_uid for b, _, _ in rm_routines(facts, adt))
        vn = variants(facts, op_adt)
        rc = Reach(facts, body, Evaluator(facts, bool_atom=discr_atom_of_param(2), assumption={'variant': vn.index('Rm')}))
        props = ['C08', 'C03', 'C20', EL[inst]]
        if body.base_uid in rm_uids:
            # the remove routine is written inline in apply (or seen through the helper-inlining view): the clock it
            # decides on / subtracts and the elements it ranges over must be the op's own fields
            r = roles(facts, adt)
            found = []
            Reach(facts, body, Evaluator(facts, classify=defer_classifier(found, r['clock'])))
            es = [e for e in _rm_elem_sites(facts, it, r, () if inst == 'orswot' else ('clock',)) if e[0] in rc.reachable]

            def op_field(t, clock):
                pp = param_path(t)
                if not (pp and pp[0] == 2 and pp[1] and pp[1][-1].startswith('Rm.')):
                    return False
                return (pp[1][-1] == 'Rm.clock') == clock
            ok = any(op_field(x, True) for x in found) and bool(es)
            why = 'the inline remove routine does not decide on the op\'s clock'
            for bb, key, x in es:
                src = as_item(key)
                if not op_field(x, True):
                    ok, why = False, 'the clock subtracted from the elements (%s) is not the op\'s clock' % fmt(x, 3)
                    continue
                whole = src is not None
                while whole:
                    base, kind, clo = iter_source(src)
                    if clo or set(iter_adaptors(src)) & LOSSY_ADAPTORS:
                        whole = False
                    elif is_call(drop_lv(base), 'collect') and drop_lv(base)[2]:
                        src = drop_lv(base)[2][0]  # re-collected into another container first
                    else:
                        whole = op_field(base, False)
                        break
                if not whole:
                    ok, why = False, 'the inline remove routine does not range over all of the op\'s elements'
            ctx.check(ok, inst, body, 'the remove routine is inline in apply and works on (op elements, op clock)', why, props=props)
            continue
        good = []
        why = 'the Rm arm never calls the remove routine'
        for bb, c in it.calls.items():
            if is_rm_call(facts, it, bb, roles(facts, adt)) and bb in rc.reachable:
                clocks = [a for a in c.args[1:] if value_path(a.val) and value_path(a.val)[0] == 2 and value_path(a.val)[1][-1:] == ('Rm.clock',)]
                elems = []
                for a in c.args[1:]:
                    v = drop_lv(a.val)
                    pp = param_path(v)
                    if pp and pp[0] == 2 and pp[1] and pp[1][-1].startswith('Rm.') and pp[1][-1] != 'Rm.clock':
                        elems.append(a)
                    else:
                        from .loops import collect_source
                        cs = collect_source(facts, body, it, a.val)
                        if cs is not None and whole_iteration_over(cs, 2) and not iter_source(cs)[2]:
                            bp = param_path(iter_source(cs)[0])
                            if bp[1] and bp[1][-1].startswith('Rm.') and bp[1][-1] != 'Rm.clock':
                                elems.append(a)
                if clocks and elems:
                    good.append(bb)
                else:
                    why = 'the remove routine is called with %s instead of the op\'s elements and clock' % [fmt(a.val, 3) for a in c.args[1:]]
        ctx.check(bool(good) and rc.must_pass(good), inst, body, 'remove routine receives (op elements, op clock)', why, props=props)


def _reexam_ok(facts, it, r, rc, start_blocks):
    """After the blocks in start_blocks every path empties the pending table and replays it through the remove routine.
    Either one call does all of it (a re-examination helper), or the emptying and the replay loop are inline.
    Returns (ok, site block or None, message)."""
    empt, repl, whole = [], [], []
    for bb in it.calls:
        effs = [e for e in call_effects(facts, it, bb) if e.param == 1]
        takes = any(e.path[:1] == (r['deferred'],) and e.kind == 'w' and e.how in EMPTYING | {'assign'} for e in effs)
        adds = any(e.path[:1] == (r['deferred'],) and e.how in ADDING for e in effs)
        elems = any(e.path[:1] == (r['entries'],) for e in effs)
        if takes and adds and elems:
            whole.append(bb)
        elif takes:
            empt.append(bb)
        elif adds and elems:
            repl.append(bb)
    if whole:
        if all(rc.must_pass(whole, start=s) for s in start_blocks):
            return True, whole[0], ''
    # inline form: the table is emptied on every path, then a loop over the taken table replays every entry:
    # inside that loop (possibly through inlined helpers) elements of entries are reset/removed and removes that
    # are still ahead are re-deferred
    loops = []
    for (u, h) in it.back_edges:
        lp = innermost_loop(it, h)
        if lp and lp not in loops:
            loops.append(lp)
    if empt and all(rc.must_pass(empt, start=s) for s in start_blocks):
        after = set()
        for e in empt:
            after |= rc._reach(e, set())
        for head, blocks in loops:
            fr = iteration_frame(it, head)
            if fr is None or fr[1] != head:
                continue
            pp = param_path(iter_source(fr[2])[0])
            if not (pp and pp[0] == 1 and pp[1] == (r['deferred'],)) or set(iter_adaptors(fr[2])) & LOSSY_ADAPTORS:
                continue
            has_elem = has_add = False
            for b in blocks:
                for e in call_effects(facts, it, b):
                    if e.param == 1 and e.path[:1] == (r['entries'],):
                        has_elem = True
                    if e.param == 1 and e.path[:1] == (r['deferred'],) and e.how in ADDING:
                        has_add = True
            if has_elem and has_add and head in after and all(rc.must_pass([head], start=s) for s in start_blocks):
                return True, head, ''
    if not whole and not empt:
        return False, None, 'never'
    return False, (whole or empt or repl)[0], 'skipped'


@rule('DEF-REEXAM', {
    'C09': 'a remove applied before the adds it covers is only remembered: the covered adds that trickle in later stay absent only if the pending removes are re-examined after every such arrival',
    'C04': 'Orswot: a remove that overtook an add must still remove it once the add arrives (membership at every replica, all schedules)',
    'C05': 'Map: same for key removes',
    'C08': 'without re-examination after clock growth the late add that a pending remove covers stays forever',
    'C20': 'a pending remove that became covered is never dropped',
    'C03': 'remove and add delivered as ops in the wrong order must end where the merge of the two writers\' states ends: the add gone',
    'C02': 'merge ends with the re-examination (states holding pending removes are in the quantifier): without it a+b keeps what b+a removes',
}, floor=4, inst_filter=ORS_MAP)
def def_reexam(ctx):
    """After every growth of the replica clock (gated apply arm, merge) every path re-examines the pending removes."""
    facts = ctx.facts
    for inst, adt, op_adt, v in TYPES:
        r = roles(facts, adt)
        # apply
        body = ctx.method(adt, 'CmRDT', 'apply')
        it = interp(facts, body)
        found = []
        rc, _ = _gate_eval(ctx, body, op_adt, v, LT, found)
        grow = [bb for bb, c in it.calls.items() if is_call(c.term, ('apply', 'merge'), self_adt='VClock') and c.args and c.args[0].is_mut_ref
                and param_path(c.args[0].val) and param_path(c.args[0].val)[0] == 1 and param_path(c.args[0].val)[1] == (r['clock'],)
                and bb in rc.reachable]
        # (the counter stored straight into the replica clock's map under the gate: what ABSORB accepts as the absorption)
        grow += [bb for bb, c in it.calls.items() if call_name(c.term) == 'insert' and len(c.args) == 3 and c.args[0].is_mut_ref
                 and param_path(c.args[0].val) == (1, (r['clock'], 'dots')) and bb in rc.reachable]
        name = inst + '/apply'
        if not grow:
            ctx.shape(name, body, 'replica clock growth not found in the gated arm (see ABSORB)')
        else:
            starts = [n for g in grow for n in it.succs[g]]
            ok, site, why = _reexam_ok(facts, it, r, rc, starts)
            if not ok and why != 'never' and r.get('deferred'):
                # `if !self.deferred.is_empty() { self.apply_deferred() }`: with nothing pending there is nothing to re-examine
                rc_ne, _ = _gate_eval(ctx, body, op_adt, v, LT, [], extra_atom=emptiness_atom({'pend_empty': (1, (r['deferred'],))}),
                                      extra_asm={'pend_empty': False})
                ok, site, why = _reexam_ok(facts, it, r, rc_ne, starts)
            if ok:
                ctx.ok(name, body, 're-examination follows clock growth on every path', line=block_line(it, site))
            elif why == 'never':
                ctx.fail(name, body, 'pending removes are never re-examined after the replica clock grows', line=block_line(it, grow[-1]))
            else:
                ctx.fail(name, body, 'a path from the clock growth at line %d returns without re-examining pending removes' % block_line(it, grow[0]),
                         line=block_line(it, site) if site is not None else None)
        # merge
        body = ctx.method(adt, 'CvRDT', 'merge')
        it = interp(facts, body)
        rc = Reach(facts, body, Evaluator(facts))
        grow = [bb for bb, c in it.calls.items() if is_call(c.term, ('apply', 'merge'), self_adt='VClock') and c.args and c.args[0].is_mut_ref
                and param_path(c.args[0].val) and param_path(c.args[0].val)[0] == 1 and param_path(c.args[0].val)[1] == (r['clock'],)]
        name = inst + '/merge'
        if not grow:
            ctx.shape(name, body, 'merge does not grow the replica clock (see ABSORB-MERGE)')
        else:
            starts = [n for g in grow for n in it.succs[g]]
            ok, site, why = _reexam_ok(facts, it, r, rc, starts)
            if not ok and why != 'never' and r.get('deferred'):
                rc_ne = Reach(facts, body, Evaluator(facts, bool_atom=emptiness_atom({'pend_empty': (1, (r['deferred'],))}), assumption={'pend_empty': False}))
                ok, site, why = _reexam_ok(facts, it, r, rc_ne, starts)
            if ok:
                ctx.ok(name, body, 're-examination follows the clock join on every path', line=block_line(it, site))
            elif why == 'never':
                ctx.fail(name, body, 'merge never re-examines pending removes after joining the clocks', line=block_line(it, grow[-1]))
            else:
                ctx.fail(name, body, 'a path from the clock join returns without re-examining pending removes',
                         line=block_line(it, site) if site is not None else None)


@rule('DEF-TAKE', {
    'C09': 'every remembered remove must be replayed when covered adds arrive late, including the ones that are still ahead of the replica (they strip what has arrived so far)',
    'C04': 'Orswot: a remove that overtook an add must still remove it once the add arrives (membership at every replica, all schedules)',
    'C05': 'Map: same for key removes',
    'C20': 'if the table is not emptied before re-applying, covered removes are never dropped',
    'C08': 're-applied removes that are still ahead must be re-deferred into a fresh table, not duplicated',
    'C03': 'same as DEF-REEXAM: the replay is what makes op delivery in the wrong order agree with the merged states',
    'C02': 'same as DEF-REEXAM: the replay run at the end of merge',
}, floor=2, inst_filter=ORS_MAP)
def def_take(ctx):
    """The re-examination routine empties the pending table before replaying every entry of it through the remove routine."""
    facts = ctx.facts
    for inst, adt, _, _ in TYPES:
        r = roles(facts, adt)
        rm_uids = set(b.base_uid for b, _, _ in rm_routines(facts, adt))
        cands = []
        for b in adt_bodies(facts, adt):
            if b.impl_trait and b.impl_trait.endswith('ResetRemove'):
                continue
            it = interp(facts, b)
            takes = [bb for (bb, i), w in it.muts.items() if w.kind in ('take', 'replace') and loc_target(it, w.loc)
                     and loc_target(it, w.loc)[0] == 1 and loc_target(it, w.loc)[1] == (r['deferred'],)]
            if takes:
                cands.append((b, it, takes))
        if not cands:
            ctx.fail(inst, None, 'no function empties the pending table %s.%s before re-examination' % (adt, r['deferred']))
            continue
        for b, it, takes in cands:
            rc = Reach(facts, b, Evaluator(facts))
            replays = []
            for bb, c in it.calls.items():
                info = cinfo(c.cid)
                if info['local'] and is_rm_call(facts, it, bb, r):
                    from_table = False
                    for a in c.args[1:]:
                        for st in subterms(versionless(a.val)):
                            src = as_item(st)
                            if src is not None:
                                pp = param_path(iter_source(src)[0])
                                if pp and pp[0] == 1 and pp[1] == (r['deferred'],):
                                    from_table = True
                    if from_table:
                        replays.append(bb)
            if not replays:
                ctx.fail(inst, b, 'the emptied pending table is not replayed through the remove routine', line=block_line(it, takes[0]))
                continue
            # take precedes every replay
            reach_wo = rc._reach(0, set(takes))
            early = [x for x in replays if x in reach_wo]
            # the replay ranges over the taken table
            good_src = False
            for x in replays:
                c = it.calls[x]
                for a in c.args[1:]:
                    for st in subterms(versionless(a.val)):
                        src = as_item(st)
                        if src is not None:
                            base, kind, clo = iter_source(src)
                            pp = param_path(base)
                            if pp and pp[0] == 1 and pp[1] == (r['deferred'],) and not (set(iter_adaptors(src)) & LOSSY_ADAPTORS):
                                good_src = True
            noop_ = {'table': (1, (r['deferred'],))}
            # (judged on the re-examination routine itself — a function of self alone; where it is inlined into apply / merge the
            # paths around it belong to DEF-REEXAM)
            if b.arg_count == 1 and not (rc.must_pass(takes) or must_pass_unless_noop(facts, b, it, takes, noop_)):
                ctx.fail(inst, b, 'a path through the re-examination skips it altogether (the pending table is not taken on every path, '
                         'and not only when it is empty)', line=block_line(it, takes[0]))
            elif early:
                ctx.fail(inst, b, 'a pending remove can be replayed before the table is emptied', line=block_line(it, early[0]))
            elif not good_src:
                ctx.fail(inst, b, 'the replay loop does not range over every entry of the taken pending table', line=block_line(it, replays[0]))
            else:
                # .. and every entry really is replayed: no iteration may skip the remove routine (an entry put back as it
                # was is a pending remove nobody re-examines), and the loop runs to the end
                from .loops import loop_of_block
                skipped = None
                for x in replays:
                    lp = loop_of_block(it, x)
                    if lp is None:
                        continue
                    inloop = [y for y in replays if y in lp.blocks]
                    if lp.early_exits() or not lp.must(rc, inloop):
                        skipped = x
                if skipped is not None:
                    ctx.fail(inst, b, 'an entry of the taken pending table can pass through the re-examination without being replayed through the '
                             'remove routine (skipped or put back as it was)', line=block_line(it, skipped))
                else:
                    ctx.ok(inst, b, 'table taken, then every entry replayed through the remove routine', line=block_line(it, takes[0]))


@rule('DEF-MERGE', {
    'C09': 'merging a lagging state must not bring back what a remembered remove of either side covers',
    'C04': 'Orswot: a remove that overtook an add must still remove it once the add arrives (membership at every replica, all schedules)',
    'C05': 'Map: same for key removes',
    'C08': 'pending removes must travel inside merged states',
    'C03': 'op delivery of the remove would have left the same pending remove here',
    'C02': 'a merge that loses (or only files) the other side\'s pending removes is order dependent: a+b keeps what b+a removes',
    'C20': 'replicas with equal knowledge must hold the same pending removes',
}, floor=2, inst_filter=ORS_MAP)
def def_merge(ctx):
    """merge replays every (clock, elements) of other's pending table through self's remove routine."""
    facts = ctx.facts
    for inst, adt, _, _ in TYPES:
        r = roles(facts, adt)
        body = ctx.method(adt, 'CvRDT', 'merge')
        it = interp(facts, body)
        rm_uids = set(b.base_uid for b, _, _ in rm_routines(facts, adt))
        rc = Reach(facts, body, Evaluator(facts))
        good = []
        for bb, c in it.calls.items():
            info = cinfo(c.cid)
            if not (info['local'] and is_rm_call(facts, it, bb, r)):
                continue
            if not (c.args and param_path(c.args[0].val) and param_path(c.args[0].val)[0] == 1):
                continue
            parts = set()
            src_it = None
            for a in c.args[1:]:
                v = versionless(a.val)
                if v[0] == 'field' and v[2] in ('0', '1'):
                    src = as_item(v[1])
                    if src is not None:
                        base, kind, clo = iter_source(src)
                        pp = param_path(base)
                        if pp and pp[0] == 2 and pp[1] == (r['deferred'],) and not clo and not (set(iter_adaptors(src)) & LOSSY_ADAPTORS):
                            parts.add(v[2])
                            src_it = src
            if parts == {'0', '1'}:
                good.append(bb)
        if not good:
            ctx.fail(inst, body, "merge does not replay other's pending removes (clock and elements) through the remove routine")
            continue
        bb = good[0]
        lp = innermost_loop(it, bb)
        if lp is None:
            ctx.fail(inst, body, 'pending removes of other are not replayed in a loop over the whole table', line=block_line(it, bb))
            continue
        head, blocks = lp
        start = None
        for x in blocks:
            sw = it.switches.get(x)
            if sw and sw.discr[0] == 'discr' and as_item(('field', sw.discr[1], 'Some.0')) is not None:
                for val, tb in sw.targets:
                    if val == 1:
                        start = tb
        per_iter = start is not None and rc.must_pass([bb], start=start, stops=(head,))
        loop_always = rc.must_pass([head])
        if not per_iter:
            ctx.fail(inst, body, "an entry of other's pending table can be skipped", line=block_line(it, bb))
        elif not loop_always:
            ctx.fail(inst, body, "a path through merge skips the replay of other's pending removes", line=block_line(it, bb))
        else:
            ctx.ok(inst, body, "every pending remove of other is replayed on self", line=block_line(it, bb))
