"""A.6 — VClock and Dot primitives: polarity and operands of every comparison."""
from ..core import rule
from ..terms import drop_lv
from .common import *


def _dots_writes(it, names):
    out = []
    for bb, c in it.calls.items():
        if call_name(c.term) in names and c.args and c.args[0].is_mut_ref:
            pp = param_path(c.args[0].val)
            if pp and pp[0] == 1 and pp[1][-1:] == ('dots',):
                out.append((bb, c))
    return out


def _fresh_clock(t):
    t = drop_lv(t)
    while t[0] in ('obj', 'post'):
        t = drop_lv(t[1]) if t[0] == 'obj' else drop_lv(t[1][2][t[2]]) if (t[1][0] == 'call' and isinstance(t[2], int) and t[2] < len(t[1][2])) else t
        if t[0] == 'post':
            continue
        break
    if t[0] == 'agg' and t[1] == VCLOCK and len(t[3]) == 1:      # VClock { dots: BTreeMap::new() }
        t = drop_lv(t[3][0][1])
    return t[0] == 'call' and call_name(t) in ('default', 'new') and not t[2]


def inline_apply_sites(facts, body, it, local_clock=False):
    """`apply` written out: stores of (actor, counter) of one dot into the dots of self (or, local_clock, of a clock that
    starts empty), each judged like VClock::apply — must when the clock's counter for the actor is smaller, never when it is
    larger.  -> list of dict(bb, call, gate, res, frame, errs)."""
    out = []
    for bb, c in sorted(it.calls.items()):
        if call_name(c.term) != 'insert' or len(c.args) != 3 or not c.args[0].is_mut_ref:
            continue
        m0 = versionless(c.args[0].val)
        if not (m0[0] == 'field' and m0[2] == 'dots'):
            continue
        if local_clock:
            if not (c.args[0].loc is not None and c.args[0].loc[0][0] == 'L' and _fresh_clock(c.args[0].val[1] if c.args[0].val[0] == 'field' else m0[1])):
                continue
        elif param_path(m0) != (1, ('dots',)):
            continue
        fr = iteration_frame(it, bb)
        found, res = [], {}
        cls = gate_classifier(found, param=None if local_clock else 1)
        for o in TOTAL:
            rc = Reach(facts, body, Evaluator(facts, classify=cls, assumption={'gate': o}))
            if fr:
                res[o] = (bb in rc._reach(fr[0], {fr[1]}), rc.must_pass([bb], start=fr[0], stops=(fr[1],)))
            else:
                res[o] = (bb in rc.reachable, rc.must_pass([bb]))
        if not found:
            continue
        g = found[0]
        errs = []
        if versionless(c.args[1].val) != ('field', g['dot'], g.get('kf', 'actor')) or versionless(c.args[2].val) != ('field', g['dot'], g.get('vf', 'counter')):
            errs.append('what is stored is not (actor, counter) of the compared dot')
        if not res[LT][1]:
            errs.append('a dot that is ahead of the clock can be skipped')
        if res[GT][0]:
            errs.append('a dot that is behind the clock overwrites the larger counter')
        out.append({'bb': bb, 'call': c, 'gate': g, 'res': res, 'frame': fr, 'errs': errs})
    return out


def _entry_model(it):
    """`self.dots.entry(k)` written with the Entry API: the entry term, its key, the discriminant values of the two
    arms, and the insert sites of each arm.  Occupied: the stored counter is `OccupiedEntry::get`; Vacant: get(k) == 0."""
    for bb, c in sorted(it.calls.items()):
        if call_name(c.term) == 'entry' and len(c.args) == 2:
            pp = param_path(c.args[0].val)
            if pp and pp[0] == 1 and pp[1][-1:] == ('dots',):
                E = versionless(c.term)
                btree = 'BTreeMap' in c.cid or 'btree_map' in c.cid
                m = {'E': E, 'key': versionless(c.args[1].val), 'occ': 1 if btree else 0, 'vac': 0 if btree else 1, 'ins_occ': [], 'ins_vac': []}
                for b2, c2 in sorted(it.calls.items()):
                    if call_name(c2.term) == 'insert' and len(c2.args) == 2:
                        a0 = versionless(c2.args[0].val)
                        if a0 == ('field', E, 'Occupied.0'):
                            m['ins_occ'].append((b2, c2))
                        elif a0 == ('field', E, 'Vacant.0'):
                            m['ins_vac'].append((b2, c2))
                return m
    return None


def _lookup_model(it):
    """`match self.dots.get_mut(k) { Some(c) => .., None => .. }`: the same model as the Entry API, spelled with an Option -
    Some: the stored counter is the payload, stores go through it (`*c = v`); None: get(k) == 0, stores are plain inserts."""
    for bb, c in sorted(it.calls.items()):
        if call_name(c.term) in ('get_mut', 'get') and len(c.args) == 2 and 'Map' in c.cid:
            pp = param_path(c.args[0].val)
            if pp and pp[0] == 1 and pp[1][-1:] == ('dots',):
                L = versionless(c.term)
                pay = ('field', L, 'Some.0')
                m = {'E': L, 'key': versionless(c.args[1].val), 'occ': 1, 'vac': 0, 'ins_occ': [], 'ins_vac': [], 'payload': pay}
                for (b2, si), w in sorted(it.writes.items()):
                    if w.loc is not None and w.loc[0][0] == 'O' and versionless(w.loc[0][1]) == pay and not w.loc[1]:
                        m['ins_occ'].append((b2, w))
                if m['ins_occ'] and any(sw.discr[0] == 'discr' and versionless(sw.discr[1]) == L for sw in it.switches.values()):
                    return m
    return None


@rule('VC-APPLY', {
    'C10': 'apply must be monotone: keep the max (insert when get < counter, never when get > counter)',
    'C09': 'a stale dot must never lower a counter',
    'C11': 'GCounter/PNCounter keep the largest running total per actor through this function',
    'C03': 'GCounter/PNCounter apply is this function: an op delivered after a merged state that already holds a larger total for the '
           'actor must not lower it, and a new total must be stored as the merge of the writer\'s state would',
    'C04': '[primitive] Orswot apply absorbs the op dot into the replica clock and stamps the member clock through it (ABSORB, STAMP)',
    'C05': '[primitive] same for Map (ABSORB, STAMP)',
    'C06': '[primitive] MVReg read joins the value clocks dot by dot through it (MV-READ, VC-MERGE)',
    'C07': '[primitive] derive_add_ctx applies the fresh dot to the add clock through it (CTX-DERIVE); the clock must then cover it',
    'C08': '[primitive] the clock growth that triggers re-examination of pending removes is this function (ABSORB, DEF-REEXAM)',
    'C12': '[primitive] List::apply absorbs the op dot through it (ABSORB list instances)',
    'C02': '[primitive] VClock::merge applies every dot of other through it (VC-MERGE)',
    'C20': '[primitive] the replica clock and every witness clock grow through it: equal knowledge must give equal clocks',
}, floor=1)
def vc_apply(ctx):
    """VClock::apply stores dot.counter for dot.actor: must under get(actor) < counter, never under get(actor) > counter
    (written with get/insert, or with the Entry API where a vacant entry means get(actor) == 0)."""
    facts = ctx.facts
    body = ctx.method(VCLOCK, 'CmRDT', 'apply')
    it = interp(facts, body)
    ins = _dots_writes(it, ('insert',))
    em = _entry_model(it) or _lookup_model(it)
    found = []
    base_cls = gate_classifier(found)

    def mk(world):
        def classify(a, b, t):
            r_ = base_cls(a, b, t)
            if r_ is not None or em is None:
                return r_
            for x, y, orient in ((a, b, 'fwd'), (b, a, 'rev')):
                y_ = versionless(y)
                if not (y_[0] == 'field' and y_[2] == 'counter' and em['key'] == ('field', y_[1], 'actor')):
                    continue
                x_ = versionless(x)
                if world == 'occ' and (x_ == em['payload'] if 'payload' in em else
                                       is_call(x_, ('get', 'get_mut')) and len(x_[2]) == 1 and x_[2][0] == ('field', em['E'], 'Occupied.0')):
                    found.append({'dot': y_[1], 'clock': em['E'][2][0]})
                    return ('gate', orient)
                if world == 'vac' and x_[0] == 'const' and x_[1] == 0:
                    found.append({'dot': y_[1], 'clock': em['E'][2][0]})
                    return ('gate', orient)   # a vacant entry: get(actor) is 0
                if world == 'occ' and x_[0] == 'const' and x_[1] == 0:
                    return ('zc', orient)     # ord(0, counter): decided only where the stored counter is below the dot's (then 0 < counter)
            return None

        def atom(t):
            if em is not None and t[0] == 'discr' and versionless(t[1]) == em['E']:
                return ('map', 'occupied', {True: em['occ'], False: em['vac']})
            return None
        return classify, atom
    worlds = [('occ', o) for o in TOTAL] + [('vac', LT), ('vac', EQ)] if em else [('', o) for o in TOTAL]
    all_ins = ins + (em['ins_occ'] + em['ins_vac'] if em else [])
    res = {}
    for w, o in worlds:
        cls, atom = mk(w)
        evr = Evaluator(facts, classify=cls, bool_atom=atom, assumption=dict({'gate': o, 'occupied': w == 'occ'}, **({'zc': LT} if (w, o) == ('occ', LT) else {})))
        rc = Reach(facts, body, evr)
        res[(w, o)] = (any(b in rc.reachable for b, _ in all_ins), rc.must_pass([b for b, _ in all_ins]) if all_ins else False)
    det = {'(entry state, ord(get(actor), counter)) -> (store may, must)': {'%s%s' % (w + ',' if w else '', o): v for (w, o), v in res.items()}}
    if not all_ins:
        ctx.fail('apply', body, 'VClock::apply never inserts into dots', details=det)
        return
    if not found:
        ctx.fail('apply', body, 'the insertion is not guarded by a comparison of get(dot.actor) with dot.counter', details=det)
        return
    g = found[0]
    line = all_ins[0][1].line
    newer = [k for k in res if k[1] == LT]
    older = [k for k in res if k[1] == GT]
    if not all(res[k][1] for k in newer):
        ctx.fail('apply', body, 'a dot newer than the stored counter is not inserted (apply is not the max)', line=line, details=det)
    elif any(res[k][0] for k in older):
        ctx.fail('apply', body, 'a dot older than the stored counter overwrites it (counter can decrease)', line=line, details=det)
    elif ('vac', EQ) in res and res[('vac', EQ)][0]:
        ctx.fail('apply', body, 'a dot with counter 0 is stored for an absent actor (a zero counter)', line=line, details=det)
    else:
        bad = None
        for b_, c in all_ins:
            if not hasattr(c, 'args'):
                k, v = em['key'], versionless(c.val)        # a store through the payload of the lookup
            elif len(c.args) == 3:
                k, v = versionless(c.args[1].val), versionless(c.args[2].val)
            else:
                k, v = em['key'], versionless(c.args[1].val)
            if not (k == ('field', g['dot'], g.get('kf', 'actor')) and v == ('field', g['dot'], g.get('vf', 'counter'))):
                bad = (k, v)
        ctx.check(bad is None, 'apply', body, 'stores (dot.actor, dot.counter): must under {Lt}, never under {Gt}',
                  'the value inserted is not (dot.actor, dot.counter): %s, %s' % ((fmt(bad[0]), fmt(bad[1])) if bad else ('', '')), line=line, details=det)


def uncovered_scan_errors(facts, cb, mapping):
    """A predicate closure over our (actor, counter) entries keeps exactly the entries the argument clock (parameter 2 of the
    enclosing function) does not cover: present there with a smaller counter -> keep, equal or larger -> drop, absent -> keep.
    -> (errors, details)."""
    hit = []

    def S(t, mapping=mapping):
        return versionless(subst(t, mapping))

    # NB: S substitutes the closure's own parameters; it must be applied exactly once (the function's `other` is
    # `param 2` too, like the closure's key)
    def is_ours(t):       # (already substituted) the stored counter of the walked entry
        return t[0] == 'field' and t[2] == '1' and t[1][0] == 'item'

    def their(t):         # (already substituted) other's counter for the walked actor
        if t[0] == 'field' and t[2] == 'Some.0':
            t = t[1]
        if is_call(t, 'get') and len(t[2]) == 2:
            pp = param_path(t[2][0])
            k = versionless(t[2][1])
            if pp and pp[0] == 2 and k[0] == 'field' and k[2] == '0' and k[1][0] == 'item':
                return 'stored' if pp[1][-1:] == ('dots',) else 'get'
        return None

    def classify(a, b, t):
        a, b = S(a), S(b)
        for x, y, orient in ((a, b, 'fwd'), (b, a, 'rev')):
            if their(x) and is_ours(y):
                hit.append(their(x))
                return ('cmp', orient)      # ord(their counter, our counter)
        return None

    def atom(t):
        ts = S(t)
        if ts[0] == 'discr' and their(('field', ts[1], 'Some.0')) == 'stored':
            return ('map', 'present', {True: 1, False: 0})
        if is_call(ts, ('is_some', 'is_none')) and ts[2] and their(('field', ts[2][0], 'Some.0')) == 'stored':
            return 'present' if call_name(ts) == 'is_some' else ('not', 'present')
        return None
    res = {}
    for present in (True, False):
        for o in TOTAL:
            v = closure_value(facts, cb, classify=classify, bool_atom=atom, assumption={'present': present, 'cmp': o})
            keep = (v is True) or (isinstance(v, tuple) and v[0] == 'optsome')
            drop = (v is False) or v == ('optnone',)
            res[(present, o)] = 'keep' if keep else ('drop' if drop else '?')
    det = {'(argument lists the actor, ord(their counter, our counter)) -> entry': {str(k): v for k, v in res.items()}}
    stored = 'stored' in hit
    errs = []
    if not hit:
        errs.append('the scan over our entries does not compare the argument clock\'s counter for the actor with ours')
    else:
        if stored and any(res[(False, o)] != 'keep' for o in TOTAL):
            errs.append('an entry of an actor the argument clock does not list is removed')
        for o in (GT, EQ):
            if res[(True, o)] != 'drop':
                errs.append('an entry not newer than the argument clock (their counter %s ours) is kept' % {'Gt': '>', 'Eq': '=='}[o])
        if res[(True, LT)] != 'keep':
            errs.append('an entry strictly newer than the argument clock is removed')
    return errs, det


@rule('VC-RESET', {
    'C10': 'reset_remove(c) keeps exactly the entries strictly newer than c',
    'C18': 'per-actor dot subtraction is the building block of every reset_remove',
    'C04': 'remove = subtraction of the remove context from the witness clock',
    'C05': '[primitive] Map key remove and the one-sided merge branches subtract through it (RM, MERGE-DROP, MAP-RESET-PAIR)',
    'C02': '[primitive] the kept witness of a one-sided entry is reduced through it (MERGE-DROP/subtract)',
    'C03': '[primitive] same subtraction on the op side (RM) and on the merge side (MERGE-DROP)',
    'C07': '[primitive] the rm_clock handed out by a read is what these subtractions leave (MERGE-DROP serves C07)',
    'C08': '[primitive] a replayed pending remove subtracts through it (RM)',
    'C09': '[primitive] a covered add stays absent because its dots were subtracted through it (RM, MERGE-DROP)',
    'C20': '[primitive] an entry is pruned when this subtraction leaves nothing (RM/prune, RR-PRUNE)',
}, floor=1)
def vc_reset(ctx):
    """VClock::reset_remove(other): for every dot of other, self's entry is removed exactly when other.counter >= self.get(actor)."""
    facts = ctx.facts
    body = ctx.method(VCLOCK, 'ResetRemove', 'reset_remove')
    it = interp(facts, body)
    rem = _dots_writes(it, ('remove', 'remove_entry'))
    if not rem:
        # the other spelling: scan OUR entries and keep exactly those the argument clock does not cover
        # (`self.dots.retain(|actor, ours| other.dots.get(actor).is_none_or(|theirs| theirs < ours))`, or through other.get(actor))
        for bb, c in sorted(it.calls.items()):
            if call_name(c.term) not in ('retain', 'retain_mut', 'filter', 'filter_map') or not c.args:
                continue
            for clo, mapping in closure_bindings(c.term):
                items = [st for v_ in mapping.values() for st in subterms(v_) if st[0] == 'item']
                item = items[0] if items else None
                src = iter_source(item[1])[0] if item else ('top',)
                if param_path(src) != (1, ('dots',)):
                    continue
                cb = facts.cb(clo[1])
                ctx.analysed.add(cb.key)
                errs, det = uncovered_scan_errors(facts, cb, mapping)
                if errs and facts.view != 'orig':
                    # the predicate as written is an equivalent view of itself: where the scan only becomes visible after the
                    # helper holding it was inlined (`reset_remove` -> `forget`), the inlined view of the closure may have
                    # `other.get(actor)` expanded into its body; the closure is then judged as written
                    v0 = facts.view
                    facts.view = 'orig'
                    try:
                        errs0, det0 = uncovered_scan_errors(facts, facts.cb(clo[1]), mapping)
                    finally:
                        facts.view = v0
                    if not errs0:
                        errs, det = errs0, det0
                whole = not (set(iter_adaptors(item[1] if item and item[0] == 'item' else ('top',))) & LOSSY_ADAPTORS)
                if not whole:
                    errs.append('the scan does not range over all of our entries')
                if not must_pass_unless_noop(facts, body, it, [bb], {'other': (2, ()), 'self': (1, ())}):
                    errs.append('a path through reset_remove avoids the scan that forgets the covered entries')
                ctx.check(not errs, 'reset_remove', body, 'our entries kept exactly when the argument clock does not cover them (scan of self.dots)',
                          errs[0] if errs else '', line=c.line, details=det)
                return
        ctx.fail('reset_remove', body, 'reset_remove never removes an entry of dots')
        return
    bb, c = rem[0]
    fr = iteration_frame(it, bb)
    found = []
    res = {}
    for o in TOTAL:
        # where the code first asks whether self has an entry for the actor at all, the decision is judged for the case that it
        # has: removing an absent entry (or not) changes nothing
        evr = Evaluator(facts, classify=gate_classifier(found), bool_atom=lambda t: clock_presence_atom(t, 1), assumption={'gate': o, 'present': True})
        rc = Reach(facts, body, evr)
        if fr:
            inner = rc._reach(fr[0], {fr[1]})
            res[o] = (bb in inner, rc.must_pass([bb], start=fr[0], stops=(fr[1],)))
        else:
            res[o] = (bb in rc.reachable, rc.must_pass([bb]))
    det = {'ord(self.get(actor), other.counter) -> (remove may, must)': res}
    if not found or fr is None:
        ctx.fail('reset_remove', body, 'removal is not a per-dot comparison of the argument counter with self.get(actor) inside a loop over the argument',
                 line=c.line, details=det)
        return
    g = found[0]
    src_ok = as_item(g['dot']) is not None and whole_iteration_over(as_item(g['dot']), 2)
    key_ok = versionless(c.args[1].val) == ('field', g['dot'], g.get('kf', 'actor'))
    errs = []
    for o in (LT, EQ):
        if not res[o][1]:
            errs.append('an entry not newer than the argument clock (self.get(actor) %s other.counter) is kept' % {'Lt': '<', 'Eq': '=='}[o])
    if res[GT][0]:
        errs.append('an entry strictly newer than the argument clock is removed')
    if not src_ok:
        errs.append('the loop does not range over every dot of the argument clock')
    if not key_ok:
        errs.append('the removed key is not the actor of the compared dot')
    from .loops import loop_of_block
    lp_ = loop_of_block(it, bb)
    head_ = lp_.head if lp_ is not None else fr[0]
    if not must_pass_unless_noop(facts, body, it, [head_], {'other': (2, ()), 'self': (1, ())}):
        errs.append('a path through reset_remove avoids the loop over the argument clock (covered entries survive on that path)')
    others = [b_ for b_, c_ in _dots_writes(it, ('remove', 'remove_entry', 'retain', 'retain_mut', 'clear', 'insert', 'extend', 'append', 'split_off'))
              if head_ not in it.dom.get(b_, ())]
    if others:
        errs.append('self.dots is also changed outside the per-dot loop (line %d): a second way of forgetting entries the rule does not decide'
                    % block_line(it, others[0]))
    if errs:
        ctx.fail('reset_remove', body, errs[0], line=c.line, details=det)
    else:
        ctx.ok('reset_remove', body, 'entry removed exactly under other.counter >= self.get(actor), for every dot of other', line=c.line, details=det)


@rule('VC-INTERSECT', {
    'C10': 'intersection keeps exactly the equal entries',
    'C04': 'the common-dots formula of merge relies on it (an add witnessed on both sides survives)',
    'C05': 'same for Map',
    'C02': '[primitive] MERGE-COMMON holds the both-present witness to a formula built from it',
    'C03': '[primitive] same (MERGE-COMMON serves C03)',
    'C07': '[primitive] same (MERGE-COMMON serves C07)',
    'C09': '[primitive] same (MERGE-COMMON serves C09)',
    'C20': '[primitive] same (MERGE-COMMON serves C20)',
}, floor=1)
def vc_intersect(ctx):
    """VClock::intersection(left, right) inserts (actor, counter) exactly when right.get(actor) == left counter, for every entry of left."""
    facts = ctx.facts
    body = ctx.inherent(VCLOCK, 'intersection')
    it = interp(facts, body)
    ins = []
    for bb_, c_ in it.calls.items():
        if call_name(c_.term) != 'insert':
            continue
        if len(c_.args) == 3:
            ins.append((bb_, c_, c_.args[1].val, c_.args[2].val))
        elif len(c_.args) == 2:  # collected from an iterator of pairs
            tv = drop_lv(c_.args[1].val)
            if tv[0] == 'tuple' and len(tv[1]) == 2:
                ins.append((bb_, c_, tv[1][0], tv[1][1]))
    if not ins:
        # the other spelling: a copy of one clock from which every entry the other clock does not hold with the same counter is
        # dropped (`c = left.clone(); c.dots.retain(|actor, n| right.get(actor) == *n); c`)
        for bb_, c_ in sorted(it.calls.items()):
            if call_name(c_.term) not in ('retain', 'retain_mut') or len(c_.args) != 2:
                continue
            m0 = versionless(c_.args[0].val)
            # (a clone is the value it copies; the receiver must be a local copy, not the borrowed argument itself)
            if not (m0[0] == 'field' and m0[2] == 'dots' and m0[1][0] == 'param' and c_.args[0].loc is not None and c_.args[0].loc[0][0] == 'L'):
                continue
            side = m0[1][1]
            for clo, mapping in closure_bindings(c_.term):
                cb = facts.cb(clo[1])
                if cb is None:
                    continue
                ctx.analysed.add(cb.key)
                hit = []

                def classify(a, b, t, mapping=mapping):
                    sa, sb = subst(a, mapping), subst(b, mapping)
                    for x, y, orient in ((sa, sb, 'fwd'), (sb, sa, 'rev')):
                        cg = clock_get_of(x)
                        if cg is not None:
                            k, v = versionless(cg[1]), versionless(y)
                            pc = param_path(cg[0])
                            if k[0] == 'field' and k[2] == '0' and k[1][0] == 'item' and v == ('field', k[1], '1') and pc and pc[0] != side and pc[0] in (1, 2):
                                hit.append(1)
                                return ('eq', orient)
                    return None
                keep = {o: closure_value(facts, cb, classify=classify, assumption={'eq': o}) for o in TOTAL}
                rv = drop_lv(it.ret)
                ret_ok = rv[0] == 'obj' and rv[1] == ('param', side) and len(rv[2]) == 1 and rv[2][0][0] == 'dots' \
                    and rv[2][0][1][0] == 'post' and rv[2][0][1][1] == drop_lv(c_.term)
                errs = []
                if not hit:
                    errs.append('the kept entries are not decided by comparing the other clock\'s counter with the entry\'s own')
                elif keep[EQ] is not True:
                    errs.append('an entry equal on both sides is not kept')
                elif keep[LT] is not False or keep[GT] is not False:
                    errs.append('an entry whose counters differ is kept')
                if not ret_ok:
                    errs.append('the filtered copy is not what is returned')
                ctx.check(not errs, 'intersection', body, 'a copy of one clock keeping exactly the entries equal in the other', errs[0] if errs else '',
                          line=c_.line, details={'ord(other.get(actor), own counter) -> kept': {str(k): v for k, v in keep.items()}})
                return
        ctx.fail('intersection', body, 'nothing is ever inserted into the result')
        return
    bb, c, ins_k, ins_v = ins[0]
    fr = iteration_frame(it, bb)
    found = []

    def classify(a, b, t):
        for x, y, orient in ((a, b, 'fwd'), (b, a, 'rev')):
            cg = clock_get_of(x)
            if cg is not None:
                k = versionless(cg[1])
                v = versionless(y)
                if k[0] == 'field' and v[0] == 'field' and k[1] == v[1] and (k[2], v[2]) in (('0', '1'), ('actor', 'counter')):
                    found.append({'item': k[1], 'clock': versionless(cg[0]), 'k': k, 'v': v})
                    return ('eq', orient)
        return None
    res = {}
    for o in TOTAL:
        rc = Reach(facts, body, Evaluator(facts, classify=classify, assumption={'eq': o}))
        if fr:
            inner = rc._reach(fr[0], {fr[1]})
            res[o] = (bb in inner, rc.must_pass([bb], start=fr[0], stops=(fr[1],)))
        else:
            res[o] = (bb in rc.reachable, False)
    det = {'ord(right.get(actor), left counter) -> (insert may, must)': res}
    if not found or fr is None:
        ctx.fail('intersection', body, 'insertion is not guarded by comparing the other clock\'s counter with the iterated counter', line=c.line, details=det)
        return
    g = found[0]
    src = as_item(g['item'])
    pc = param_path(g['clock'])
    base = iter_source(src)[0] if src is not None else None
    pb = param_path(base) if base is not None else None
    sides_ok = pc is not None and pb is not None and {pc[0], pb[0]} == {1, 2} and not (set(iter_adaptors(src)) & LOSSY_ADAPTORS)
    val_ok = versionless(ins_k) == g['k'] and versionless(ins_v) == g['v']
    # (an empty clock has nothing in common with anything: `if left.dots.is_empty() { return VClock::new() }` in front)
    retv = drop_lv(general_ret(facts, body, {'l': (1, ()), 'r': (2, ())}) or it.ret)
    ret_ok = retv[0] == 'agg' and retv[1] == VCLOCK
    errs = []
    if not res[EQ][1]:
        errs.append('an entry equal on both sides is not kept')
    if res[LT][0] or res[GT][0]:
        errs.append('an entry whose counters differ is kept (%s)' % ('Lt' if res[LT][0] else 'Gt'))
    if not sides_ok:
        errs.append('the scan does not pair every entry of one clock with the other clock')
    if not val_ok:
        errs.append('the inserted pair is not the iterated (actor, counter)')
    if not ret_ok:
        errs.append('the collected entries are not returned as the VClock')
    if errs:
        ctx.fail('intersection', body, errs[0], line=c.line, details=det)
    else:
        ctx.ok('intersection', body, 'insert exactly under {Eq}, value = the common counter', line=c.line, details=det)


@rule('VC-WITHOUT', {
    'C10': 'forget: clone_without(base) keeps exactly the entries strictly newer than base, like reset_remove',
    'C04': 'the common-dots formula of merge uses it for "their dots we have not seen" / "our dots they have not seen"',
    'C05': 'same for Map entry clocks',
    'C02': '[primitive] MERGE-COMMON holds the both-present witness to a formula built from it',
    'C03': '[primitive] same (MERGE-COMMON serves C03)',
    'C07': '[primitive] same (MERGE-COMMON serves C07)',
    'C09': '[primitive] same (MERGE-COMMON serves C09)',
    'C20': '[primitive] same (MERGE-COMMON serves C20)',
}, floor=1)
def vc_without(ctx):
    """VClock::clone_without(self, base) returns a copy of self with reset_remove(base) applied, on every path."""
    from .merge import cexpr, leaf_param, fmt_c
    facts = ctx.facts
    body = ctx.inherent(VCLOCK, 'clone_without')
    it = interp(facts, body)
    e = cexpr(it.ret) if it.ret[0] != 'phi' else None
    ok = e is not None and e == ('minus', ('leaf', ('param', 1)), ('leaf', ('param', 2)))
    if not ok:
        # only the surviving entries are copied: a filter over all of self.dots keeping exactly what base does not cover
        r = drop_lv(it.ret)
        dv = drop_lv(dict(r[3]).get('dots')) if r[0] == 'agg' and r[1] == VCLOCK else None
        if dv is not None and is_call(dv, 'collect') and dv[2]:
            src = dv[2][0]
            base, kind, clo = iter_source(src)
            flt = [st for st in subterms(drop_lv(src)) if is_call(st, 'filter') and len(st[2]) == 2 and st[2][1][0] == 'closure']
            if param_path(base) == (1, ('dots',)) and len(flt) == 1 and not (set(iter_adaptors(src)) & (LOSSY_ADAPTORS - {'filter'})):
                for cl_, m_ in closure_bindings(flt[0]):
                    cb_ = facts.cb(cl_[1])
                    errs_, det_ = uncovered_scan_errors(facts, cb_, m_)
                    # what is copied is the entry itself
                    maps_ok = all(versionless(subst(interp(facts, facts.cb(c2[1])).ret, {('param', 2): ('param', 2)})) in
                                  (('tuple', (('field', ('param', 2), '0'), ('field', ('param', 2), '1'))), ('param', 2))
                                  for n2, c2 in clo if n2 == 'map' and c2 and c2[0] == 'closure')
                    ok = not errs_ and maps_ok
    ctx.check(ok, 'clone_without', body, 'returns self − base (copy, then reset_remove) on every path',
              'clone_without does not return a copy of self reduced by reset_remove(base) on every path (returns %s)' % fmt(it.ret, 4))


def _glb_loop_form(ctx, facts, body, it):
    """glb as a loop over the own entries: each is re-inserted (into the map that becomes self.dots) with the smaller of its
    counter and other.get(actor) — chosen by a comparison or a `min` call — exactly when that minimum is not 0."""
    from .loops import loops_of, item_filter, item_derived
    for lp in loops_of(it):
        if not lp.whole_over(1, ('dots',)) or lp.early_exits() or lp.source()[2]:
            continue
        flt = item_filter(facts, it, lp, ('dots',))
        if not flt or flt[0] != 'keep' or len(flt[1]) != 1:
            continue
        bb = flt[1][0]
        c = it.calls[bb]
        if len(c.args) == 3:
            kt, vt, vi = c.args[1].val, c.args[2].val, 2
        else:
            continue
        k = versionless(kt)
        errs = []
        if not (k[0] == 'field' and k[2] == '0' and item_derived(kt, lp)):
            errs.append('the entry is not stored under its own actor')
        item = k[1] if k[0] == 'field' else None

        def kind_of(t):
            t = drop_lv(t)
            cg = clock_get_of(t)
            if cg is not None and param_path(cg[0]) and param_path(cg[0])[0] == 2 and versionless(cg[1]) == ('field', item, '0'):
                return 'their'
            if versionless(t) == ('field', item, '1'):
                return 'own'
            if is_call(t, 'min', local=False) and len(t[2]) == 2 and {kind_of(t[2][0]), kind_of(t[2][1])} == {'their', 'own'}:
                return 'min'
            return None

        def classify(a, b, t):
            ka, kb = kind_of(a), kind_of(b)
            if (ka, kb) == ('their', 'own'):
                return ('cmp', 'fwd')
            if (ka, kb) == ('own', 'their'):
                return ('cmp', 'rev')
            return None
        want = {LT: {'their'}, GT: {'own'}, EQ: {'their', 'own'}}
        chosen = {}
        for o in TOTAL:
            rc = Reach(facts, body, Evaluator(facts, classify=classify, assumption={'cmp': o}))
            ks = set()
            for a_ in rc.arg_terms(bb, vi):
                for x in phi_alts(drop_lv(a_)):
                    ks.add(kind_of(x))
            chosen[o] = sorted(str(x) for x in ks)
            if not ks or not (ks <= want[o] | {'min'}):
                errs.append('the stored counter is not the smaller of the own counter and other.get(actor) (their %s own -> %s)' % (o, sorted(str(x) for x in ks)))
                break
        vv = versionless(vt)

        def atom(t):
            return 'min' if versionless(t) == vv else None
        tab = {}
        for val in (0, 1, 7):
            rc = Reach(facts, body, Evaluator(facts, bool_atom=atom, classify=lambda a, b, t: None, assumption={'min': val}))
            tab[val] = (lp.may(rc, [bb]), lp.must(rc, [bb]))
        if tab[0][0]:
            errs.append('an entry whose minimum is 0 is kept (a zero counter is stored)')
        if not tab[7][1] or not tab[1][1]:
            errs.append('an entry with a non-zero minimum is dropped')
        ctx.check(not errs, 'glb', body, 'stores min(own, other.get(actor)), drops the entry exactly when it is 0 (loop form)', errs[0] if errs else '',
                  line=c.line, details={'ord(their, own) -> stored': chosen, 'min -> (keep may, must)': {str(k_): v for k_, v in tab.items()}})
        return True
    return False


@rule('VC-GLB', {
    'C10': 'glb is the pointwise minimum; a zero result must be dropped (no API call stores a zero counter)',
}, floor=1)
def vc_glb(ctx):
    """VClock::glb keeps for each own entry min(own counter, other.get(actor)) and drops the entry when that is 0."""
    facts = ctx.facts
    body = ctx.inherent(VCLOCK, 'glb')
    it = interp(facts, body)
    done = False
    for bb, c in sorted(it.calls.items()):
        if call_name(c.term) not in ('filter_map', 'retain'):
            continue
        for clo, mapping in closure_bindings(c.term):
            cb = facts.cb(clo[1])
            if cb is None:
                continue
            cit = interp(facts, cb)
            ctx.analysed.add(cb.key)
            item = mapping.get(('param', 2))
            src_ok = item is not None and whole_iteration_over(item[1], 1, ('dots',))
            mins = []

            def atom(t, mapping=mapping):
                ts = subst(t, mapping)
                if is_call(ts, 'min', local=False) and len(ts[2]) == 2:
                    a, b = versionless(ts[2][0]), versionless(ts[2][1])
                    for x, y in ((a, b), (b, a)):
                        if clock_get_of(y) is not None and x[0] == 'field' and x[2] == '1':
                            k = versionless(clock_get_of(y)[1])
                            pc = param_path(clock_get_of(y)[0])
                            if k == ('field', x[1], '0') and pc and pc[0] == 2:
                                mins.append(t)
                                return 'min'
                if call_name(c.term) == 'retain' and ts[0] == 'phi' and len(ts[1]) == 2 and hand_min[0]:
                    # the counter after a hand-written `if theirs < *count { *count = theirs }`: the stored one or other's, and
                    # (checked below, per ordering) always the smaller of the two
                    kinds_ = set(kind_of(a_, done=True) for a_ in ts[1])
                    if kinds_ == {'own', 'their'}:
                        mins.append(t)
                        return 'min'
                return None

            def kind_of(x, done=False):
                # (the closure's own parameters are substituted exactly once: the function's `other` is `param 2` too)
                x = versionless(x) if done else versionless(subst(x, mapping))
                cg_ = clock_get_of(x)
                if cg_ is not None and param_path(cg_[0]) and param_path(cg_[0])[0] == 2 and versionless(cg_[1])[0] == 'field' \
                        and versionless(cg_[1])[2] == '0' and versionless(cg_[1])[1][0] == 'item':
                    return 'their'
                if x[0] == 'field' and x[2] == '1' and x[1][0] == 'item':
                    return 'own'
                return None
            hand_min = [False]
            if call_name(c.term) == 'retain':
                # in-place minimum written by hand: the only write to the counter stores other's counter, exactly when it is smaller
                wr0 = [(k_[0], w) for k_, w in cit.writes.items() if w.loc[0] == ('P', 3) and not w.loc[1]]
                if wr0 and all(kind_of(w.val) == 'their' for _, w in wr0):
                    def cls_(a, b, t):
                        ka, kb = kind_of(a), kind_of(b)
                        if (ka, kb) == ('their', 'own'):
                            return ('c', 'fwd')
                        if (ka, kb) == ('own', 'their'):
                            return ('c', 'rev')
                        return None
                    okh = True
                    for o_ in TOTAL:
                        rc_ = Reach(facts, cb, Evaluator(facts, classify=cls_, assumption={'c': o_}))
                        sites_ = [b_ for b_, _ in wr0]
                        if o_ == LT and not rc_.must_pass(sites_):
                            okh = False
                        if o_ == GT and any(b_ in rc_.reachable for b_ in sites_):
                            okh = False
                    hand_min[0] = okh
            res = {}
            if call_name(c.term) == 'retain':
                # in-place form: the closure returns keep?, and overwrites the counter through its &mut parameter
                item = ('item', c.term[2][0])
                src_ok = whole_iteration_over(c.term[2][0], 1, ('dots',))
                for val in (0, 1, 7):
                    ev = Evaluator(facts, bool_atom=atom, assumption={'min': val})
                    r_ = ev.ev(cit.ret)
                    res[val] = (r_ is not True, r_ is not False)
                wr = [(k_[0], w) for k_, w in cit.writes.items() if w.loc[0] == ('P', 3) and not w.loc[1]]
            else:
                none_s = ret_sites_by(cit, lambda v: is_variant(v, 'option::Option', 'None'))
                some_s = ret_sites_by(cit, lambda v: is_variant(v, 'option::Option', 'Some'))
                for val in (0, 1, 7):
                    rc = Reach(facts, cb, Evaluator(facts, bool_atom=atom, assumption={'min': val}))
                    res[val] = (any(b in rc.reachable for b, _ in none_s), any(b in rc.reachable for b, _ in some_s))
            det = {'min -> (drop may, keep may)': res}
            if not mins:
                ctx.fail('glb', cb, 'the kept counter is not min(own counter, other.get(actor))', line=cb.line, details=det)
                done = True
                continue
            kept_ok = False
            if call_name(c.term) == 'retain':
                rc7 = Reach(facts, cb, Evaluator(facts, bool_atom=atom, assumption={'min': 7}))
                good = [b_ for b_, w in wr if drop_lv(w.val) in [drop_lv(m) for m in mins]]
                kept_ok = (bool(good) and len(good) == len(wr) and rc7.must_pass(good)) or hand_min[0]
            else:
                for b2, v in some_s:
                    tup = v[3][0][1]
                    if tup[0] == 'tuple' and len(tup[1]) == 2 and drop_lv(tup[1][1]) in [drop_lv(m) for m in mins] \
                            and versionless(subst(tup[1][0], mapping)) == ('field', versionless(item), '0'):
                        kept_ok = True
            errs = []
            if res[0][1] or not res[0][0]:
                errs.append('an entry whose minimum is 0 is kept (a zero counter is stored)')
            if res[7][0] or not res[7][1] or res[1][0] or not res[1][1]:
                errs.append('an entry with a non-zero minimum is dropped')
            if not kept_ok:
                errs.append('the stored counter is not the computed minimum')
            if not src_ok:
                errs.append('glb does not range over every own entry')
            if errs:
                ctx.fail('glb', cb, errs[0], line=cb.line, details=det)
            else:
                ctx.ok('glb', cb, 'stores min(own, other.get(actor)), drops the entry exactly when it is 0', line=cb.line, details=det)
            done = True
    if not done:
        done = _glb_loop_form(ctx, facts, body, it)
        if done:
            return
    if not done:
        ctx.shape('glb', body, 'no filter over self.dots computing the pointwise minimum')
    else:
        # result stored back
        stored = any(loc_target(it, w.loc) and loc_target(it, w.loc)[:2] == (1, ('dots',)) and w.kind == 'assign' for w in it.writes.values()) \
            or any(loc_target(it, w.loc) and loc_target(it, w.loc)[:2] == (1, ('dots',)) and w.kind == 'call'
                   and w.val[0] == 'post' and call_name(w.val[1]) == 'retain' for w in it.muts.values())
        if not stored:
            ctx.fail('glb/store', body, 'the filtered entries are not stored back into self.dots')
        else:
            sites = [k_[0] for k_, w in it.writes.items() if loc_target(it, w.loc) and loc_target(it, w.loc)[:2] == (1, ('dots',)) and w.kind == 'assign'] \
                + [k_[0] for k_, w in it.muts.items() if loc_target(it, w.loc) and loc_target(it, w.loc)[:2] == (1, ('dots',)) and w.kind == 'call'
                   and w.val[0] == 'post' and call_name(w.val[1]) == 'retain']
            # (an empty `other` is no excuse: the minimum with nothing is nothing - `self.dots.clear()` is that store, but only there)
            clears = [b_ for b_, c_ in _dots_writes(it, ('clear',))]
            if clears:
                rc_ne = Reach(facts, body, Evaluator(facts, bool_atom=emptiness_atom({'other': (2, ())}), assumption={'other': False}))
                if any(b_ in rc_ne.reachable for b_ in clears):
                    ctx.fail('glb/store', body, 'self.dots is cleared although the other clock is not empty')
                    clears = []
            if not must_pass_unless_noop(facts, body, it, sorted(set(sites + clears)), {'self': (1, ())}):
                ctx.fail('glb/store', body, 'a path through glb avoids storing the pointwise minimum back into self.dots')


@rule('VC-VALIDATE', {
    'C10': 'validate_op accepts a dot iff it does not skip a counter',
    'C16': 'the ordering error is returned exactly for gaps (dot.counter > get(actor)+1)',
}, floor=1)
def vc_validate(ctx):
    """VClock::validate_op returns Err exactly when dot.counter > self.get(dot.actor) + 1."""
    facts = ctx.facts
    body = ctx.method(VCLOCK, 'CmRDT', 'validate_op')
    it = interp(facts, body)
    found = []

    def classify(a, b, t):
        for x, y, orient in ((a, b, 'fwd'), (b, a, 'rev')):
            xv, yv = versionless(x), versionless(y)
            if xv[0] == 'field' and xv[2] == 'counter' and yv[0] == 'binop' and yv[1] == 'Add':
                ops = [yv[2], yv[3]]
                one = [o for o in ops if o[0] == 'const' and o[1] == 1]
                get = [clock_get_of(o) for o in ops if clock_get_of(o) is not None]
                if one and get:
                    g = get[0]
                    if versionless(g[1]) == ('field', xv[1], 'actor') and param_path(g[0]) and param_path(g[0])[0] == 1:
                        found.append(xv[1])
                        return ('gap', orient)
        return None
    errs_s = ret_sites_by(it, lambda v: is_variant(v, 'result::Result', 'Err'))
    oks_s = ret_sites_by(it, lambda v: is_variant(v, 'result::Result', 'Ok'))
    res = {}
    for o in TOTAL:
        rc = Reach(facts, body, Evaluator(facts, classify=classify, assumption={'gap': o}))
        res[o] = (any(b in rc.reachable for b, _ in errs_s), any(b in rc.reachable for b, _ in oks_s))
    det = {'ord(dot.counter, get(actor)+1) -> (Err may, Ok may)': res}
    if not found:
        ctx.fail('validate_op', body, 'no comparison of dot.counter with self.get(dot.actor)+1', details=det)
        return
    errs = []
    if res[GT][1] or not res[GT][0]:
        errs.append('a dot that skips a counter (counter > get+1) is accepted')
    for o in (LT, EQ):
        if res[o][0]:
            errs.append('an in-order or already-seen dot (counter %s get+1) is rejected' % {'Lt': '<', 'Eq': '=='}[o])
    ctx.check(not errs, 'validate_op', body, 'Err exactly under dot.counter > get(actor)+1', errs[0] if errs else '', details=det)


@rule('VC-INC', {
    'C10': 'inc is get+1 for that actor',
    'C07': 'a derived add context must carry the actor\'s next unused dot',
    'C11': 'GCounter::inc derives the next dot from the local total',
    'C12': 'List tags each op with the actor\'s next dot',
    'C04': '[primitive] the dot of an Orswot add comes from here through derive_add_ctx (CTX-DERIVE): not fresh, the gate drops the add',
    'C05': '[primitive] same for a Map update',
    'C06': '[primitive] same for an MVReg write: a clock that does not exceed the read clock supersedes nothing',
}, floor=2)
def vc_inc(ctx):
    """VClock::inc(actor) == Dot{actor, counter: self.get(actor) + 1} (through VClock::dot and Dot::inc)."""
    facts = ctx.facts
    body = ctx.inherent(VCLOCK, 'inc')
    it = interp(facts, body)
    nd = next_dot_of(facts, it.ret)
    ok = nd == (('param', 1), ('param', 2))
    t = normal(facts, it.ret)
    ctx.check(ok, 'inc', body, 'inc(actor) = Dot{actor, get(actor)+1}', 'VClock::inc(actor) is %s, expected Dot{actor, self.get(actor)+1}' % fmt(t),
              details={'summary': fmt(t)})
    # Dot::apply_inc: the in-place successor
    b2 = ctx.inherent(DOT, 'apply_inc')
    it2 = interp(facts, b2)
    ws = [w for w in it2.all_mutations() if w.loc[0][0] == 'P' and w.loc[0][1] == 1]
    v = drop_lv(ws[0].val) if len(ws) == 1 else None
    ok2 = bool(v) and tuple(ws[0].loc[1]) == ('counter',) and v[0] == 'binop' and v[1] == 'Add' and \
        {versionless(v[2]), versionless(v[3])} == {('field', ('param', 1), 'counter'), ('const', 1, 'u64')}
    ctx.check(ok2, 'apply_inc', b2, 'counter := counter + 1, actor untouched',
              'Dot::apply_inc does not set the counter (and only the counter) to counter + 1: %s' % ([(w.loc[1], fmt(drop_lv(w.val), 4)) for w in ws][:3]))


@rule('VC-MERGE', {
    'C10': 'merge is the least upper bound: every dot of other is applied (apply keeps the max)',
    'C02': 'if some dot of other does not reach self, a+b lacks information b+a has',
    'C03': 'op delivery of the dots behind other would have applied them',
    'C11': 'GCounter merge delegates here',
    'C04': '[primitive] Orswot::merge joins the replica clocks and the both-present witnesses through it (ABSORB-MERGE, MERGE-COMMON)',
    'C05': '[primitive] same for Map',
    'C06': '[primitive] the add / rm clock of an MVReg read is the join of the value clocks through it (MV-READ)',
    'C07': '[primitive] same: the context a read hands out must cover everything applied (MV-READ, ABSORB-MERGE)',
    'C08': '[primitive] the clock growth by merge that triggers re-examination of pending removes (ABSORB-MERGE, DEF-REEXAM)',
    'C09': '[primitive] a merged-in update that is not in the clock is adopted again from any stale state (ABSORB-MERGE)',
    'C20': '[primitive] equal knowledge means equal clocks only if the join is the pointwise max (MERGE-COMMON, ABSORB-MERGE)',
}, floor=1)
def vc_merge(ctx):
    """VClock::merge applies every dot of other to self."""
    facts = ctx.facts
    body = ctx.method(VCLOCK, 'CvRDT', 'merge')
    it = interp(facts, body)
    sites = []
    for bb, c in it.calls.items():
        if is_call(c.term, 'apply', self_adt='VClock') and len(c.args) == 2 and param_path(c.args[0].val) and param_path(c.args[0].val)[0] == 1:
            src = as_item(c.args[1].val)
            if src is not None and whole_iteration_over(src, 2):
                sites.append(bb)
    if not sites:
        # apply written out in the loop: for every entry of other, its counter is stored for its actor whenever it is larger than
        # self's counter for that actor, and never when it is smaller
        for site in inline_apply_sites(facts, body, it):
            bb, c, fr, g, res = site['bb'], site['call'], site['frame'], site['gate'], site['res']
            if fr is None:
                continue
            src = as_item(g['dot'])
            from .loops import loop_of_block
            lp = loop_of_block(it, bb)
            errs = list(site['errs'])
            if not (src is not None and whole_iteration_over(src, 2)) or lp is None or lp.early_exits():
                errs.insert(0, 'the loop does not range over every dot of other')
            if not Reach(facts, body, Evaluator(facts)).must_pass([fr[1]]):
                errs.append('the loop over other is not reached on every path')
            ctx.check(not errs, 'merge', body, 'every dot of other is stored when ahead of self, never when behind (apply written inline)',
                      errs[0] if errs else '', line=c.line, details={'ord(self.get(actor), counter) -> (store may, must)': res})
            return
        ctx.fail('merge', body, 'no loop applying every dot of other to self')
        return
    fr = iteration_frame(it, sites[0])
    rc = Reach(facts, body, Evaluator(facts))
    ok = fr is not None and rc.must_pass(sites, start=fr[0], stops=(fr[1],)) and \
        (rc.must_pass([fr[1]]) or must_pass_unless_noop(facts, body, it, [fr[1]], {'other': (2, ())}))
    ctx.check(ok, 'merge', body, 'every dot of other reaches self.apply', 'a dot of other can be skipped by merge', line=block_line(it, sites[0]))


def scan_kind(facts, t, analysed=None, bad=None):
    """t is (the negation of) a pointwise dominance scan `for all (k, v) in X.dots: Y.get(k) >= v`
    -> 'ge' when X = other (self dominates) / 'le' when X = self, possibly ('not', kind)."""
    q = quant(facts, t)
    if q is None:
        return None
    base = iter_source(q['src'])[0]
    pb = param_path(base)
    if not pb or set(iter_adaptors(q['src'])) & LOSSY_ADAPTORS:
        return None
    # the scan ranges over the (actor, counter) entries of X.dots, or over the dots X.iter() yields
    if pb[1][-1:] == ('dots',):
        kf, vf = '0', '1'
    elif pb[1] == () and any(st[0] == 'call' and call_name(st) == 'iter' and 'VClock' in (cinfo(st[1])['self'] or cinfo(st[1])['def'] or '')
                             for st in subterms(versionless(q['src']))):
        kf, vf = 'actor', 'counter'
    else:
        return None
    got = []

    def classify(a, b, tt):
        for x, y, orient in ((a, b, 'fwd'), (b, a, 'rev')):
            cg = clock_get_of(x)
            if cg is not None:
                k, v = versionless(cg[1]), versionless(y)
                pc = param_path(cg[0])
                if k[0] == 'field' and k[2] == kf and v[0] == 'field' and v[2] == vf and k[1] == v[1] and quant_item(q, k[1]) and pc:
                    got.append(pc[0])
                    return ('p', orient)
        return None
    truth, hit = pred_truth(facts, q, classify, TOTAL, 'p')
    if not got or got[0] == pb[0]:
        return None
    if analysed is not None:
        analysed.add(q['cb'].key)
    ge = {LT: False, EQ: True, GT: True}
    lt = {LT: True, EQ: False, GT: False}
    kind = 'ge' if pb[0] == 2 else 'le'
    # value = neg XOR quantified(P):  forall ge -> scan ; exists lt -> not scan
    if q['kind'] == 'forall' and truth == ge:
        return ('not', kind) if q['neg'] else kind
    if q['kind'] == 'exists' and truth == lt:
        return kind if q['neg'] else ('not', kind)
    if bad is not None:
        bad.append((q['cb'], truth))
    return None



@rule('VC-PCMP', {
    'C10': 'partial_cmp must be exactly the pointwise order (Equal / Greater / Less / None)',
    'C06': 'MVReg dominance filters call it',
    'C08': 'the defer decision calls it',
    'C02': '[primitive] every keep / drop / adopt decision of merge compares clocks through it (MERGE-DROP, MRG-MVREG, DEF-DECIDE)',
    'C03': '[primitive] same decisions on the op side (DEF-DECIDE, MV-EVICT, MV-IGNORE) and on the merge side',
    'C04': '[primitive] Orswot: defer-or-apply of a remove, drop-or-keep of a one-sided member (DEF-DECIDE, MERGE-DROP)',
    'C05': '[primitive] Map: same for keys',
    'C07': '[primitive] MERGE-DROP serves C07 and decides through it',
    'C09': '[primitive] whether a one-sided entry was seen and removed is this comparison (MERGE-DROP, DEF-DECIDE)',
    'C17': '[primitive] VClock::concurrent is partial_cmp(..).is_none() (VC-CONC)',
    'C18': '[primitive] Orswot / Map reset_remove drop the pending removes the clock covers by this comparison (RR-COVER, RR-PRUNE)',
    'C20': '[primitive] a pending remove is stored only when this comparison says the replica has not seen it all (DEF-DECIDE/may)',
}, floor=4)
def vc_pcmp(ctx):
    """VClock::partial_cmp: Equal iff self == other; Greater iff every entry of other is <= self's; Less the mirror; else None."""
    facts = ctx.facts
    body = ctx.method(VCLOCK, 'PartialOrd', 'partial_cmp')
    it = interp(facts, body)
    scans = {}

    def scan_kind(t):
        bad_ = []
        k_ = globals()['scan_kind'](facts, t, ctx.analysed, bad_)
        if bad_:
            scans.setdefault('bad', []).extend(bad_)
        return k_

    def atom(t):
        if t[0] == 'call' and cinfo(t[1])['name'] == 'eq' and len(t[2]) == 2:
            a, b = versionless(t[2][0]), versionless(t[2][1])
            if {a, b} == {('param', 1), ('param', 2)}:
                return 'eq'
        k = scan_kind(t)
        if k:
            scans[k[1] if isinstance(k, tuple) else k] = True
            return k
        return None
    kinds = {
        'Equal': ret_sites_by(it, lambda v: is_variant(v, 'option::Option', 'Some') and is_variant(v[3][0][1], 'cmp::Ordering', 'Equal')),
        'Greater': ret_sites_by(it, lambda v: is_variant(v, 'option::Option', 'Some') and is_variant(v[3][0][1], 'cmp::Ordering', 'Greater')),
        'Less': ret_sites_by(it, lambda v: is_variant(v, 'option::Option', 'Some') and is_variant(v[3][0][1], 'cmp::Ordering', 'Less')),
        'None': ret_sites_by(it, lambda v: is_variant(v, 'option::Option', 'None')),
    }
    table = {}
    KIND = {EQ: 'Equal', GT: 'Greater', LT: 'Less', NONE: 'None'}
    for eq in (True, False):
        for ge in (True, False):
            for le in (True, False):
                evr = Evaluator(facts, bool_atom=atom, assumption={'eq': eq, 'ge': ge, 'le': le})
                rc = Reach(facts, body, evr)
                res = {k: any(b in rc.reachable for b, _ in v) for k, v in kinds.items()}
                # results that are not spelled as a literal `Some(Ordering::X)` / `None` (then_some, or_else, ..): evaluate the value
                for (bb_, si_), w_ in it.ret_assigns.items():
                    if bb_ not in rc.reachable:
                        continue
                    for alt in phi_alts(w_.val):
                        if alt[0] == 'agg':
                            continue
                        v_ = evr.ev(alt)
                        if isinstance(v_, tuple) and v_[0] == 'optord':
                            res[KIND[v_[1]]] = True
                        elif isinstance(v_, tuple) and v_[0] == 'optnone':
                            res['None'] = True
                        else:
                            res['?'] = True
                table[(eq, ge, le)] = res
    det = {'(eq,self>=other,other>=self) -> reachable results': {str(k): sorted(x for x, y in v.items() if y) for k, v in table.items()}}
    if scans.get('bad'):
        cb, truth = scans['bad'][0]
        ctx.fail('scan', cb, 'dominance scan predicate is true under %s of (get(k), v); expected exactly {Gt, Eq}' % sorted(k for k, v in truth.items() if v),
                 line=cb.line, details=det)
    for need in ('eq', 'ge', 'le'):
        if need not in scans and need != 'eq':
            ctx.fail('scan-' + need, body, 'no pointwise dominance scan for "%s" found' % ('self >= other' if need == 'ge' else 'other >= self'), details=det)

    def only(res, key):
        return [k for k, v in res.items() if v] == [key]
    checks = [
        ('Equal', all(only(table[(True, g, l)], 'Equal') for g in (True, False) for l in (True, False))
         and not any(table[(False, g, l)]['Equal'] for g in (True, False) for l in (True, False)),
         'Some(Equal) is not returned exactly when self == other'),
        ('Greater', only(table[(False, True, False)], 'Greater') and not table[(False, False, True)]['Greater'] and not table[(False, False, False)]['Greater'],
         'Some(Greater) is not returned exactly when self dominates other'),
        ('Less', only(table[(False, False, True)], 'Less') and not table[(False, True, False)]['Less'] and not table[(False, False, False)]['Less'],
         'Some(Less) is not returned exactly when other dominates self'),
        ('None', only(table[(False, False, False)], 'None') and not table[(False, True, False)]['None'] and not table[(False, False, True)]['None'],
         'None (concurrent) is not returned exactly when neither side dominates'),
    ]
    for name, ok, msg in checks:
        ctx.check(ok, name, body, 'result %s under the expected conditions only' % name, msg, details=det)


@rule('VC-CONC', {
    'C10': "reports 'concurrent' iff neither side dominates",
    'C17': 'Map::validate_merge recurses only for concurrent entry clocks',
}, floor=1)
def vc_conc(ctx):
    """VClock::concurrent(a,b) is true exactly when partial_cmp(a,b) is None."""
    facts = ctx.facts
    body = ctx.inherent(VCLOCK, 'concurrent')
    it = interp(facts, body)

    def classify(a, b, t):
        va, vb = versionless(a), versionless(b)
        if (va, vb) == (('param', 1), ('param', 2)):
            return ('pc', 'fwd')
        if (va, vb) == (('param', 2), ('param', 1)):
            return ('pc', 'rev')
        return None
    truth = {}
    for o in PARTIAL:
        truth[o] = ret_value(facts, body, Evaluator(facts, classify=classify, assumption={'pc': o}))
    ok = truth == {LT: False, EQ: False, GT: False, NONE: True}
    if not ok:
        # without partial_cmp: the two pointwise dominance scans themselves (`!a.dominates(b) && !b.dominates(a)`)
        seen = set()

        def atom(t):
            k = scan_kind(facts, t, ctx.analysed)
            if k:
                seen.add(k[1] if isinstance(k, tuple) else k)
            return k
        worlds = {EQ: (True, True), GT: (True, False), LT: (False, True), NONE: (False, False)}
        truth2 = {o: ret_value(facts, body, Evaluator(facts, bool_atom=atom, assumption={'ge': ge, 'le': le})) for o, (ge, le) in worlds.items()}
        if seen == {'ge', 'le'} and truth2 == {LT: False, EQ: False, GT: False, NONE: True}:
            ok, truth = True, truth2
    ctx.check(ok, 'concurrent', body, 'true exactly under None', 'concurrent() is true under %s, expected exactly {None}'
              % sorted(k for k, v in truth.items() if v), details={'truth': truth})


@rule('DOT-PCMP', {
    'C10': 'dots of different actors are incomparable; same actor compares counters',
}, floor=1)
def dot_pcmp(ctx):
    """Dot::partial_cmp compares counters only when the actors are equal, and is None otherwise."""
    facts = ctx.facts
    body = ctx.method(DOT, 'PartialOrd', 'partial_cmp')
    it = interp(facts, body)

    def atom(t):
        if t[0] == 'call' and cinfo(t[1])['name'] in ('eq', 'ne') and len(t[2]) == 2:
            a, b = versionless(t[2][0]), versionless(t[2][1])
            if {a, b} == {('field', ('param', 1), 'actor'), ('field', ('param', 2), 'actor')}:
                return 'same' if cinfo(t[1])['name'] == 'eq' else ('not', 'same')
        return None
    none_s = ret_sites_by(it, lambda v: is_variant(v, 'option::Option', 'None'))
    def is_counter_cmp(v):
        if is_variant(v, 'option::Option', 'Some'):  # Some(a.cmp(&b)) == a.partial_cmp(&b) for the total order on u64
            v = drop_lv(v[3][0][1])
            if not is_call(v, 'cmp'):
                return False
        elif not is_call(v, 'partial_cmp'):
            return False
        return len(v[2]) == 2 and versionless(v[2][0]) == ('field', ('param', 1), 'counter') \
            and versionless(v[2][1]) == ('field', ('param', 2), 'counter')
    cmp_s = ret_sites_by(it, is_counter_cmp)
    none_s = [(b, v) for b, v in none_s if (b, v) not in cmp_s]
    res = {}
    for same in (True, False):
        rc = Reach(facts, body, Evaluator(facts, bool_atom=atom, assumption={'same': same}))
        res[same] = (any(b in rc.reachable for b, _ in none_s), any(b in rc.reachable for b, _ in cmp_s),
                     rc.must_pass([b for b, _ in none_s]) if none_s else False, rc.must_pass([b for b, _ in cmp_s]) if cmp_s else False)
    ok = res[True][3] and not res[True][0] and res[False][2] and not res[False][1]
    if not ok and res[False][2] and not res[True][0]:
        # the counter comparison written out (`if a < b { Less } else if a > b { Greater } else { Equal }`): for each ordering of
        # the two counters the Ordering wrapped in the returned Some is traced back to the variant literals that reach it
        def classify(a, b, t):
            av, bv = versionless(a), versionless(b)
            if av == ('field', ('param', 1), 'counter') and bv == ('field', ('param', 2), 'counter'):
                return ('c', 'fwd')
            if bv == ('field', ('param', 1), 'counter') and av == ('field', ('param', 2), 'counter'):
                return ('c', 'rev')
            return None
        want = {LT: 0, EQ: 1, GT: 2}     # variant index of core::cmp::Ordering
        good = True
        for o in TOTAL:
            rc = Reach(facts, body, Evaluator(facts, classify=classify, bool_atom=atom, assumption={'same': True, 'c': o}))
            rets = [b for b in rc.return_blocks() if b in rc.reachable]
            got = set()
            for rb in rets:
                ops_ = rc._agg_operand_sites(0, rb, 0, 0)
                if not ops_:
                    got.add(None)
                    continue
                for l_, b_ in ops_:
                    got |= set(rc._values_at(l_, b_))
            good = good and got == {('variant', want[o])}
        ok = good
    ctx.check(ok, 'partial_cmp', body, 'counter comparison under equal actors, None otherwise',
              'Dot::partial_cmp does not return the counter comparison exactly for equal actors and None otherwise', details={'same_actor -> (None may, cmp may, None must, cmp must)': {str(k): v for k, v in res.items()}})


def _is_dots_loc(loc):
    root, path = loc
    if tuple(path)[-1:] == ('dots',):
        return True
    if root[0] == 'O':
        t = versionless(root[1])
        if t[0] == 'upvar' and not path:
            return str(t[2]).endswith('dots')
        while t[0] == 'field' and not path:
            return t[2] == 'dots'
    return False


def _local_chain(body, n):
    """locals whose value is moved/copied (whole) into local n by a single plain assignment, transitively."""
    out, work = {n}, [n]
    while work:
        t = work.pop()
        defs = []
        for blk in body.blocks:
            if blk['cleanup']:
                continue
            for st in blk['stmts']:
                if st['k'] == 'assign' and st['place']['local'] == t and not st['place']['proj']:
                    defs.append(st['rv'])
        if len(defs) == 1 and defs[0]['k'] == 'use' and defs[0]['op']['k'] in ('copy', 'move') and not defs[0]['op']['place']['proj']:
            m = defs[0]['op']['place']['local']
            if m not in out:
                out.add(m)
                work.append(m)
    return out


def _stored_counter(vv):
    """vv is the counter component of an item of an iteration over some clock's dots (a counter that is already stored)."""
    if vv[0] == 'field' and vv[2] in ('1', 'counter'):
        t = vv[1]
        src = as_item(t) if t[0] != 'item' else t[1]
        if src is not None:
            base = versionless(iter_source(src)[0])
            if base[0] == 'field' and base[2] == 'dots':
                return True
            if is_call(base, 'iter', self_adt='VClock') or (base[0] == 'call' and cinfo(base[1])['name'] in ('iter', 'into_iter') and 'VClock' in (cinfo(base[1])['self'] or '')):
                return True
    return False


def _nonzero_proof(facts, body, it, bb, v):
    vv = versionless(v)
    if vv[0] == 'const' and isinstance(vv[1], int) and not isinstance(vv[1], bool) and vv[1] > 0:
        return 'a non-zero constant'
    if vv[0] == 'binop' and vv[1] == 'Add' and any(a[0] == 'const' and isinstance(a[1], int) and a[1] >= 1 for a in (vv[2], vv[3])):
        return 'a successor (x + 1)'
    if _stored_counter(vv):
        return 'a counter already stored in a clock'

    def atom(t):
        if versionless(t) == vv:
            return 'v'
        return None

    def classify(a, b, t):
        for x, y, orient in ((a, b, 'fwd'), (b, a, 'rev')):
            if versionless(x) == vv and versionless(y)[0] != 'const':
                return ('z', orient)
        return None
    dropped = True
    for z in (LT, EQ):   # v == 0  implies  v <= e for every u64 e
        rc = Reach(facts, body, Evaluator(facts, classify=classify, bool_atom=atom, assumption={'v': 0, 'z': z}))
        if bb in rc.reachable:
            # in-place rewrite inside `retain`: a zero may be written if the same iteration then drops the entry
            from .loops import loop_of_block
            lp = loop_of_block(it, bb)
            rem = [b2 for b2, c2 in it.calls.items() if lp is not None and b2 in lp.blocks and c2.cid.startswith('verif::collected')
                   and call_name(c2.term) == 'remove'] if lp is not None else []
            # (on the paths that start at the store the element holds exactly the stored value: a later test of the element, whose
            # term merges the stored value with the untouched one, is a test of the stored value there)
            def atom_after(t):
                tv = versionless(t)
                if tv == vv or (tv[0] == 'phi' and vv in tv[1]):
                    return 'v'
                return None
            rc_after = Reach(facts, body, Evaluator(facts, classify=classify, bool_atom=atom_after, assumption={'v': 0, 'z': z}))
            if not rem or not rc_after.must_pass(rem, start=bb, stops=(lp.head,)):
                return None
        else:
            dropped = False
    if dropped:
        return 'a zero is written only to an entry that the same retain step removes'
    return 'guarded: the store is unreachable when the value is 0'


@rule('VC-NOZERO', {
    'C10': 'No API call stores a zero counter: every counter written into a dots map is provably non-zero at the store',
    'C20': 'an explicit zero entry is residue: two clocks holding the same knowledge stop being equal, and a remove context built from such a clock is parked forever',
}, floor=3)
def vc_nozero(ctx):
    """Every store of a counter into a VClock's `dots` map anywhere in the crate (insert, Entry API, write through an
    element reference, collected pairs) writes a value that is non-zero there: a constant, a successor, a counter taken
    from a clock, or a value whose store is unreachable when it is 0 (dataflow over the guards)."""
    facts = ctx.facts
    from .loops import coll_local
    n_sites = 0
    for b0 in facts.bodies:
        if b0.derived:
            continue
        b = facts._v(b0) if b0.kind != 'Closure' else facts.cb(b0.uid)
        if b is None:
            continue
        it = interp(facts, b)
        # local maps that become the dots of a clock
        ldots = set()
        for blk in b.blocks:
            if blk['cleanup']:
                continue
            for st in blk['stmts']:
                if st['k'] == 'assign' and st['rv']['k'] == 'agg' and st['rv'].get('path') == VCLOCK:
                    for op in st['rv'].get('ops', []):
                        if op['k'] in ('copy', 'move') and not op['place']['proj']:
                            ldots |= _local_chain(b, op['place']['local'])
        bulk = []
        for w in it.writes.values():
            if w.kind == 'assign' and _is_dots_loc(w.loc) and w.loc[0][0] != 'L':
                nm = coll_local(w.val)
                if nm:
                    ldots.add(int(nm[1:]))
                bulk.append(w)
        for t_ in subterms(it.ret) if it.ret is not None else []:
            pass

        def is_dots_map(a):
            if a.loc is None:
                return False
            if _is_dots_loc(a.loc):
                return True
            return a.loc[0][0] == 'L' and not a.loc[1] and a.loc[0][1] in ldots
        sites = []
        shapes = []
        for bb, c in sorted(it.calls.items()):
            n = call_name(c.term)
            if not c.args:
                continue
            a0 = c.args[0]
            if n == 'insert' and len(c.args) == 3 and is_dots_map(a0):
                sites.append((bb, c.args[2].val, c.line))
            elif n == 'insert' and len(c.args) == 2 and c.cid.startswith('verif::collected') and is_dots_map(a0):
                item = drop_lv(c.args[1].val)
                if item[0] == 'tuple' and len(item[1]) == 2:
                    sites.append((bb, item[1][1], c.line))
                else:
                    sites.append((bb, ('field', item, '1'), c.line))
            elif n in ('insert', 'or_insert', 'insert_entry') and len(c.args) == 2:
                e = versionless(a0.val)
                if e[0] == 'field' and e[2] in ('Occupied.0', 'Vacant.0'):
                    e = e[1]
                if is_call(e, 'entry') and len(e[2]) == 2:
                    m = e[2][0]
                    if (m[0] == 'field' and m[2] == 'dots') or (param_path(m) and param_path(m)[1][-1:] == ('dots',)):
                        sites.append((bb, c.args[1].val, c.line))
            elif n in ('or_insert_with', 'and_modify', 'or_insert_with_key', 'extend', 'append') and (is_dots_map(a0) or (
                    is_call(versionless(a0.val), 'entry') and versionless(a0.val)[2] and versionless(versionless(a0.val)[2][0])[0] == 'field'
                    and versionless(versionless(a0.val)[2][0])[2] == 'dots')):
                shapes.append((c.line, '%s on a dots map is not modelled' % n))
            elif n in ('retain', 'retain_mut', 'for_each', 'iter_mut', 'values_mut') and is_dots_map(a0) and n in ('retain', 'retain_mut'):
                for clo, m_ in closure_bindings(c.term):
                    cb = facts.cb(clo[1])
                    if cb is not None and any(w.loc[0] == ('P', 3) for w in list(interp(facts, cb).writes.values())):
                        shapes.append((c.line, 'the retain closure rewrites the stored counter (decided on the loop view)'))
        for (bb, si), w in sorted(it.writes.items(), key=lambda kv: str(kv[0])):
            tgt = loc_target(it, w.loc)
            if tgt and tgt[2] == 'ew' and tuple(tgt[1])[-1:] == ('dots',) and not tgt[3]:
                sites.append((bb, w.val, w.line))
        for w in bulk:
            v = drop_lv(w.val)
            if is_call(v, 'collect') and iter_source(v[2][0])[2]:
                shapes.append((w.line, 'dots assigned from an adaptor chain with closures (decided on the loop view)'))
        # aggregate built from a collect chain with closures
        for t_ in [x for x in subterms(drop_lv(it.ret)) if x[0] == 'agg' and x[1] == VCLOCK] if it.ret is not None else []:
            dv = dict(t_[3]).get('dots')
            if dv is not None and is_call(drop_lv(dv), 'collect') and drop_lv(dv)[2] and iter_source(drop_lv(dv)[2][0])[2]:
                shapes.append((b.line, 'VClock built from an adaptor chain with closures (decided on the loop view)'))
        if not sites and not shapes:
            continue
        fk = b0.key if b0.kind != 'Closure' else b0.key
        inst = fk.replace('crdts::', '')
        ctx.analysed.add(b0.key)
        for line, msg in shapes:
            ctx.shape(inst, b, msg, line=line, fnkey=fk)
        proofs, bad = [], None
        for bb, v, line in sites:
            n_sites += 1
            pr = _nonzero_proof(facts, b, it, bb, v)
            if pr is None:
                bad = (line, v)
            else:
                proofs.append('line %d: %s' % (line, pr))
        if bad:
            ctx.fail(inst, b, 'the counter stored at line %d (%s) is not provably non-zero: a zero counter can be stored in a clock' % (bad[0], fmt(bad[1], 4)),
                     line=bad[0], fnkey=fk, details={'proofs': proofs})
        elif sites:
            ctx.ok(inst, b, 'every counter stored into dots is non-zero (%d store site(s))' % len(sites), line=sites[0][2], fnkey=fk, details={'proofs': proofs})
