"""Abstract positions in the walk over an ordered container field (`self.seq`, `self.list`).

An `Option<&element>`-valued term is evaluated to the position it denotes, read off the iterator algebra rather than the text:

    walk.next()                    first          walk.nth(n)                     n-th
    walk.skip(n).next()            n-th           second next() on one iterator   successor
    walk.next_back() / last()      last           collect::<Vec>(walk).get(n)     n-th
    range(..x).next_back()         pos(x) - 1     range((Excluded(x), ..)).next() pos(x) + 1
    walk.zip(walk.skip(1)).nth(n)  (n, n+1)       walk.enumerate().find(i == n)   n-th

Index expressions normalise to (symbol, offset) through checked_sub / - / + ; the symbol 'I' stands for the requested index.
Three *worlds* make the conditional spellings comparable: zero (I == 0), mid (0 < I < len), end (I == len > 0).  In a world a
position has a canonical form (NONE / absolute k / I+o / last-k) and an Option's discriminant a truth value, which is what the
path exploration (`Reach`) uses as atoms.  Anything not understood evaluates to None and the caller fails closed."""
from ..terms import drop_lv
from .common import *

NONE = ('none',)
LAST = ('last', 0)
WORLDS = ('empty', 'zero', 'mid', 'end')     # I == 0 == len ; I == 0 < len ; 0 < I < len ; I == len > 0


def _strip(t):
    """Through copies, `Some(x)`, `.Some.0`, `x?`, as_ref - everything that keeps the denoted element."""
    for _ in range(12):
        t0 = t
        t = drop_lv(t)
        if t[0] == 'call' and call_name(t) in ('clone', 'cloned', 'copied', 'to_owned', 'as_ref', 'as_deref') and len(t[2]) == 1 and not cinfo(t[1])['local']:
            t = t[2][0]
        elif t[0] == 'agg' and t[1].endswith('option::Option') and t[2] == 'Some' and t[3]:
            t = t[3][0][1]
        elif t[0] == 'field' and t[2] == 'Some.0':
            t = t[1]
        elif t[0] == 'field' and t[2] == 'Continue.0' and is_call(t[1], 'branch') and len(t[1][2]) == 1:
            t = t[1][2][0]
        if t == t0:
            break
    return t


class PosAlg:
    def __init__(self, facts, field, is_index, world=None, get_fn=None):
        self.facts, self.field, self.is_index, self.world, self.get_fn = facts, field, is_index, world, get_fn

    # ---------------------------------------------------------------- index expressions
    def idx(self, t):
        """-> (sym, off) with sym in {'I', None (a constant), <other term>} ; 'NONE' when the Option index is None in this world;
        None when not understood."""
        t = drop_lv(t)
        if t[0] == 'cast':
            return self.idx(t[2])
        if self.is_index(t):
            return ('I', 0)
        if t[0] == 'const' and isinstance(t[1], int) and not isinstance(t[1], bool):
            return (None, t[1])
        if t[0] == 'field' and t[2] == 'Some.0':
            return self.idx(t[1])
        if t[0] == 'agg' and t[1].endswith('option::Option') and t[2] == 'Some' and t[3]:
            return self.idx(t[3][0][1])
        if is_call(t, ('checked_sub', 'checked_add')) and len(t[2]) == 2:
            a, k = self.idx(t[2][0]), self.idx(t[2][1])
            if not a or not k or a == 'NONE' or k == 'NONE' or k[0] is not None:
                return None
            o = a[1] - k[1] if call_name(t) == 'checked_sub' else a[1] + k[1]
            if a[0] == 'I' and self.world in ('zero', 'empty') and o < 0:
                return 'NONE'
            return (a[0], o)
        if t[0] == 'binop' and t[1] in ('Sub', 'Add'):
            a, k = self.idx(t[2]), self.idx(t[3])
            if not a or not k or a == 'NONE' or k == 'NONE':
                return None
            if k[0] is None:
                o = a[1] - k[1] if t[1] == 'Sub' else a[1] + k[1]
                if a[0] == 'I' and self.world in ('zero', 'empty') and o < 0:
                    return None        # `ix - 1` at index 0 underflows (a panic in debug builds): not a position
                return (a[0], o)
            if t[1] == 'Add' and a[0] is None:
                return (k[0], k[1] + a[1])
            return None
        return None

    # ---------------------------------------------------------------- iterator states
    def istate(self, s):
        """-> dict(front, back, rev, enum, pair) ; front/back are positions (('pos', sym, off) | LAST | NONE)."""
        while s[0] in ('lv', 'at'):
            s = s[3] if s[0] == 'lv' else s[2]
        if s[0] == 'post' and s[2] == 0 and s[1][0] == 'call':
            n = call_name(s[1])
            st = self.istate(s[1][2][0]) if s[1][2] else None
            if st is None:
                return None
            if n == 'next':
                return self._advance(st, (None, 1))
            if n == 'nth' and len(s[1][2]) == 2:
                k = self.idx(s[1][2][1])
                return self._advance(st, (k[0], k[1] + 1)) if k and k != 'NONE' else None
            if n in ('next_back',):
                return None
            return None
        s = drop_lv(s)
        if s[0] != 'call' or not s[2]:
            return None
        n = call_name(s)
        if n in ('keys', 'iter', 'values', 'into_iter', 'iter_mut', 'into_keys', 'into_values') and len(s[2]) == 1:
            if param_path(s[2][0]) == (1, (self.field,)):
                return {'front': ('pos', None, 0), 'back': LAST, 'rev': False, 'enum': False, 'pair': None}
            inner = self.istate(s[2][0])      # `.into_iter()` on an iterator is the iterator
            return inner
        if n in ('copied', 'cloned', 'peekable', 'fuse', 'by_ref') and len(s[2]) == 1:
            return self.istate(s[2][0])
        if n == 'skip' and len(s[2]) == 2:
            st, k = self.istate(s[2][0]), self.idx(s[2][1])
            return self._advance(st, k) if st and k and k != 'NONE' else None
        if n == 'rev' and len(s[2]) == 1:
            st = self.istate(s[2][0])
            return dict(st, rev=not st['rev']) if st else None
        if n == 'enumerate' and len(s[2]) == 1:
            st = self.istate(s[2][0])
            return dict(st, enum=True) if st and not st['enum'] and st['front'] == ('pos', None, 0) else None
        if n == 'zip' and len(s[2]) == 2:
            a, b = self.istate(s[2][0]), self.istate(s[2][1])
            if a and b and not a['rev'] and not b['rev'] and not a['pair'] and not b['pair']:
                return {'front': a['front'], 'back': None, 'rev': False, 'enum': False, 'pair': b['front']}
            return None
        if n == 'range' and len(s[2]) == 2 and param_path(s[2][0]) == (1, (self.field,)):
            return self._range(drop_lv(s[2][1]))
        return None

    def _advance(self, st, k):
        if st is None or k is None or st['rev']:
            return None
        f = self._add(st['front'], k)
        p = self._add(st['pair'], k) if st['pair'] else None
        if f is None or (st['pair'] and p is None):
            return None
        return dict(st, front=f, pair=p)

    @staticmethod
    def _add(p, k):
        if p is None or p == NONE or p[0] != 'pos':
            return None
        if k[0] is None:
            return ('pos', p[1], p[2] + k[1])
        if p[1] is None:
            return ('pos', k[0], p[2] + k[1])
        return None

    def _range(self, r):
        def bnd(x, low):
            x = drop_lv(x)
            if x[0] == 'agg' and x[1].endswith('ops::Bound'):
                if x[2] == 'Unbounded':
                    return ('pos', None, 0) if low else LAST
                p = self.apos(x[3][0][1]) if x[3] else None
                if p is None or p == NONE or p[0] != 'pos':
                    return None
                d = {('Excluded', True): 1, ('Included', True): 0, ('Excluded', False): -1, ('Included', False): 0}[(x[2], low)]
                return ('pos', p[1], p[2] + d)
            return None
        if r[0] == 'tuple' and len(r[1]) == 2:
            lo, hi = bnd(r[1][0], True), bnd(r[1][1], False)
        elif r[0] == 'agg' and r[1].endswith('RangeTo') and r[3]:
            p = self.apos(dict(r[3]).get('end'))
            lo, hi = ('pos', None, 0), (('pos', p[1], p[2] - 1) if p and p != NONE and p[0] == 'pos' else None)
        elif r[0] == 'agg' and r[1].endswith('RangeFrom') and r[3]:
            p = self.apos(dict(r[3]).get('start'))
            lo, hi = (p if p and p != NONE and p[0] == 'pos' else None), LAST
        elif r[0] == 'agg' and r[1].endswith('RangeToInclusive') and r[3]:
            p = self.apos(dict(r[3]).get('end'))
            lo, hi = ('pos', None, 0), (p if p and p != NONE and p[0] == 'pos' else None)
        else:
            return None
        if lo is None or hi is None:
            return None
        return {'front': lo, 'back': hi, 'rev': False, 'enum': False, 'pair': None}

    # ---------------------------------------------------------------- positions
    def apos(self, t):
        if t is None:
            return None
        t = _strip(inline_option_maps(self.facts, t))
        if t[0] == 'agg' and t[1].endswith('option::Option') and t[2] == 'None':
            return NONE
        if t[0] == 'field' and t[2] in ('0', '1'):
            inner = self.apos(t[1])
            if inner is None or inner == NONE:
                return inner
            if inner[0] == 'pair':
                return inner[1] if t[2] == '0' else inner[2]
            if inner[0] == 'enum':
                return inner[1] if t[2] == '1' else None
            return inner if t[2] == '0' else None      # (key, value) of a map walk: the key is the element's identity
        if t[0] != 'call':
            return None
        n = call_name(t)
        if self.get_fn is not None and self.get_fn(t):       # a verified accessor of the type: get(i) is the i-th
            k = self.idx(t[2][1])
            return NONE if k == 'NONE' else (('pos', k[0], k[1]) if k else None)
        if n in ('next', 'next_back', 'last', 'nth', 'find', 'rfind', 'min', 'max') and t[2]:
            st = self.istate(t[2][0])
            if st is None:
                return None
            if n == 'find' and st['enum'] and len(t[2]) == 2 and t[2][1][0] == 'closure':
                k = self._enum_pred(t[2][1])
                return ('enum', ('pos', k[0], k[1])) if k else None
            if n in ('find', 'rfind', 'min', 'max'):
                return None          # a search with a predicate is judged by the caller
            if st['enum']:
                return None
            from_back = (n in ('next_back', 'last')) != st['rev']
            if n == 'nth' and len(t[2]) == 2:
                k = self.idx(t[2][1])
                if k == 'NONE':
                    return NONE
                if not k or st['rev']:
                    return None
                f = self._add(st['front'], k)
                if st['pair']:
                    p = self._add(st['pair'], k)
                    return ('pair', f, p) if f and p else None
                return f
            if st['pair']:
                return ('pair', st['front'], st['pair']) if not from_back else None
            return st['back'] if from_back else st['front']
        if n in ('get', 'index') and len(t[2]) == 2:
            v = drop_lv(t[2][0])
            if v[0] == 'call' and call_name(v) in ('collect', 'from_iter') and v[2]:
                st = self.istate(v[2][-1])
                k = self.idx(t[2][1])
                if k == 'NONE':
                    return NONE
                if st and k and not st['rev'] and not st['enum'] and not st['pair']:
                    return self._add(st['front'], k)
        return None

    def _enum_pred(self, clo):
        """`|(i, _)| *i == n` -> idx(n)"""
        cb = self.facts.cb(clo[1])
        if cb is None:
            return None
        m = {('upvar', k): v for k, v in enumerate(clo[2])}
        r = drop_lv(interp(self.facts, cb).ret)
        if r[0] == 'binop' and r[1] == 'Eq' or (r[0] == 'call' and call_name(r) == 'eq' and len(r[2]) == 2):
            a, b = (r[2], r[3]) if r[0] == 'binop' else (r[2][0], r[2][1])
            for x, y in ((a, b), (b, a)):
                vx = versionless(x)
                if vx[0] == 'field' and vx[2] == '0' and versionless(vx[1]) == ('param', 2):
                    k = self.idx(subst(y, m))
                    return k if k and k != 'NONE' else None
        return None

    # ---------------------------------------------------------------- worlds
    def canon(self, p):
        """Canonical form of a position in the current world."""
        w = self.world
        if p is None:
            return None
        if p == NONE or w == 'empty':
            return NONE if (p == NONE or p[0] in ('pos', 'last')) else None
        if p[0] == 'last':
            return ('last', 0)
        if p[0] != 'pos':
            return None
        sym, o = p[1], p[2]
        if sym is None:
            return ('abs', o) if o >= 0 else NONE
        if sym != 'I':
            return None
        if w == 'zero':
            return ('abs', o) if o >= 0 else NONE        # nothing lies below the first element
        if w == 'end':
            return NONE if o >= 0 else ('last', o + 1)
        return ('I', o)

    def is_some(self, p):
        """Truth of `is_some()` of a position in the current world (None = unknown)."""
        if p is not None and p[0] == 'pair':
            return None
        c = self.canon(p)
        if c is None:
            return None
        if c == NONE:
            return False
        w = self.world
        if w == 'zero' and c in (('abs', 0), ('last', 0)):
            return True
        if w == 'mid':
            if c[0] == 'I':
                return True if c[1] in (-1, 0) else None
            if c in (('abs', 0), ('last', 0)):
                return True
        if w == 'end' and c in (('last', 0), ('abs', 0)):
            return True
        return None


def index_atoms(alg, is_index):
    """bool_atom for Reach: comparisons of the index with 0 / 1, `checked_sub(I, 1)`, `match ix { 0 => .. }` and the
    discriminants of position-valued Options, decided per world."""
    positive = alg.world in ('mid', 'end')

    def atom(t):
        if is_index(t):
            return ('map', 'w', {True: 7 if positive else 0})
        if t[0] == 'discr':
            x = drop_lv(t[1])
            if is_call(x, 'checked_sub') and len(x[2]) == 2 and is_index(drop_lv(x[2][0])):
                k = alg.idx(x[2][1])
                if k and k != 'NONE' and k[0] is None and k[1] == 1:
                    return ('map', 'w', {True: 1 if positive else 0})
            p = alg.apos(t[1])
            if p is not None:
                if p[0] == 'pair':
                    a, b = alg.is_some(p[1]), alg.is_some(p[2])
                    v = False if (a is False or b is False) else (True if (a and b) else None)
                else:
                    v = alg.is_some(p[1] if p[0] == 'enum' else p)
                if v is not None:
                    return ('map', 'w', {True: 1 if v else 0})
        if t[0] == 'binop' and t[1] in ('Eq', 'Ne', 'Gt', 'Lt', 'Ge', 'Le'):
            a, b = drop_lv(t[2]), drop_lv(t[3])
            op = t[1]
            if is_index(b) and a[0] == 'const':
                a, b, op = b, a, {'Gt': 'Lt', 'Lt': 'Gt', 'Ge': 'Le', 'Le': 'Ge'}.get(op, op)
            if is_index(a) and b[0] == 'const' and b[1] in (0, 1) and not isinstance(b[1], bool):
                tab = {('Eq', 0): (False, True), ('Ne', 0): (True, False), ('Gt', 0): (True, False), ('Le', 0): (False, True),
                       ('Ge', 1): (True, False), ('Lt', 1): (False, True), ('Ge', 0): (True, True), ('Lt', 0): (False, False)}.get((op, b[1]))
                if tab:
                    return ('map', 'w', {True: tab[0] if positive else tab[1]})
        return None
    return atom
