"""A.5 — read contexts, derived contexts, op constructors, purity of reads."""
from ..core import rule
from ..terms import drop_lv
from .common import *
from .removes import roles
from ..ordset import Reach, Evaluator

WHOLE = {'read', 'read_ctx', 'len', 'is_empty'}
PER_ELEM_KEY = {'contains', 'get'}
PER_ELEM_ITER = {'iter', 'keys', 'values'}

READS = [(ORSWOT, n) for n in ('read', 'read_ctx', 'contains', 'iter')] + \
        [(MAP, n) for n in ('len', 'is_empty', 'read_ctx', 'get', 'keys', 'values', 'iter')]


def _readctx_alts(t):
    """ReadCtx aggregate alternatives of a return term (a single aggregate or a phi of aggregates)."""
    t = drop_lv(t)
    alts = phi_alts(t)
    if alts and all(a[0] == 'agg' and a[1] == READCTX for a in alts):
        return alts
    return None


def _readctx_of(facts, body):
    """(list of ReadCtx aggregate terms, mapping to the public fn's parameters, body holding them) for a read entry point:
    either the function returns the aggregate(s) or it returns map(iter(..), closure returning it)."""
    it = interp(facts, body)
    r = drop_lv(it.ret)
    alts = _readctx_alts(r)
    if alts:
        return alts, {}, body
    if is_call(r, 'map') and len(r[2]) == 2:
        for clo, m in closure_bindings(r):
            cb = facts.cb(clo[1])
            if cb is None:
                continue
            alts = _readctx_alts(interp(facts, cb).ret)
            if alts:
                return [subst(a, m) for a in alts], m, cb
    return None, None, None


def _is_empty_clock(t):
    t = drop_lv(t)
    if t == ('const', 'Default::default()', 'verif'):
        return True
    if t[0] == 'call' and call_name(t) in ('default', 'new') and (cinfo(t[1])['self'] or '').endswith('VClock'):
        return True
    if t[0] == 'call' and call_name(t) in ('default',) and not t[2]:
        return True
    return False


def _agg_sites(facts, body):
    """Statements that build a ReadCtx aggregate in `body`: list of (bb, {field: operand})."""
    out = []
    # only the aggregates that are (moved into) the return value: another read of self inlined into this one builds its own
    returned = {0}
    for _ in range(3):
        for blk in body.blocks:
            for s in blk['stmts']:
                if s['k'] == 'assign' and not s['place']['proj'] and s['place']['local'] in returned and s['rv']['k'] == 'use' \
                        and s['rv']['op'].get('k') in ('move', 'copy') and not s['rv']['op']['place']['proj']:
                    returned.add(s['rv']['op']['place']['local'])
    for bb, blk in enumerate(body.blocks):
        if blk['cleanup']:
            continue
        for s in blk['stmts']:
            if s['k'] == 'assign' and s['rv']['k'] == 'agg' and s['rv'].get('path') == READCTX and not s['place']['proj'] \
                    and s['place']['local'] in returned:
                out.append((bb, dict(zip(s['rv']['fields'], s['rv']['ops']))))
    return out


def _keyed_read(ctx, facts, adt, name, body, r, sub, props, inst):
    """contains(k) / get(k): decided path-sensitively.  For each way the looked-up element can be present or absent,
    the ReadCtx fields are traced back to the definitions that reach the aggregate on the surviving paths."""
    it = interp(facts, body)
    sites = _agg_sites(facts, body)
    if not sites:
        ctx.shape(inst, body, 'does not build a ReadCtx', props=props)
        return
    replica = ('field', ('param', 1), r['clock'])

    def lookup(t):
        t = drop_lv(t)
        return is_call(t, ('get', 'get_mut')) and len(t[2]) == 2 and param_path(t[2][0]) == (1, (r['entries'],)) and versionless(t[2][1]) == ('param', 2)

    def atom(t):
        if t[0] == 'discr' and lookup(t[1]):
            return ('map', 'has', {True: 1, False: 0})
        if is_call(t, 'is_some') and t[2] and lookup(t[2][0]):
            return 'has'
        if is_call(t, 'is_none') and t[2] and lookup(t[2][0]):
            return ('not', 'has')
        if is_call(t, ('contains_key', 'contains')) and len(t[2]) == 2 and param_path(t[2][0]) == (1, (r['entries'],)) and versionless(t[2][1]) == ('param', 2):
            return 'has'
        return None
    errs = []
    seen_elem = False
    for has in (True, False):
        evr = Evaluator(facts, bool_atom=atom, assumption={'has': has})
        rc = Reach(facts, body, evr)
        for bb, ops in sites:
            if bb not in rc.reachable:
                continue

            def terms_of(op):
                if op['k'] in ('copy', 'move') and not op['place']['proj']:
                    return rc.reaching_terms(op['place']['local'], bb)
                return {it.operand(it.in_states[bb].copy(), op)} if bb in it.in_states else {('top',)}
            def unwrapped(ts):
                """`opt.unwrap_or_default()` whose receiver is a `match` written out (None | Some(x) arms): the arms that
                survive the assumption decide — Some(x) gives x, None gives the default."""
                out = set()
                for t in ts:
                    t1 = drop_lv(t)
                    done_ = False
                    if is_call(t1, ('unwrap_or_default', 'unwrap_or', 'unwrap_or_else', 'unwrap', 'expect')) and t1[2] and drop_lv(t1[2][0])[0] in ('phi', 'agg'):
                        for b2, c2 in it.calls.items():
                            if drop_lv(c2.term) == t1 and b2 in rc.reachable:
                                alts = set()
                                for a_ in rc.arg_terms(b2, 0):
                                    alts |= set(phi_alts(drop_lv(a_)))
                                if alts and all(is_variant(a_, 'option::Option', 'Some') or is_variant(a_, 'option::Option', 'None') for a_ in alts):
                                    for a_ in alts:
                                        if is_variant(a_, 'option::Option', 'Some'):
                                            out.add(a_[3][0][1])
                                        elif call_name(t1) == 'unwrap_or_default':
                                            out.add(('const', 'Default::default()', 'verif'))
                                        else:
                                            out.add(t)
                                    done_ = True
                                break
                    if not done_:
                        out.add(t)
                return out
            for a in terms_of(ops['add_clock']):
                if drop_lv(a) != replica:
                    errs.append('add_clock is %s, expected the replica clock' % fmt(a, 5))
            for t in unwrapped(terms_of(ops['rm_clock'])):
                t = drop_lv(inline_option_maps(facts, t))
                ev = elem_value_of(t)
                is_elem = bool(ev and param_path(ev[0]) == (1, (r['entries'],)) and ev[2] == 'value' and tuple(ev[3]) == tuple(sub)
                               and versionless(ev[1]) == ('param', 2))
                if has:
                    if is_elem:
                        seen_elem = True
                    else:
                        errs.append('when the element is present rm_clock is %s, expected its witness clock entries[element]%s'
                                    % (fmt(t, 5), ''.join('.' + x for x in sub)))
                else:
                    defaulting = is_elem and is_call(t, ('unwrap_or_default', 'unwrap_or', 'unwrap_or_else'))
                    if not (_is_empty_clock(t) or defaulting):
                        errs.append('when the element is absent rm_clock is %s, expected the empty clock' % fmt(t, 5))
            for t in terms_of(ops['val']):
                t0 = drop_lv(inline_option_maps(facts, t))
                v = evr.ev(t0)
                if name == 'contains':
                    if v is None and t0[0] == 'const':
                        v = bool(t0[1])
                    if v is not has:
                        errs.append('val is %s when the element is %s' % (fmt(t0, 4), 'present' if has else 'absent'))
                else:
                    e = elem_value_of(t0)
                    is_val = bool(e and param_path(e[0]) == (1, (r['entries'],)) and versionless(e[1]) == ('param', 2) and tuple(e[3]) == ('val',))
                    if has and not is_val:
                        errs.append('val is %s, expected the nested value stored under the key' % fmt(t0, 4))
                    if not has and not (is_val or is_variant(t0, 'option::Option', 'None')):
                        errs.append('val is %s when the key is absent, expected None' % fmt(t0, 4))
    if not seen_elem and not errs:
        errs.append('rm_clock is never taken from the element witness clock')
    ctx.check(not errs, inst, body, 'add_clock = replica clock, rm_clock = element witness clock (empty when absent), val from the same lookup',
              errs[0] if errs else '', props=props)


@rule('CTX-READ', floor=11, **read_attribution({
    'C07': 'a context taken from the wrong clock either removes unseen data or misses seen data',
    'C04': 'the context returned for a member must be exactly its surviving add witnesses',
    'C05': 'the remove context of a key is its entry clock',
}, module=None))
def ctx_read(ctx):
    """Every read entry point: add_clock = replica clock; rm_clock = replica clock for whole-collection reads and
    the element's witness clock (empty when absent) for per-element reads; val from the same lookup."""
    facts = ctx.facts
    for adt, name in READS:
        r = roles(facts, adt)
        sub = () if adt == ORSWOT else ('clock',)
        inst = '%s::%s' % (adt.split('::')[-1], name)
        props = ['C07'] + (['C04'] if adt == ORSWOT else ['C05'])
        body = ctx.inherent(adt, name)
        if name in PER_ELEM_KEY:
            _keyed_read(ctx, facts, adt, name, body, r, sub, props, inst)
            continue
        aggs, m, where = _readctx_of(facts, body)
        if aggs is None:
            ctx.shape(inst, body, 'does not return a ReadCtx (directly or per item)', props=props)
            continue
        replica = ('field', ('param', 1), r['clock'])
        errs = []
        rr = drop_lv(interp(facts, body).ret)
        if is_call(rr, 'map') and rr[2] and set(iter_adaptors(rr[2][0])) & (LOSSY_ADAPTORS | {'filter_map'}):
            errs.append('the per-item read does not yield every entry (%s in the iterator chain)'
                        % sorted(set(iter_adaptors(rr[2][0])) & (LOSSY_ADAPTORS | {'filter_map'})))
        for agg in aggs:
            f = dict(agg[3])
            add, rmc, val = f.get('add_clock'), f.get('rm_clock'), f.get('val')
            rmc = inline_option_maps(facts, rmc)
            if drop_lv(add) != replica:
                errs.append('add_clock is %s, expected the replica clock' % fmt(add, 5))
            if name in WHOLE:
                if drop_lv(rmc) != replica:
                    errs.append('rm_clock of a whole-collection read is %s, expected the replica clock' % fmt(rmc, 5))
            else:
                ev = elem_value_of(rmc)
                if ev is None:
                    errs.append('rm_clock is %s, expected the witness clock of the element' % fmt(rmc, 5))
                else:
                    cont, key, part, s_ = ev
                    pc = param_path(cont)
                    if not (pc and pc[0] == 1 and pc[1] == (r['entries'],) and part == 'value' and tuple(s_) == tuple(sub)):
                        errs.append('rm_clock is %s, expected entries[element]%s' % (fmt(rmc, 5), ''.join('.' + x for x in sub)))
                    elif key != '*':
                        errs.append('per-item read does not range over the entries')
            vv = drop_lv(inline_option_maps(facts, val))
            if name == 'read':
                from .loops import collect_source
                raw = interp(facts, body).ret   # the un-peeled aggregate keeps the identity of a loop-filled local
                while raw[0] in ('lv', 'at'):
                    raw = raw[3] if raw[0] == 'lv' else raw[2]
                rawval = dict(raw[3]).get('val', val) if raw[0] == 'agg' and len(aggs) == 1 and where is body else val
                cs = collect_source(facts, body, interp(facts, body), inline_option_maps(facts, rawval))
                ok_v = cs is not None and whole_iteration_over(cs, 1, (r['entries'],)) and iter_source(cs)[1] == 'keys' and not iter_source(cs)[2]
                if not ok_v:
                    errs.append('val is %s, expected every key of entries' % fmt(vv, 4))
            elif name in ('len', 'is_empty'):
                if not (is_call(vv, name) and vv[2] and param_path(vv[2][0]) == (1, (r['entries'],))):
                    errs.append('val is %s, expected entries.%s()' % (fmt(vv, 4), name))
            elif name in PER_ELEM_ITER:
                e = elem_value_of(vv)
                want_part = {'keys': ('key', ()), 'values': ('value', ('val',))}.get(name)
                if adt == ORSWOT:
                    want_part = ('key', ())
                if want_part is not None:
                    if not (e and param_path(e[0]) == (1, (r['entries'],)) and e[2] == want_part[0] and tuple(e[3]) == want_part[1]):
                        errs.append('val of the item is %s, expected the entry %s' % (fmt(vv, 4), 'key' if want_part[0] == 'key' else 'value'))
        ctx.check(not errs, inst, where, 'add_clock = replica clock, rm_clock = %s' % ('replica clock' if name in WHOLE else 'element witness clock'),
                  errs[0] if errs else '', details={'ReadCtx': fmt(aggs[0], 6)}, props=props)


@rule('CTX-DERIVE', {
    'C07': 'a dot that is not get+1 collides with an earlier op; a remove context larger than what was read removes unseen data',
    'C04': '[primitive] Orswot::add / rm build their ops from these contexts (CTX-OPS): an add whose dot is not fresh is dropped by '
           'the gate, a remove context other than the read one removes unobserved adds or keeps observed ones',
    'C05': '[primitive] same for Map::update / rm',
    'C06': '[primitive] MVReg::write carries the derived clock (MV-WRITE): it replaces what the read returned only if that clock is '
           'the read clock plus the fresh dot',
}, floor=3)
def ctx_derive(ctx):
    """derive_add_ctx: dot = add_clock.inc(actor), clock = add_clock with that dot applied; derive_rm_ctx: clock = rm_clock; split copies both."""
    facts = ctx.facts
    body = ctx.inherent(READCTX, 'derive_add_ctx')
    r = normal(facts, interp(facts, body).ret)
    ok = False
    msg = 'derive_add_ctx returns %s' % fmt(r, 6)
    if r[0] == 'agg' and r[1].endswith('ctx::AddCtx'):
        f = dict(r[3])
        d, c = f.get('dot'), f.get('clock')
        base = ('field', ('param', 1), 'add_clock')
        nd = next_dot_of(facts, d)
        if nd == (base, ('param', 2)):
            c0 = drop_lv(c)
            if c0[0] == 'post' and is_call(c0[1], 'apply', self_adt='VClock') and drop_lv(c0[1][2][0]) == base and \
                    normal(facts, c0[1][2][1]) == normal(facts, d):
                ok = True
            else:
                msg = 'the returned clock is %s: it must be add_clock with the new dot applied' % fmt(c, 5)
        else:
            msg = 'the dot is %s: it must be the next dot of add_clock for the actor (add_clock.get(actor) + 1)' % fmt(d, 5)
    ctx.check(ok, 'derive_add_ctx', body, 'dot = add_clock.inc(actor); clock = add_clock ⊔ dot', msg)
    body = ctx.inherent(READCTX, 'derive_rm_ctx')
    r = drop_lv(interp(facts, body).ret)
    ok = r[0] == 'agg' and r[1].endswith('ctx::RmCtx') and drop_lv(dict(r[3]).get('clock', ('undef',))) == ('field', ('param', 1), 'rm_clock')
    ctx.check(ok, 'derive_rm_ctx', body, 'clock = rm_clock', 'derive_rm_ctx returns %s, expected RmCtx{clock: self.rm_clock}' % fmt(r, 5))
    body = ctx.inherent(READCTX, 'split')
    r = normal(facts, interp(facts, body).ret)
    ok = False
    if r[0] == 'tuple' and len(r[1]) == 2 and r[1][1][0] == 'agg':
        f = dict(r[1][1][3])
        ok = drop_lv(f.get('add_clock', ('undef',))) == ('field', ('param', 1), 'add_clock') and \
            drop_lv(f.get('rm_clock', ('undef',))) == ('field', ('param', 1), 'rm_clock') and drop_lv(r[1][0]) == ('field', ('param', 1), 'val')
    ctx.check(ok, 'split', body, 'both clocks copied unchanged', 'split does not copy add_clock/rm_clock unchanged: %s' % fmt(r, 5))


def _ctx_param(body, kind):
    for i in range(1, body.arg_count + 1):
        ty = body.locals[i]['ty']
        if ty.get('k') == 'adt' and ty['path'].endswith('ctx::' + kind):
            return i
    return None


def _always_carries(t, leaf, depth=0):
    """Every alternative value of t contains `leaf` (a value merged from several paths carries it only if each path's does)."""
    if depth > 40:
        return False
    if t == leaf:
        return True
    if t[0] == 'lv':
        return _always_carries(t[3], leaf, depth + 1)
    if t[0] == 'phi':
        return all(_always_carries(a, leaf, depth + 1) for a in t[1])
    kids = []
    if t[0] in ('field', 'discr', 'item', 'acc'):
        kids = [t[1]]
    elif t[0] == 'call':
        kids = list(t[2])
    elif t[0] == 'post':
        kids = [t[1]]
    elif t[0] in ('tuple', 'array'):
        kids = list(t[1])
    elif t[0] == 'agg':
        kids = [v for _, v in t[3]]
    elif t[0] == 'obj':
        kids = [t[1]] + [v for _, v in t[2]]
    elif t[0] in ('unop', 'cast'):
        kids = [t[2]]
    elif t[0] == 'binop':
        kids = [t[2], t[3]]
    elif t[0] == 'at':
        kids = [t[2]]
    elif t[0] == 'closure':
        kids = list(t[2])
    return any(_always_carries(k, leaf, depth + 1) for k in kids if isinstance(k, tuple))


@rule('CTX-OPS', {
    'C07': 'an op must carry exactly the dot / clock of the context it was built from',
    'C04': 'add uses the fresh dot, rm uses the observed remove context',
    'C05': 'update uses the fresh dot and hands the same context to the nested op; rm uses the key remove context',
}, floor=6)
def ctx_ops(ctx):
    """Op constructors copy ctx.dot / ctx.clock into the op and list exactly the requested elements."""
    facts = ctx.facts
    for name in ('add', 'add_all', 'rm', 'rm_all'):
        body = ctx.inherent(ORSWOT, name)
        r = interp(facts, body).ret
        while r[0] in ('lv', 'at'):
            r = r[3] if r[0] == 'lv' else r[2]
        want_variant = 'Add' if name.startswith('add') else 'Rm'
        kind, fld, opf = ('AddCtx', 'dot', 'dot') if want_variant == 'Add' else ('RmCtx', 'clock', 'clock')
        ci = _ctx_param(body, kind)
        ok = False
        if r[0] == 'agg' and r[2] == want_variant and ci:
            f = dict(r[3])
            src_ok = drop_lv(f.get(opf, ('undef',))) == ('field', ('param', ci), fld)
            mem = f.get('members', ('undef',))
            # the listed members are the argument, all of it: no filtering / truncating adaptor between the argument and the op
            mem_ok = _always_carries(mem, ('param', 2)) and not any(
                st[0] == 'call' and call_name(st) in (LOSSY_ADAPTORS | {'filter_map', 'retain', 'dedup', 'truncate', 'pop', 'remove'})
                for st in subterms(drop_lv(mem)))
            ok = src_ok and mem_ok
        ctx.check(ok, 'Orswot::' + name, body, '%s{%s: ctx.%s, members from the argument}' % (want_variant, opf, fld),
                  'Orswot::%s builds %s' % (name, fmt(r, 5)), props=['C07', 'C04'])
    body = ctx.inherent(MAP, 'update')
    r = drop_lv(interp(facts, body).ret)
    ci = _ctx_param(body, 'AddCtx')
    ok = False
    msg = 'Map::update builds %s' % fmt(r, 5)
    if r[0] == 'agg' and r[2] == 'Up' and ci:
        f = dict(r[3])
        dot_ok = drop_lv(f['dot']) == ('field', ('param', ci), 'dot')
        key_ok = _always_carries(f['key'], ('param', 2))
        alts = phi_alts(f['op'])
        op_ok = bool(alts)
        for a in alts:
            if not (is_call(a, ('call_once', 'call', 'call_mut')) and len(a[2]) == 2 and a[2][1][0] == 'tuple' and len(a[2][1][1]) == 2
                    and versionless(a[2][1][1][1]) == ('param', ci)):
                op_ok = False
                continue
            x = versionless(a[2][1][1][0])
            if is_call(x, 'default'):
                continue
            good = False
            for st in subterms(x):
                if is_call(st, 'get') and len(st[2]) == 2 and param_path(st[2][0]) and param_path(st[2][0])[0] == 1:
                    if any(s2 == ('param', 2) for s2 in subterms(versionless(st[2][1]))):
                        good = True
            if not good:
                op_ok = False
                msg = 'the nested op is computed from %s, not from the value stored under the key' % fmt(x, 4)
        ok = dot_ok and key_ok and op_ok
        if not dot_ok:
            msg = 'Up.dot is %s, expected ctx.dot' % fmt(f['dot'], 4)
    ctx.check(ok, 'Map::update', body, 'Up{dot: ctx.dot, key, op: f(entries[key].val | default, ctx)}', msg, props=['C07', 'C05'])
    body = ctx.inherent(MAP, 'rm')
    r = drop_lv(interp(facts, body).ret)
    ci = _ctx_param(body, 'RmCtx')
    ok = False
    if r[0] == 'agg' and r[2] == 'Rm' and ci:
        f = dict(r[3])
        ok = drop_lv(f['clock']) == ('field', ('param', ci), 'clock') and _always_carries(f['keyset'], ('param', 2))
    ctx.check(ok, 'Map::rm', body, 'Rm{clock: ctx.clock, keyset: {key}}', 'Map::rm builds %s' % fmt(r, 5), props=['C07', 'C05'])


INTERIOR = ('Cell<', 'RefCell<', 'Mutex<', 'RwLock<', 'Atomic', 'UnsafeCell<', 'OnceCell<', 'OnceLock<')
STATE_ADTS = [ORSWOT, MAP, 'crdts::map::Entry', MVREG, LIST, GLIST, MERKLE, VCLOCK, GCOUNTER, PNCOUNTER, GSET, LWWREG, MAXREG, MINREG]
PURE_FNS = READS + [(MVREG, 'read'), (MVREG, 'read_ctx'), (MVREG, 'write'),
                    (ORSWOT, 'add'), (ORSWOT, 'add_all'), (ORSWOT, 'rm'), (ORSWOT, 'rm_all'), (MAP, 'update'), (MAP, 'rm'),
                    (LIST, 'insert_index'), (LIST, 'append'), (LIST, 'delete_index'), (GCOUNTER, 'inc'), (GCOUNTER, 'inc_many'),
                    (PNCOUNTER, 'inc'), (PNCOUNTER, 'dec'), (PNCOUNTER, 'inc_many'), (PNCOUNTER, 'dec_many'), (MERKLE, 'write'),
                    (MERKLE, 'read'), (GLIST, 'insert'), (GLIST, 'insert_before'), (GLIST, 'insert_after')]


@rule('CTX-PURE', {
    'C07': 'reading or generating an op must not change the replica (the context describes what was observed)',
}, floor=30)
def ctx_pure(ctx):
    """Reads and op constructors take &self and write no replica state; no state type has interior mutability."""
    facts = ctx.facts
    for adt, name in PURE_FNS:
        body = facts.inherent_method(adt, name)
        if body is None:
            if (adt, name) in READS:
                ctx.shape('%s::%s' % (adt.split('::')[-1], name), None, 'read entry point not found')
            continue
        ctx.analysed.add(body.key)
        ty = body.locals[1]['ty'] if body.arg_count >= 1 else None
        shared = ty is not None and ty.get('k') == 'ref' and not ty['mut']
        effs = [e for e in effects(facts, body) if e.param == 1]
        for cb in facts.closures_of(body):
            effs += [e for e in effects(facts, cb) if isinstance(e.param, tuple) and 'self' in str(e.param)]
        ok = shared and not effs
        ctx.check(ok, '%s::%s' % (adt.split('::')[-1], name), body, '&self, no state write',
                  '%s::%s %s' % (adt, name, 'does not take &self' if not shared else 'writes replica state: %s' % sorted(set('.'.join(e.path) for e in effs))),
                  nontrivial=False)
    bad = []
    for p in STATE_ADTS:
        a = facts.adts.get(p)
        if not a:
            continue
        for v in a['variants']:
            for f in v['fields']:
                s = f['ty'].get('s', '')
                if any(x in s for x in INTERIOR):
                    bad.append('%s.%s: %s' % (p, f['name'], s))
    ctx.check(not bad, 'no-interior-mutability', facts.inherent_method(ORSWOT, 'read'), 'no Cell/RefCell/Mutex/Atomic in any state type',
              'state type with interior mutability: %s' % bad, nontrivial=False)


@rule('CTX-LINEAR', {
    'C07': 'an add context carries the actor\'s next unused dot: if it could be cloned, two ops would share one dot',
}, floor=2)
def ctx_linear(ctx):
    """AddCtx and ReadCtx are neither Clone nor Copy (type facts; the doc-test witnesses show the same from outside)."""
    facts = ctx.facts
    for adt in ('crdts::ctx::AddCtx', READCTX):
        bad = [i['trait'] for i in facts.impls if i['self_key'] == adt and i['trait'] and i['trait'].split('::')[-1] in ('Clone', 'Copy')]
        b = facts.inherent_method(READCTX, 'derive_add_ctx')
        ctx.check(not bad, adt.split('::')[-1], b, 'not Clone / Copy', '%s implements %s: a context (and its dot) can be spent twice' % (adt, bad),
                  nontrivial=False, fnkey=adt)


@rule('CTX-ENCAPS', {
    'C07': 'the replica clock and entries must only change through apply/merge/reset_remove, otherwise contexts stop describing what was applied',
}, floor=5)
def ctx_encaps(ctx):
    """State fields of Orswot, Map, MVReg, List and MerkleReg are not public."""
    facts = ctx.facts
    for adt in (ORSWOT, MAP, MVREG, LIST, MERKLE):
        a = ctx.adt(adt)
        pub = [f['name'] for f in a['variants'][0]['fields'] if f['vis'] == 'pub']
        b = facts.trait_impl_method(adt, 'CmRDT', 'apply')
        ctx.check(not pub, adt.split('::')[-1], b, 'state fields are crate-private', '%s exposes state field(s) %s publicly' % (adt, pub),
                  nontrivial=False, fnkey=adt)
