"""Canonical loop form: explicit `for` loops (as written, or produced from iterator adaptors by the 's' view).

Shared recognisers:
  * LoopCtx / loops_of        — natural loops driven by `next()` with their item term and iterator source
  * item_filter               — how a loop over a container decides, per item, whether the item stays:
                                 'keep' sites (insert into a fresh collection that is stored back) or
                                 'drop' sites (remove from the container itself)
  * keep_table                — may/must of "the item is kept" for each outcome of an assumption
  * flag_loops                — quantifier loops: a boolean local initialised before the loop and flipped inside it
"""
from ..interp import interp, cinfo
from ..terms import (versionless, drop_lv, is_call, call_name, param_path, elem_of, elem_value_of, as_item, iter_source,
                     iter_adaptors, LOSSY_ADAPTORS, subterms)
from ..ordset import Reach, Evaluator
from ..summaries import loc_target

KEEP_CALLS = {'insert', 'push', 'push_back', 'try_insert', 'or_insert', 'or_default', 'extend_one'}
DROP_CALLS = {'remove', 'remove_entry', 'swap_remove', 'pop'}


class LoopCtx:
    def __init__(self, it, head, blocks, start, src, sw=None):
        self.it, self.head, self.blocks, self.start, self.src, self.sw = it, head, blocks, start, src, sw
        self.item = ('field', ('call', None, (src,)), 'Some.0')

    def source(self):
        return iter_source(self.src)

    def whole_over(self, param, path=None):
        base, kind, clo = iter_source(self.src)
        pp = param_path(base)
        if pp is None or pp[0] != param:
            return False
        if path is not None and tuple(pp[1]) != tuple(path):
            return False
        return not (set(iter_adaptors(self.src)) & LOSSY_ADAPTORS)

    @property
    def raw_src(self):
        """The iterator term of the loop with loop-variant wrappers intact (identity of local collections)."""
        d = self.it.switches[self.sw].discr[1]
        return d[2][0] if d[0] == 'call' and d[2] else d

    def early_exits(self):
        """Blocks of the loop, other than its `next()` test, that can leave the loop (break / return / `?`)."""
        blocks = self.it.body.blocks

        def leaves(x):      # the `otherwise` arm of an exhaustive match is an `unreachable` block, not an exit
            return x not in self.blocks and blocks[x]['term']['k'] != 'unreachable'
        return sorted(b for b in self.blocks if b != self.sw and any(leaves(x) for x in self.it.succs.get(b, [])))

    def inner(self, rc):
        return rc._reach(self.start, {self.head})

    def may(self, rc, sites):
        inn = self.inner(rc)
        return any(s in inn for s in sites)

    def must(self, rc, sites):
        return bool(sites) and rc.must_pass(sites, start=self.start, stops=(self.head,))

    def always_entered(self, rc):
        return rc.must_pass([self.head])


def loops_of(it):
    out = []
    seen = set()
    for (u, h) in sorted(it.back_edges):
        if h in seen:
            continue
        loop = {h}
        stack = [x for (x, hh) in it.back_edges if hh == h]
        while stack:
            x = stack.pop()
            if x in loop:
                continue
            loop.add(x)
            stack.extend(it.preds.get(x, []))
        # the `next` switch of this loop: a switch in the loop on discr(next(src)) with a Some arm
        cand = None
        for x in sorted(loop):
            sw = it.switches.get(x)
            if sw and sw.discr[0] == 'discr':
                src = as_item(('field', sw.discr[1], 'Some.0'))
                if src is not None:
                    for val, tb in sw.targets:
                        if val == 1 and tb in loop:
                            # prefer the switch closest to the head
                            d = len(it.dom[x])
                            if cand is None or d < cand[0]:
                                cand = (d, tb, src, x)
        if cand:
            seen.add(h)
            out.append(LoopCtx(it, h, loop, cand[1], cand[2], cand[3]))
    return out


def loop_of_block(it, bb):
    best = None
    for lp in loops_of(it):
        if bb in lp.blocks and (best is None or len(lp.blocks) < len(best.blocks)):
            best = lp
    return best


def item_derived(t, loop):
    """t mentions the item of this loop."""
    src_v = versionless(loop.src)
    for st in subterms(versionless(t)):
        s = as_item(st)
        if s is not None and versionless(s) == src_v:
            return True
    return False


def item_filter(facts, it, loop, field_path):
    """('keep', sites, values) | ('drop', sites, None) | None for a loop over self.<field_path>."""
    keep, keepvals, drop = [], [], []
    for bb in sorted(loop.blocks):
        c = it.calls.get(bb)
        if c is None or not c.args:
            continue
        n = call_name(c.term)
        a0 = c.args[0]
        pp = param_path(a0.val)
        if n in DROP_CALLS and pp and pp[0] == 1 and tuple(pp[1]) == tuple(field_path) and any(item_derived(a.val, loop) for a in c.args[1:]):
            drop.append(bb)
        if n in KEEP_CALLS and pp and pp[0] == 1 and tuple(pp[1]) == tuple(field_path) and any(item_derived(a.val, loop) for a in c.args[1:]):
            # the field itself was emptied (taken / swapped out) before the loop and is refilled with the survivors
            if any(w.kind in ('take', 'replace') and loc_target(it, w.loc) and loc_target(it, w.loc)[:2] == (1, tuple(field_path))
                   and w.bb not in loop.blocks for w in it.muts.values()):
                keep.append(bb)
                keepvals.append([a.val for a in c.args[1:]])
        if n in KEEP_CALLS and a0.loc is not None and a0.loc[0][0] == 'L' and any(item_derived(a.val, loop) for a in c.args[1:]):
            # a fresh local collection: it must be stored into self.<field> after the loop
            coll = versionless(a0.val)
            stored = False
            for w in list(it.writes.values()):
                tgt = loc_target(it, w.loc)
                if tgt and tgt[0] == 1 and tuple(tgt[1]) == tuple(field_path) and tgt[2] == 'w' and versionless(w.val) == coll:
                    stored = True
            if not stored and not a0.loc[1] and ('L%d' % a0.loc[0][1]) in locals_into_field(it.facts, it.body, it, field_path):
                stored = True
            if not stored and not a0.loc[1]:
                # buffered in a local collection that is poured into the (previously emptied) field after the loop
                lname = 'L%d' % a0.loc[0][1]
                emptied = any(w.kind in ('take', 'replace') and loc_target(it, w.loc) and loc_target(it, w.loc)[:2] == (1, tuple(field_path))
                              for w in it.muts.values())
                for b3, c3 in it.calls.items():
                    if emptied and b3 not in loop.blocks and call_name(c3.term) in ('extend', 'append') and len(c3.args) == 2 \
                            and param_path(versionless(c3.args[0].val)) == (1, tuple(field_path)) and coll_local(c3.args[1].val) == lname \
                            and Reach(it.facts, it.body, Evaluator(it.facts)).must_pass([b3]):
                        stored = True
            if stored:
                keep.append(bb)
                keepvals.append([a.val for a in c.args[1:]])
    if keep:
        return ('keep', keep, keepvals)
    if drop:
        return ('drop', drop, None)
    return None


def keep_table(facts, body, loop, kind, sites, mk_eval, domain):
    """outcome -> (keep may, keep must) of one iteration."""
    out = {}
    hits = set()
    for o in domain:
        evr = mk_eval(o)
        rc = Reach(facts, body, evr)
        if kind == 'keep':
            out[o] = (loop.may(rc, sites), loop.must(rc, sites))
        else:
            dmay, dmust = loop.may(rc, sites), loop.must(rc, sites)
            out[o] = (not dmust, not dmay)
        hits |= set(evr.hits)
    return out, hits


def flag_loops(facts, body, it):
    """Quantifier loops: local F has a constant definition dominating the loop and the opposite constant assigned
    inside the loop; no other definitions.  Returns list of dict(flag, init, loop, flips=[bb..])."""
    out = []
    defs = {}
    for bi in it.rpo:
        for s in body.blocks[bi]['stmts']:
            if s['k'] == 'assign' and not s['place']['proj']:
                rv = s['rv']
                val = rv['op'].get('val') if rv['k'] == 'use' and rv['op']['k'] == 'const' else None
                defs.setdefault(s['place']['local'], []).append((bi, val))
        t = body.blocks[bi]['term']
        if t['k'] == 'call' and not t['dest']['proj']:
            defs.setdefault(t['dest']['local'], []).append((bi, None))
    for lp in loops_of(it):
        for local, ds in defs.items():
            if any(v not in (0, 1) for _, v in ds) or len(ds) < 2:
                continue
            inside = [(b, v) for b, v in ds if b in lp.blocks]
            outside = [(b, v) for b, v in ds if b not in lp.blocks]
            if not inside or not outside:
                continue
            init = [v for b, v in outside if b in it.dom[lp.head]]
            if len(set(init)) != 1:
                continue
            if any(v == init[0] for _, v in inside):
                continue
            # definitions outside the loop that do not dominate the head (e.g. drop flags cleared after) disqualify
            if any(b not in it.dom[lp.head] for b, v in outside):
                continue
            out.append({'flag': local, 'init': init[0], 'loop': lp, 'flips': [b for b, _ in inside]})
    return out


def _fwd(it, starts, stop):
    """Blocks reachable from `starts` over normal edges; blocks in `stop` are entered but not expanded."""
    seen, stack = set(), list(starts)
    while stack:
        x = stack.pop()
        if x in seen:
            continue
        seen.add(x)
        if x in stop:
            continue
        stack.extend(it.succs.get(x, []))
    return seen


def _bwd(it, start, stop):
    seen, stack = {start}, list(it.preds.get(start, []))
    while stack:
        x = stack.pop()
        if x in seen:
            continue
        seen.add(x)
        if x in stop:
            continue
        stack.extend(it.preds.get(x, []))
    return seen


def loop_quant_of_local(facts, body, it, local, use_bb):
    """A boolean local that says whether SOME iteration of one loop reached a given site, read at block use_bb after
    the loop.  Two spellings, both decided on the CFG alone:
      flag form    `let mut f = a; for x in S { .. if P(x) { f = b; [break] } .. }  .. f ..`
      return form  `for x in S { if P(x) { r = b; goto out } }  r = a;  out: .. r ..`   (an early `return b` of an inlined helper,
                   or of the function itself when use_bb is its return block)
    Every definition of the local is one of the two constants; those inside the loop all write b, the others a; no path
    from the loop to the use overwrites a b written in the loop, and nothing leaves the loop early before such a write.
    ->  dict(loop, sites, b, ..) with  value(local at use_bb) = b  iff  exists item of loop.src: its iteration reaches a site."""
    LOOPQ = facts.__dict__.setdefault('_loopq', {})
    key = (body.uid, getattr(facts, 'view', None), local, use_bb)
    if key in LOOPQ:
        return LOOPQ[key]
    LOOPQ[key] = None
    defs = []
    for bi in it.rpo:
        blk = body.blocks[bi]
        for s_ in blk['stmts']:
            if s_['k'] == 'assign':
                rv = s_['rv']
                if rv.get('k') in ('ref', 'rawptr') and rv.get('mut') and rv['place']['local'] == local:
                    return None
                if s_['place']['local'] == local:
                    if s_['place']['proj'] or rv['k'] != 'use' or rv['op']['k'] != 'const' or rv['op'].get('val') not in (0, 1):
                        return None
                    defs.append((bi, rv['op']['val']))
        t = blk['term']
        if t['k'] == 'call' and t['dest']['local'] == local:
            return None
    if local == 0 or local > body.arg_count:
        pass
    else:
        return None     # a parameter
    best = None
    for lp in loops_of(it):
        # the loop with its exit tails: blocks only an early exit leads to (`{ f = b; break }` is not part of the natural loop)
        ee = set(lp.early_exits())
        ext = set(lp.blocks) | set(x for x in it.rpo if x not in lp.blocks and (it.dom.get(x, set()) & ee))
        if use_bb in ext or lp.head not in it.dom.get(use_bb, ()):
            continue
        B = [(b, v) for b, v in defs if b in ext]
        A = [(b, v) for b, v in defs if b not in ext]
        if not A or not B or len(set(v for _, v in B)) != 1 or len(set(v for _, v in A)) != 1 or A[0][1] == B[0][1]:
            continue
        if best is None or len(lp.blocks) < len(best[0].blocks):
            best = (lp, A, B, ext)
    if best is None:
        return None
    lp, A, B, ext = best
    a_blocks, sites = set(b for b, _ in A), sorted(set(b for b, _ in B))
    exits = sorted(set(y for x in ext for y in it.succs.get(x, []) if y not in ext))
    # blocks on a first-arrival path from the loop's exits to the use that does not go round through the loop head again
    on_path = _fwd(it, exits, {lp.head, use_bb}) & _bwd(it, use_bb, {lp.head})
    if use_bb not in on_path:
        return None
    sw = it.switches[lp.sw]
    normal = [tb for val, tb in sw.targets if val == 0] or [sw.otherwise]
    normal = [x for x in normal if x not in ext]
    if all(b in it.dom[lp.head] for b in a_blocks):
        form = 'flag'
        if a_blocks & on_path:
            return None
    else:
        form = 'return'
        if any(b in it.dom[lp.head] for b in a_blocks) or not normal:
            return None
        # the normal exit always re-writes a before the use ...
        if use_bb in _fwd(it, [x for x in normal if x not in a_blocks], a_blocks | {lp.head}) - a_blocks or use_bb in a_blocks:
            return None
        # ... and a site leaves the loop for good, reaching the use without passing such a write
        for sb in sites:
            after = _fwd(it, it.succs.get(sb, []), {lp.head, use_bb})
            if lp.head in after or (after & a_blocks & on_path):
                return None
    # nothing else cuts the iteration short on the way to the use: an early exit that can reach the use comes after a site
    no_site = _fwd(it, [lp.start], set(sites) | {lp.head}) - set(sites) - {lp.head}
    for x in no_site:
        if x not in ext and use_bb in _fwd(it, [x], {lp.head, use_bb}):
            return None
    d = {'key': key, 'body': body, 'loop': lp, 'sites': sites, 'b': B[0][1], 'local': local, 'use_bb': use_bb, 'form': form}
    LOOPQ[key] = d
    return d


_WRAP = ('into_iter', 'iter', 'iter_mut', 'drain', 'deref', 'deref_mut', 'as_slice', 'as_mut_slice', 'copied', 'cloned',
         'as_ref', 'borrow', 'into_values', 'values', 'keys', 'into_keys')


def coll_local(raw):
    """Name ('L<n>') of the local collection an (un-versioned) iterator / collection term denotes, or None."""
    t = raw
    for _ in range(16):
        if t[0] == 'lv':
            init = t[3]
            if init[0] == 'call' and call_name(init) in _WRAP and init[2]:
                t = init[2][0]      # widened iterator state: look at what it iterates
                continue
            return t[2] if t[2].startswith('L') else None
        if t[0] == 'call' and call_name(t) in _WRAP and t[2]:
            t = t[2][0]
            continue
        if t[0] == 'at':
            t = t[2]
            continue
        if t[0] == 'post' and t[1][0] == 'call' and isinstance(t[2], int) and t[2] < len(t[1][2]):
            t = t[1][2][t[2]]       # the collection after a call that mutated it in place (`v.append(..)`, `v.sort()`)
            continue
        return None
    return None


def locals_into_field(facts, body, it, field_path):
    """Names of the local collections whose whole content ends up in self.<field_path> on every path: assigned to the field, or
    poured (`extend` / `append`) into the field or into another such local."""
    rc = Reach(facts, body, Evaluator(facts))
    sinks = set()
    for w in it.writes.values():
        tgt = loc_target(it, w.loc)
        if tgt and tgt[0] == 1 and tuple(tgt[1]) == tuple(field_path) and tgt[2] == 'w':
            nm = coll_local(w.val)
            if nm and rc.must_pass([w.bb]):
                sinks.add(nm)
    for _ in range(4):
        grew = False
        for bb, c in it.calls.items():
            if call_name(c.term) not in ('extend', 'append') or len(c.args) != 2:
                continue
            a0 = c.args[0]
            into = param_path(versionless(a0.val)) == (1, tuple(field_path)) or \
                (a0.loc is not None and a0.loc[0][0] == 'L' and not a0.loc[1] and ('L%d' % a0.loc[0][1]) in sinks)
            nm = coll_local(c.args[1].val)
            if into and nm and nm not in sinks and rc.must_pass([bb]):
                sinks.add(nm)
                grew = True
        if not grew:
            break
    return sinks


def local_side(it, lname, at_head, field):
    """The one parameter whose <field> items a local collection holds when the loop at `at_head` walks it: every insertion that
    can happen before that loop puts in (something made of) an item of a loop over <param>.<field>.  None when mixed/unknown."""
    root = ('L', int(lname[1:]))
    sides = set()
    lps = loops_of(it)
    for bb, c in it.calls.items():
        if not c.args or c.args[0].loc is None or c.args[0].loc[0] != root or c.args[0].loc[1]:
            continue
        n = call_name(c.term)
        if n not in KEEP_CALLS and n not in ('extend', 'append', 'extend_from_slice'):
            continue
        if at_head not in _fwd(it, [bb], set()):
            continue      # happens after the walk
        lp = None
        for l_ in lps:
            if bb in l_.blocks and (lp is None or len(l_.blocks) < len(lp.blocks)):
                lp = l_
        if n in KEEP_CALLS and lp is not None and any(item_derived(a.val, lp) for a in c.args[1:]):
            pp = param_path(lp.source()[0])
            if pp and tuple(pp[1][-1:]) == (field,):
                sides.add(pp[0])
                continue
        return None
    return next(iter(sides)) if len(sides) == 1 else None


class Fill:
    def __init__(self, loop, local, bb, vals):
        self.loop, self.local, self.bb, self.vals = loop, local, bb, vals


def fills_of(it):
    """Every insertion of a value into a local collection inside a loop (innermost loop of the site)."""
    out = []
    lps = loops_of(it)
    for bb, c in sorted(it.calls.items()):
        if call_name(c.term) not in KEEP_CALLS or not c.args:
            continue
        a0 = c.args[0]
        if a0.loc is None or a0.loc[0][0] != 'L' or a0.loc[1]:
            continue
        best = None
        for lp in lps:
            if bb in lp.blocks and (best is None or len(lp.blocks) < len(best.blocks)):
                best = lp
        if best is not None:
            out.append(Fill(best, 'L%d' % a0.loc[0][1], bb, [a.val for a in c.args[1:]]))
    return out


EMPTY_INITS = ('new', 'default', 'with_capacity', 'with_hasher', 'with_capacity_and_hasher')


def loop_collected(facts, body, it, t, conditional=False):
    """t is a local collection that starts empty and is filled by exactly one insertion in every iteration of one
    complete loop (no early exit, nothing else touches the collection): the (loop, inserted values) of that fill,
    i.e. the statement-level spelling of `loop.src.map(|item| values).collect()`; None otherwise."""
    while t[0] == 'at':
        t = t[2]
    if t[0] != 'lv' or not t[2].startswith('L'):
        return None
    head, local, init = t[1], t[2], drop_lv(t[3])
    if not (init[0] == 'call' and call_name(init) in EMPTY_INITS and not any(a[0] not in ('const',) for a in init[2])):
        return None
    root = ('L', int(local[1:]))
    fills = [f for f in fills_of(it) if f.local == local]
    if len(fills) != 1 or fills[0].loop.head != head or fills[0].loop.early_exits():
        return None
    f = fills[0]
    for (bb, ai), w in it.muts.items():
        if w.loc[0] == root and bb != f.bb:
            return None
    for w in it.writes.values():
        if w.loc[0] == root and not (w.val[0] == 'lv' or drop_lv(w.val) == init):
            return None
    if conditional:     # a filtered collect: the caller decides under which conditions the fill is reached
        return f.loop, f.vals, f.bb
    rc = Reach(facts, body, Evaluator(facts))
    if not f.loop.must(rc, [f.bb]):
        return None
    return f.loop, f.vals


def collect_source(facts, body, it, t):
    """The iterator whose items make up the collection t, when every item goes in unchanged (up to clone/copy):
    `src.collect()` as written, or a local filled by one insert of the item per iteration of a complete loop over src."""
    v = drop_lv(t)
    if is_call(v, 'collect') and v[2]:
        return v[2][0]
    if is_call(v, 'from_iter') and len(v[2]) == 1 and (cinfo(v[1])['trait'] or '').endswith('FromIterator') and not cinfo(v[1])['local']:
        return v[2][0]      # `C::from_iter(xs)` is `xs.into_iter().collect::<C>()`
    lc = loop_collected(facts, body, it, t)
    if lc is None or len(lc[1]) != 1:
        return None
    x = drop_lv(lc[1][0])
    while is_call(x, ('clone', 'cloned', 'copied', 'to_owned', 'deref')) and len(x[2]) == 1:
        x = drop_lv(x[2][0])
    src = as_item(versionless(x))
    if src is None or versionless(src) != versionless(lc[0].src):
        return None
    return lc[0].src


def peel(t):
    """Strip loop-variant / location wrappers at the root only (the inside keeps the identity of local collections)."""
    while t[0] in ('lv', 'at'):
        t = t[3] if t[0] == 'lv' else t[2]
    return t


def loop_of_item(it, t):
    """The loop whose item the term t is (t = next(src).Some.0), or None.  Two loops over different local collections
    can have the same version-less source, so the un-versioned iterator term decides when it is available."""
    t = peel(t)
    src = as_item(versionless(t))
    if src is None:
        return None
    cands = [lp for lp in loops_of(it) if versionless(lp.src) == versionless(src)]
    if len(cands) > 1 and t[0] == 'field' and t[2] == 'Some.0':
        nx = peel(t[1])
        if nx[0] == 'call' and nx[2]:
            exact = [lp for lp in cands if lp.raw_src == nx[2][0]]
            if exact:
                return exact[0]
            heads = [lp for lp in cands if nx[2][0][0] == 'lv' and nx[2][0][1] == lp.head]
            if heads:
                return heads[0]
    return cands[0] if cands else None


def adds_every(facts, body, it, dst, src_param, src_path):
    """Every element of <src_param>.<src_path> is added to self.<dst> on every path through the function:
    a single extend/append of the whole source, or a complete loop over it whose every iteration inserts the item
    (directly or through a helper whose effect is an insert into self.<dst>).
    Shortcuts for the trivial cases are fine: nothing at all when the source is empty, and taking the source over as it is
    (`self.dst = other.src`) when the destination is empty."""
    ok, site = _adds_every(facts, body, it, dst, src_param, src_path, Reach(facts, body, Evaluator(facts)))
    if ok:
        return ok, site
    from .common import emptiness_atom
    specs = {'src_empty': (src_param, tuple(src_path)), 'dst_empty': (1, tuple(dst))}
    empt = emptiness_atom(specs)

    def atom(t):
        # a set: inserting a member it already holds changes nothing (`if !self.value.contains(&m) { insert }`) - the insert is
        # asked for where the member is not there yet
        if is_call(t, 'contains') and len(t[2]) == 2 and param_path(versionless(t[2][0])) == (1, tuple(dst)):
            return 'has'
        return empt(t)
    ev = Evaluator(facts, bool_atom=atom, assumption={'src_empty': False, 'dst_empty': False, 'has': False})
    ok, site = _adds_every(facts, body, it, dst, src_param, src_path, Reach(facts, body, ev))
    if not ok or not ev.hits:
        return False, None
    # source empty: the paths that skip the adding must leave self untouched
    rcs = Reach(facts, body, Evaluator(facts, bool_atom=atom, assumption={'src_empty': True}))
    skipping = rcs._reach(0, {site})
    for (bb, _i), w in list(it.muts.items()) + list(it.writes.items()):
        tgt = loc_target(it, w.loc) if w.loc[0][0] in ('P', 'O') else None
        if bb in skipping and tgt is not None and tgt[0] == 1 and any(body.blocks[b]['term']['k'] == 'return' for b in rcs._reach(bb, {site})):
            return False, None
    # destination empty (source not): every path adds every element, or takes the whole source over
    rcd = Reach(facts, body, Evaluator(facts, bool_atom=atom, assumption={'src_empty': False, 'dst_empty': True, 'has': False}))
    takes = [w.bb for w in it.writes.values() if loc_target(it, w.loc) and loc_target(it, w.loc)[:3] == (1, tuple(dst), 'w')
             and param_path(versionless(w.val)) == (src_param, tuple(src_path))]
    if not rcd.must_pass([site] + takes):
        return False, None
    return True, site


def _walks_field(facts, body, param):
    """The field path a crate-local `impl IntoIterator for T` walks when a parameter of type T is iterated as a whole
    (`for x in other` with `fn into_iter(self) { self.value.into_iter() }`), or None."""
    ty = body.locals[param]['ty'] if param < len(body.locals) else {}
    while ty.get('k') == 'ref':
        ty = ty.get('ty') or {}
    if ty.get('k') != 'adt' or not str(ty.get('path', '')).startswith('crdts::'):
        return None
    for b in facts.bodies:
        if b.name == 'into_iter' and (b.impl_trait or '').endswith('IntoIterator') and b.impl_self == ty['path'] and not b.derived:
            r = interp(facts, b).ret
            base, kind, clo = iter_source(r)
            pp = param_path(base)
            if pp and pp[0] == 1 and not clo and not (set(iter_adaptors(r)) & LOSSY_ADAPTORS) and kind == 'items':
                return tuple(pp[1])
    return None


def _adds_every(facts, body, it, dst, src_param, src_path, rc):
    from ..summaries import call_effects
    whole_alias = _walks_field(facts, body, src_param) == tuple(src_path)
    for bb, c in sorted(it.calls.items()):
        if call_name(c.term) in ('extend', 'append') and len(c.args) == 2 and param_path(versionless(c.args[0].val)) == (1, tuple(dst)):
            src = c.args[1].val
            base, kind, clo = iter_source(src)
            if (param_path(base) == (src_param, tuple(src_path)) or (whole_alias and param_path(base) == (src_param, ()))) \
                    and not clo and not (set(iter_adaptors(src)) & LOSSY_ADAPTORS) and rc.must_pass([bb]):
                return True, bb
    for lp in loops_of(it):
        if not (lp.whole_over(src_param, tuple(src_path)) or (whole_alias and lp.whole_over(src_param, ()))) or lp.early_exits() or lp.source()[2]:
            continue
        sites = []
        for bb in sorted(lp.blocks):
            c = it.calls.get(bb)
            if c is None or not any(item_derived(a.val, lp) for a in c.args[1:]):
                continue
            for e in call_effects(facts, it, bb, must_only=True):
                if e.param == 1 and tuple(e.path) == tuple(dst) and e.kind == 'w' and e.how in KEEP_CALLS:
                    sites.append(bb)
        if sites and lp.must(rc, sites) and lp.always_entered(rc):
            return True, lp.head      # (the loop, as the place every path has to come through)
    return False, None


def accumulates(facts, body, t, init_ok, src_ok, step_ok):
    """t (a return value) is an accumulator local: initialised with a value accepted by init_ok, then updated once in
    every iteration of a complete loop (no early exit) over a source accepted by src_ok(loop), by a call accepted by
    step_ok(call record, loop), and touched by nothing else inside the loop."""
    if t[0] != 'lv' or not t[2].startswith('L'):
        return False
    head, local, init = t[1], t[2], drop_lv(t[3])
    if not init_ok(init):
        return False
    it = interp(facts, body)
    lp = [l for l in loops_of(it) if l.head == head]
    if not lp or lp[0].early_exits() or not src_ok(lp[0]):
        return False
    lp = lp[0]
    root = ('L', int(local[1:]))
    sites, other = [], []
    for (bb, ai), w in it.muts.items():
        if bb in lp.blocks and w.loc[0] == root:
            if ai == 0 and step_ok(it.calls[bb], lp):
                sites.append(bb)
            else:
                other.append(bb)
    for (bb, si), w in it.writes.items():
        if bb in lp.blocks and w.loc[0] == root and not (w.val[0] == 'lv' or versionless(w.val) == versionless(t)):
            other.append(bb)
    # `acc = acc + x` (a by-value operator whose result is stored back) is the same step as `acc += x`
    for bb, c in it.calls.items():
        if bb not in lp.blocks or bb in sites or len(c.args) != 2:
            continue
        a0 = c.args[0].val
        while a0[0] == 'at':
            a0 = a0[2]
        if a0[0] == 'lv' and a0[2] == local and step_ok(c, lp):
            stored = c.dest is not None and not c.dest.get('proj') and (
                c.dest['local'] == root[1] or any(l_ == root[1] and rv_ is not None and rv_.get('k') == 'use' and rv_['op'].get('k') in ('move', 'copy')
                                                  and not rv_['op']['place']['proj'] and rv_['op']['place']['local'] == c.dest['local']
                                                  for (b2, s2), (l_, v_, rv_) in it.assign_vals.items() if b2 in lp.blocks))
            if stored:
                sites.append(bb)
    if other or not sites:
        return False
    return lp.must(Reach(facts, body, Evaluator(facts)), sites)
