"""A.8 — List tagging, Identifier comparison table, MerkleReg routing / re-examination / merge / read / validate."""
from ..core import rule
from ..terms import drop_lv
from .common import *
from ..core import MissingAnchor
from .gates import _merkle_atoms


def strip_conv(t):
    t = drop_lv(t)
    while t[0] == 'call' and call_name(t) in ('into', 'from', 'clone') and len(t[2]) == 1:
        t = drop_lv(t[2][0])
    return t


def _is_fresh_dot(facts, t, clock=('field', ('param', 1), 'clock')):
    # the dot must be the *acting* actor's next dot: clock.get(actor)+1 with the actor a whole parameter of the op constructor
    nd = next_dot_of(facts, t)
    return nd is not None and nd[0] == clock and nd[1][0] == 'param' and nd[1][1] >= 2


@rule('LIST-TAG', {
    'C12': 'a stale or repeated dot gives two inserts one identifier (the second is silently dropped); the gate and the identifier must agree on the dot',
}, floor=3)
def list_tag(ctx):
    """insert_index / delete_index tag their op with self.clock.inc(actor); Op::dot() returns exactly that dot."""
    facts = ctx.facts
    body = ctx.inherent(LIST, 'insert_index')
    r = drop_lv(interp(facts, body).ret)
    ok = False
    msg = 'insert_index builds %s' % fmt(r, 4)
    if r[0] == 'agg' and r[2] == 'Insert':
        idt = dict(r[3]).get('id')
        if is_call(idt, 'between') and len(idt[2]) == 3:
            ok = _is_fresh_dot(facts, idt[2][2])
            msg = 'the identifier marker is %s, expected self.clock.inc(actor)' % fmt(strip_conv(idt[2][2]), 4)
    ctx.check(ok, 'insert_index', body, 'marker = self.clock.inc(actor)', msg)
    body = ctx.inherent(LIST, 'delete_index')
    r = drop_lv(inline_option_maps(facts, normal(facts, interp(facts, body).ret)))    # crate-local accessors (iter_entries, ..) expanded
    ok = False
    msg = 'delete_index builds %s' % fmt(r, 4)
    # every Delete op the function can return (through `map`, `?` or a match; the other alternatives are None)
    dels = [x for x in subterms(r) if x[0] == 'agg' and x[2] == 'Delete' and x[1].endswith('list::Op')]
    if dels:
        ok = True
    for x in dels:
        f = dict(x[3])
        # upvars of the closure were substituted by inline_option_maps
        dd = strip_conv(f['dot'])
        idt = versionless(f['id'])
        src_ok = any(param_path(st) == (1, ('seq',)) for st in subterms(idt))
        if not (_is_fresh_dot(facts, f['dot']) and src_ok):
            ok = False
            msg = 'Delete{id: %s, dot: %s}: expected an existing key of seq and self.clock.inc(<the acting actor>)' % (fmt(idt, 3), fmt(dd, 4))
    ctx.check(ok, 'delete_index', body, 'dot = self.clock.inc(actor), id = existing key', msg)
    body = facts.body('crdts::list::Op::dot')
    if body is None:
        ctx.shape('Op::dot', None, 'list::Op::dot not found')
        return
    ctx.analysed.add(body.key)
    it = interp(facts, body)
    vn = variants(facts, 'crdts::list::Op')
    res = {}
    for v in ('Insert', 'Delete'):
        rc = Reach(facts, body, Evaluator(facts, bool_atom=discr_atom_of_param(1), assumption={'variant': vn.index(v)}))
        vals = [strip_conv(w.val) for (bb, si), w in it.ret_assigns.items() if bb in rc.reachable]
        res[v] = vals
    def whole_or_rebuilt(t, pred):
        # the value itself (through conversions / clones), or a Dot rebuilt field by field from it: Dot::new(x.actor, x.counter),
        # Dot { actor: x.actor, counter: x.counter }
        if pred(strip_conv(t)):
            return True
        t2 = strip_conv(t)
        dp = None
        if is_call(t2, 'new', self_adt='Dot') and len(t2[2]) == 2:
            dp = (t2[2][0], t2[2][1])
        elif t2[0] == 'agg' and t2[1] in (DOT, 'crdts::dot::OrdDot'):
            f_ = dict(t2[3])
            dp = (f_.get('actor'), f_.get('counter')) if 'actor' in f_ and 'counter' in f_ else None
        if dp is not None:
            a, c_ = strip_conv(dp[0]), strip_conv(dp[1])
            return a[0] == 'field' and c_[0] == 'field' and a[2] == 'actor' and c_[2] == 'counter' and versionless(a[1]) == versionless(c_[1]) \
                and pred(strip_conv(a[1]))
        return False
    raw = {}
    for v in ('Insert', 'Delete'):
        rc = Reach(facts, body, Evaluator(facts, bool_atom=discr_atom_of_param(1), assumption={'variant': vn.index(v)}))
        raw[v] = [w.val for (bb, si), w in it.ret_assigns.items() if bb in rc.reachable]
    ins_ok = len(raw['Insert']) == 1 and whole_or_rebuilt(raw['Insert'][0], lambda x: is_call(x, 'value') and param_path(x[2][0]) == (1, ('Insert.id',)))
    del_ok = len(raw['Delete']) == 1 and whole_or_rebuilt(raw['Delete'][0], lambda x: param_path(x) == (1, ('Delete.dot',)))
    ctx.check(ins_ok and del_ok, 'Op::dot', body, 'Insert -> id marker, Delete -> dot',
              'Op::dot returns %s' % {k: [fmt(x, 3) for x in v] for k, v in res.items()})


def _id_cmp_zip_form(ctx, facts, body, it):
    """The other natural spelling of the lexicographic order: the first differing pair of the zipped paths decides, otherwise
    the lengths do (the longer path sorts BEFORE its prefix).  Returns True when this form was found and judged."""
    finds = []
    for st in subterms(drop_lv(it.ret)):
        if is_call(st, ('find', 'find_map')) and len(st[2]) == 2 and st[2][1][0] == 'closure':
            src = drop_lv(st[2][0])
            if is_call(src, 'map') and len(src[2]) == 2 and src[2][1][0] == 'closure' and is_call(drop_lv(src[2][0]), 'zip'):
                finds.append((st, src))
    if not finds:
        return False
    st, mp = finds[0]
    z = drop_lv(mp[2][0])
    errs = []

    def walk_side(x):
        base, kind, clo = iter_source(x)
        pp = param_path(base)
        return pp[0] if pp and pp[1] == ('0',) and not clo and not (set(iter_adaptors(x)) & (LOSSY_ADAPTORS | {'rev'})) else None
    sides = (walk_side(z[2][0]), walk_side(z[2][1])) if len(z[2]) == 2 else (None, None)
    if set(sides) != {1, 2}:
        errs.append('the zipped walks are not the whole paths of self and other')
    # the mapped value: cmp(first, second) of the pair
    mcb = facts.cb(mp[2][1][1])
    mr = drop_lv(interp(facts, mcb).ret)
    orient = None
    flipped = False
    while is_call(mr, 'reverse') and len(mr[2]) == 1:
        flipped = not flipped
        mr = drop_lv(mr[2][0])
    if is_call(mr, 'cmp') and len(mr[2]) == 2:
        a, b = versionless(mr[2][0]), versionless(mr[2][1])
        if a == ('field', ('param', 2), '0') and b == ('field', ('param', 2), '1'):
            orient = 'fwd'
        elif a == ('field', ('param', 2), '1') and b == ('field', ('param', 2), '0'):
            orient = 'rev'
    if orient is None:
        errs.append('the zipped pairs are not compared node with node')
    elif (sides == (2, 1)) != flipped:
        orient = 'rev' if orient == 'fwd' else 'fwd'
    # the search stops exactly at the first non-Equal comparison
    fcb = facts.cb(st[2][1][1])

    def atom(t):
        return None
    res = {}
    for o in TOTAL:
        ev_ = Evaluator(facts, bool_atom=lambda t, o=o: ('map', 'x', {True: ('ord', o)}) if versionless(t) in (('param', 2), ('unop', 'Deref', ('param', 2))) else None,
                        assumption={'x': True})
        v = ret_value(facts, fcb, ev_)
        res[o] = v
    if not (res[EQ] is False and res[LT] is True and res[GT] is True):
        errs.append('the search does not stop exactly at the first pair that differs (Eq->%s Lt->%s Gt->%s)' % (res[EQ], res[LT], res[GT]))
    # what is returned: the found ordering as it is (or reversed when the pairs are compared other-with-self), else the length rule
    r0 = drop_lv(it.ret)
    if is_call(r0, ('unwrap_or_else', 'unwrap_or')) and len(r0[2]) == 2 and drop_lv(r0[2][0]) == st:
        # `find(..).unwrap_or_else(|| tie)`: the found ordering as it is, else the tie-break
        tie = r0[2][1]
        if tie[0] == 'closure':
            tcb = facts.cb(tie[1])
            tie = subst(interp(facts, tcb).ret, {('upvar', k): v for k, v in enumerate(tie[2])}) if tcb is not None else tie
        alts = [('field', st, 'Some.0'), drop_lv(tie)]
    else:
        alts = [drop_lv(a) for a in phi_alts(r0)]
    found_alt = [a for a in alts if any(x is st or x == st for x in subterms(a))]
    tie_alt = [a for a in alts if a not in found_alt]
    for a in found_alt:
        rev = is_call(a, 'reverse')
        inner = drop_lv(a[2][0]) if rev else a
        if not (inner[0] == 'field' and inner[2] == 'Some.0'):
            errs.append('the first difference is not returned as found')
        elif (orient == 'fwd') == rev:
            errs.append('the first differing pair is returned with the wrong orientation')
    if len(tie_alt) != 1:
        errs.append('no single tie-break for prefix-related paths')
    else:
        t_ = tie_alt[0]
        rev = False
        while is_call(t_, 'reverse') and len(t_[2]) == 1:
            rev = not rev
            t_ = drop_lv(t_[2][0])
        ok_t = False
        if is_call(t_, 'cmp') and len(t_[2]) == 2:
            def len_side(x):
                x = drop_lv(x)
                if is_call(x, 'len') and len(x[2]) == 1:
                    pp = param_path(x[2][0])
                    return pp[0] if pp and pp[1] == ('0',) else None
                return None
            la, lb = len_side(t_[2][0]), len_side(t_[2][1])
            # the longer path sorts first: cmp(len(other), len(self)) or its reversed mirror
            ok_t = ((la, lb) == (2, 1) and not rev) or ((la, lb) == (1, 2) and rev)
        if not ok_t:
            errs.append('prefix-related paths are not ordered by reverse length (the longer path must sort before its prefix): %s' % fmt(tie_alt[0], 5))
    ctx.check(not errs, 'cmp', body, 'first differing pair of the zipped paths, else reverse length (lexicographic, antisymmetric prefix rule)',
              errs[0] if errs else '')
    return True


@rule('ID-CMP', {
    'C14': 'a non-antisymmetric table gives a<b and b<a for prefix-related identifiers; a wrong node orientation breaks totality',
    'C12': 'the global element order is the identifier order',
}, floor=1)
def id_cmp(ctx):
    """Identifier::cmp decision table over (self has node, other has node, node ordering)."""
    facts = ctx.facts
    body = ctx.method(IDENT, 'Ord', 'cmp')
    it = interp(facts, body)
    if _id_cmp_zip_form(ctx, facts, body, it):
        return

    def side_of(t):
        src = None
        if t[0] == 'discr':
            src = as_item(('field', t[1], 'Some.0'))
        if src is None:
            return None
        pp = param_path(iter_source(src)[0])
        return pp[0] if pp else None

    def zip_sides(src):
        """src walks `x.zip(y)` with x, y the whole paths of the two identifiers -> (side of x, side of y)"""
        z = versionless(src)
        while z[0] == 'call' and call_name(z) == 'into_iter' and z[2]:
            z = versionless(z[2][0])
        if not (is_call(z, 'zip') and len(z[2]) == 2):
            return None
        out = []
        for x in z[2]:
            base, kind, clo = iter_source(x)
            pp = param_path(base)
            if not (pp and pp[1] == ('0',) and not clo and not (set(iter_adaptors(x)) & (LOSSY_ADAPTORS | {'rev'}))):
                return None
            out.append(pp[0])
        return tuple(out) if set(out) == {1, 2} else None

    def atom(t):
        s = side_of(t)
        if s == 1:
            return 'a'
        if s == 2:
            return 'b'
        if t[0] == 'discr':
            src = as_item(('field', t[1], 'Some.0'))
            if src is not None and zip_sides(src):
                # the zipped walk yields a pair exactly while both paths have a node
                return ('map', 'ab', {(1, 1): 1, (1, 0): 0, (0, 1): 0, (0, 0): 0})
        return None

    def len_side(x):
        x = drop_lv(x)
        if is_call(x, 'len') and len(x[2]) == 1:
            pp = param_path(x[2][0])
            return pp[0] if pp and pp[1] == ('0',) else None
        return None

    def classify(a, b, t):
        la, lb = len_side(a), len_side(b)
        if la and lb and {la, lb} == {1, 2}:
            return ('len', 'fwd' if la == 1 else 'rev')      # ord(len(self path), len(other path)): known once a walk has ended
        va, vb = versionless(a), versionless(b)
        if va[0] == 'field' and vb[0] == 'field' and va[1] == vb[1] and {va[2], vb[2]} == {'0', '1'}:
            src = as_item(va[1])
            zs = zip_sides(src) if src is not None else None
            if zs:
                first = zs[0] if va[2] == '0' else zs[1]
                return ('node', 'fwd' if first == 1 else 'rev')
        sa, sb = as_item(a), as_item(b)
        if sa is None or sb is None:
            return None
        pa, pb = param_path(iter_source(sa)[0]), param_path(iter_source(sb)[0])
        if pa and pb and {pa[0], pb[0]} == {1, 2}:
            return ('node', 'fwd' if pa[0] == 1 else 'rev')
        return None
    heads = sorted(set(h for (_, h) in it.back_edges))
    table = {}
    for a in (0, 1):
        for b in (0, 1):
            for o in (TOTAL if (a, b) == (1, 1) else (EQ,)):
                asm = {'a': a, 'b': b, 'node': o, 'ab': (a, b)}
                if (a, b) != (1, 1):
                    asm['len'] = {(0, 0): EQ, (1, 0): GT, (0, 1): LT}[(a, b)]      # the path that still has a node is the longer one
                evr = Evaluator(facts, classify=classify, bool_atom=atom, assumption=asm)
                rc = Reach(facts, body, evr)
                outs = set()
                for (bb, si), w in it.ret_assigns.items():
                    if bb in rc.reachable:
                        for alt in phi_alts(w.val):
                            v = evr.ev(alt)
                            if isinstance(v, tuple) and v[0] == 'ord':
                                outs.add(v[1])
                            else:
                                outs.add('?')
                table[(a, b, o)] = sorted(outs)
    det = {'(self has node, other has node, node order) -> result': {str(k): v for k, v in table.items()}}
    errs = []
    if table[(0, 0, EQ)] != [EQ]:
        errs.append('two exhausted paths do not compare Equal')
    p10, p01 = table[(1, 0, EQ)], table[(0, 1, EQ)]
    if not (len(p10) == 1 and len(p01) == 1 and {p10[0], p01[0]} == {LT, GT}):
        errs.append('prefix rule is not antisymmetric: (longer,shorter)->%s but (shorter,longer)->%s' % (p10, p01))
    elif p10 != [LT]:
        # `between` builds a new identifier by extending a bound's path: it relies on an extension sorting BEFORE the path it extends
        errs.append('a path sorts after its own extensions ((longer,shorter)->%s): the longer path must sort before its prefix' % p10)
    if table[(1, 1, LT)] != [LT] or table[(1, 1, GT)] != [GT]:
        errs.append('differing nodes do not decide the result with the node ordering: Lt->%s Gt->%s' % (table[(1, 1, LT)], table[(1, 1, GT)]))
    if table[(1, 1, EQ)] != []:
        errs.append('equal nodes return %s instead of continuing with the next node' % table[(1, 1, EQ)])
    ctx.check(not errs, 'cmp', body, 'lexicographic, antisymmetric prefix rule', errs[0] if errs else '', details=det)


@rule('ID-PCMP', {'C14': 'partial_cmp must agree with cmp (consistent total order)'}, floor=1)
def id_pcmp(ctx):
    """Identifier::partial_cmp == Some(self.cmp(other))."""
    facts = ctx.facts
    body = ctx.method(IDENT, 'PartialOrd', 'partial_cmp')
    r = drop_lv(interp(facts, body).ret)
    ok = is_variant(r, 'option::Option', 'Some') and is_call(r[3][0][1], 'cmp') and versionless(r[3][0][1][2][0]) == ('param', 1) \
        and versionless(r[3][0][1][2][1]) == ('param', 2)
    ctx.check(ok, 'partial_cmp', body, 'Some(self.cmp(other))', 'Identifier::partial_cmp is %s, expected Some(self.cmp(other))' % fmt(r, 4))


# ---------------------------------------------------------------- MerkleReg

def _presence(t, m=None):
    """`F.contains_key(k)` / `F.get(k).is_some()` (or the negated `is_none`) -> (container term, key term, positive?)"""
    t = drop_lv(subst(t, m) if m else t)
    neg = False
    if is_call(t, ('is_none', 'is_some')) and t[2] and is_call(drop_lv(t[2][0]), ('get', 'get_key_value')):
        neg = call_name(t) == 'is_none'
        t = drop_lv(t[2][0])
    elif not is_call(t, ('contains_key', 'contains')):
        return None
    if len(t[2]) != 2:
        return None
    return t[2][0], t[2][1], not neg


def _seen_atom(facts, found):
    """atom: `every child hash of the node is in self.<F>` (through a helper or inline; as forall-present or as
    not-exists-missing)."""
    def atom(t):
        if t[0] not in ('call', 'unop', 'binop', 'loopq'):
            return None
        q = quant(facts, t)
        if q is None:
            return None
        src = q['src']
        base = versionless(iter_source(src)[0])
        if not (base[0] == 'field' and base[2] == 'children') or set(iter_adaptors(src)) & LOSSY_ADAPTORS:
            return None
        pb = param_path(base) or ('elem', ())
        hit = []

        def ba(x):
            pr = _presence(x, q['m'])
            if pr is None:
                return None
            cont, key, pos = pr
            pc = param_path(cont)
            if pc and pc[0] == 1 and (versionless(key)[0] == 'item' or quant_item(q, key)):
                hit.append(pc[1])
                return 'c' if pos else ('not', 'c')
            return None
        tv = {v: quant_value(facts, q, bool_atom=ba, assumption={'c': v}) for v in (True, False)}
        if not hit or len(set(hit)) != 1:
            return None     # presence in one container only: `in dag || in orphans` is a different notion of "seen"
        if q['kind'] == 'forall' and tv == {True: True, False: False}:
            positive = True
        elif q['kind'] == 'exists' and tv == {True: False, False: True}:
            positive = False
        else:
            return None
        found.append((hit[0], pb, base))
        return 'seen' if positive != q['neg'] else ('not', 'seen')
    return atom


@rule('MK-ROUTE', {
    'C15': 'the visible DAG is exactly the received nodes all of whose ancestors have been received; others stay invisible as orphans',
    'C02': 'MerkleReg::merge is apply of every node of the other side (MK-MERGE): the merge laws hold only if apply files each node by '
           'the presence of its children alone',
    'C03': 'merge is op delivery of the other side\'s nodes through this routine (MK-MERGE): a node filed wrongly reads differently '
           'from the replica that received the same nodes in another mix of ops and merges',
}, floor=1)
def mk_route(ctx):
    """MerkleReg::apply: dag.insert / roots.insert(hash) / roots.remove(child) only when all children are in dag;
    orphans.insert only otherwise."""
    facts = ctx.facts
    body = ctx.method(MERKLE, 'CmRDT', 'apply')
    it = interp(facts, body)
    sites = {'dag.insert': [], 'roots.insert': [], 'roots.remove': [], 'orphans.insert': []}
    for bb, c in it.calls.items():
        n = call_name(c.term)
        if n in ('insert', 'remove') and c.args and c.args[0].is_mut_ref:
            pp = param_path(c.args[0].val)
            if pp and pp[0] == 1 and len(pp[1]) == 1:
                k = '%s.%s' % (pp[1][0], n)
                if k in sites:
                    # only the writes about the node being applied (not the orphan replay)
                    sites[k].append(bb)
        if n in ('retain', 'retain_mut') and len(c.args) == 2 and c.args[0].is_mut_ref and param_path(c.args[0].val) == (1, ('roots',)):
            # `roots.retain(|r| !node.children.contains(r))`: the children of the node are removed, nothing else
            for clo, m in closure_bindings(c.term):
                cb = facts.cb(clo[1])

                def inside(t, m=m):
                    ts = subst(t, m)
                    if is_call(ts, ('contains', 'contains_key')) and len(ts[2]) == 2:
                        pc = param_path(versionless(ts[2][0]))
                        if pc and pc[0] == 2 and pc[1][-1:] == ('children',) and versionless(ts[2][1])[0] in ('item', 'field'):
                            return 'child'
                    return None
                if closure_value(facts, cb, bool_atom=inside, assumption={'child': True}) is False and \
                        closure_value(facts, cb, bool_atom=inside, assumption={'child': False}) is True:
                    sites['roots.remove'].append(bb)
    found = []
    seen = _seen_atom(facts, found)
    gate = _merkle_atoms([])

    def atom(t):
        return gate(t) or seen(t)
    res = {}
    for s in (True, False):
        rc = Reach(facts, body, Evaluator(facts, bool_atom=atom, assumption={'in_dag': False, 'in_orphans': False, 'seen': s}))
        res[s] = {k: (any(b in rc.reachable for b in v), rc.must_pass(v) if v else False) for k, v in sites.items()}
    det = {'all children in dag -> site: (may, must)': {str(k): v for k, v in res.items()}}
    errs = []
    own = [f for f, pb, _b in found if pb[0] == 2]
    if not own:
        errs.append('no test that every child of the node is present')
    elif own[0] != ('dag',):
        errs.append('child presence is checked in %s instead of dag' % '.'.join(own[0]))
    else:
        if not res[True]['dag.insert'][1] or not res[True]['roots.insert'][1]:
            errs.append('a node whose children are all present is not inserted into dag and roots')
        if not res[True]['roots.remove'][0]:
            errs.append('children of an inserted node are not demoted from roots')
        else:
            # .. every child, on every path: the demotion is reached in each iteration of its loop, and the loop (or the
            # `retain`) on every path of a node whose children are all present
            from .loops import loop_of_block
            rcT = Reach(facts, body, Evaluator(facts, bool_atom=atom, assumption={'in_dag': False, 'in_orphans': False, 'seen': True}))
            for sb in sites['roots.remove']:
                lp_ = loop_of_block(it, sb)
                if lp_ is not None and param_path(lp_.source()[0]) and param_path(lp_.source()[0])[0] == 2:
                    if not lp_.must(rcT, [sb]) or not rcT.must_pass([lp_.head]):
                        errs.append('a child of the inserted node can stay a root (the demotion is not reached for every child on every path)')
                elif lp_ is None and not rcT.must_pass([sb]):
                    errs.append('the demotion of the children is skipped on some path of an inserted node')
        if res[True]['orphans.insert'][0]:
            errs.append('a node whose children are all present is stored as an orphan')
        if not res[False]['orphans.insert'][1]:
            errs.append('a node with a missing child is not kept as an orphan')
        for k in ('dag.insert', 'roots.insert', 'roots.remove'):
            if res[False][k][0]:
                errs.append('%s is reachable for a node with a missing child (it becomes visible)' % k)
                break
    # roots.insert key is the node hash, roots.remove key is a child of the node
    if not errs:
        for bb in sites['roots.insert']:
            k = versionless(it.calls[bb].args[1].val)
            if not (is_call(k, 'hash') and versionless(k[2][0]) == ('param', 2)):
                errs.append('roots.insert does not insert the hash of the applied node')
        for bb in sites['roots.remove']:
            if call_name(it.calls[bb].term) in ('retain', 'retain_mut'):
                continue      # the retain form was checked against `children.contains(root)` when it was accepted as a site
            k = versionless(it.calls[bb].args[1].val)
            src = as_item(k)
            if src is not None and whole_iteration_over(src, 1, ('roots',)):
                # the mirror walk (a `retain` written out): every root is looked at and dropped exactly when it is a child of the node
                from .loops import loop_of_block
                lp_ = loop_of_block(it, bb)

                def child_atom(t):
                    if is_call(t, ('contains', 'contains_key')) and len(t[2]) == 2:
                        pc = param_path(versionless(t[2][0]))
                        if pc and pc[0] == 2 and pc[1][-1:] == ('children',) and as_item(t[2][1]) is not None \
                                and versionless(as_item(t[2][1])) == versionless(src):
                            return 'child'
                    return gate(t) or seen(t)
                ok_ = lp_ is not None and not lp_.early_exits()
                for val in (True, False):
                    rc_ = Reach(facts, body, Evaluator(facts, bool_atom=child_atom, assumption={'in_dag': False, 'in_orphans': False, 'seen': True, 'child': val}))
                    if lp_ is None or (val and not lp_.must(rc_, [bb])) or (not val and lp_.may(rc_, [bb])):
                        ok_ = False
                if not ok_:
                    errs.append('the roots that are children of the applied node are not exactly the ones dropped')
                continue
            if src is None or not whole_iteration_over(src, 2, ('children',)):
                errs.append('roots.remove does not range over every child of the applied node')
    ctx.check(not errs, 'apply', body, 'visible iff all children in dag; else orphan', errs[0] if errs else '', details=det)


@rule('MK-REEXAM', {
    'C15': 'orphans become visible as soon as the gap is filled; without re-examination a filled gap leaves descendants invisible',
    'C08': 'MerkleReg needs no delivery order at all',
    'C03': 'the reads depend on the set of nodes learned, not on whether a parent came as an op before or inside a state after its child',
    'C02': 'merging in either order must surface the same orphans once their parents are there',
}, floor=1)
def mk_reexam(ctx):
    """After dag.insert every path re-examines the orphans: every orphan whose children are now all in dag is removed
    from orphans and re-applied.  Decided on the loop form (the 's' view turns adaptor chains into loops): the node
    handed to the recursive apply is traced back through the local collections it travels in
    (apply <- nodes <- orphans.remove(hash) <- hashes <- key of every orphan whose children are all present)."""
    from .loops import loops_of, fills_of, coll_local, loop_of_item, loop_of_block, peel
    facts = ctx.facts
    body = ctx.method(MERKLE, 'CmRDT', 'apply')
    it = interp(facts, body)
    rc0 = Reach(facts, body, Evaluator(facts))
    ins = [bb for bb, c in it.calls.items() if call_name(c.term) == 'insert' and param_path(c.args[0].val) == (1, ('dag',))]
    if not ins:
        ctx.shape('apply', body, 'dag.insert not found (see MK-ROUTE)')
        return
    fills = fills_of(it)
    found = []
    seen = _seen_atom(facts, found)

    def is_orphan_remove(t):
        t = peel(t)
        return is_call(t, ('remove', 'remove_entry')) and len(t[2]) == 2 and param_path(versionless(t[2][0])) == (1, ('orphans',))

    def atom(t):
        if t[0] == 'discr' and is_orphan_remove(t[1]):
            return 'some'
        return seen(t)

    def strip(v):
        v = peel(v)
        while True:
            if v[0] == 'field' and v[2] in ('Some.0', 'Ok.0') and not (peel(v[1])[0] == 'call' and call_name(peel(v[1])) == 'next'):
                v = peel(v[1])
            elif is_call(v, ('unwrap', 'expect', 'unwrap_or_default', 'clone', 'copied', 'cloned')) and v[2]:
                v = peel(v[2][0])
            else:
                return v

    def trace(v, steps, depth=0):
        """-> list of complete chains; a chain is a list of (loop, site) steps ending at the scan of self.orphans."""
        if depth > 6:
            return []
        v = strip(v)
        import os
        if os.environ.get('DBG'): print('trace', depth, fmt(v, 5))
        if is_orphan_remove(v):
            return trace(v[2][1], steps, depth + 1)
        # a part of the item of a loop
        t, parts = v, []
        while t[0] == 'field' and loop_of_item(it, t) is None:
            parts.append(t[2])
            t = peel(t[1])
        lp = loop_of_item(it, t)
        if lp is None:
            return []
        base, kind, clo = iter_source(lp.src)
        if param_path(base) == (1, ('orphans',)):
            is_key = (kind == 'keys' and not parts) or (kind == 'items' and parts == ['0'])
            if is_key and not clo and not (set(iter_adaptors(lp.src)) & LOSSY_ADAPTORS):
                return [steps + [('scan', lp)]]
            # the table was taken out of self and split: the ready entries travel on as whole entries (or their nodes),
            # the others are put back
            whole_entry = (kind == 'items' and parts in ([], ['1'])) or (kind == 'values' and not parts)
            taken = any(w.kind in ('take', 'replace') and loc_target(it, w.loc) and loc_target(it, w.loc)[:2] == (1, ('orphans',))
                        for w in it.muts.values())
            if whole_entry and taken and not clo and not (set(iter_adaptors(lp.src)) & LOSSY_ADAPTORS):
                put_back = False
                for w in it.writes.values():
                    tg = loc_target(it, w.loc)
                    if tg and tg[:2] == (1, ('orphans',)) and w.kind == 'assign':
                        nm = coll_local(w.val)
                        if nm and any(f.local == nm and f.loop.head == lp.head for f in fills):
                            put_back = True
                if put_back:
                    return [steps + [('scan', lp)]]
            return []
        name = coll_local(lp.raw_src)
        if name is None:
            return []
        out = []
        for f in fills:
            if f.local == name and f.loop.head != lp.head:
                for val in f.vals:
                    out += trace(val, steps + [(f.loop, f.bb)], depth + 1)
        return out

    chains = []
    for bb, c in sorted(it.calls.items()):
        info = cinfo(c.cid)
        if info['uid'] == body.base_uid and len(c.args) == 2 and param_path(versionless(c.args[0].val)) == (1, ()):
            lp = loop_of_block(it, bb)
            if lp is None:
                continue
            for ch in trace(c.args[1].val, [(lp, bb)]):
                chains.append(ch)
    if not chains:
        ctx.check(False, 'apply', body, '', 'orphans are not re-examined: no recursive apply of a node taken out of orphans by a key that '
                  'comes from scanning all of self.orphans')
        return
    errs = []
    best = None
    for ch in chains:
        e = []
        scan = ch[-1][1]
        found.clear()
        rc = Reach(facts, body, Evaluator(facts, bool_atom=atom, assumption={'seen': True, 'some': 1}))
        loops_in_chain = [l for l, _ in ch[:-1]] + [scan]
        for lp in loops_in_chain:
            if lp.early_exits():
                e.append('the loop at line %d can stop before every item was handled' % block_line(it, lp.head))
            if not all(rc0.must_pass([lp.head], start=s_) for i_ in ins for s_ in it.succs[i_]):
                e.append('a path after dag.insert skips the loop at line %d of the re-examination' % block_line(it, lp.head))
        for lp, site in ch[:-1]:
            if not lp.must(rc, [site]):
                e.append('line %d: not every ready orphan reaches the next stage (the step at this line can be skipped for an orphan '
                         'whose children are all present)' % block_line(it, site))
        # the scan stage must be gated by presence of the orphan's children in dag
        gate = [(f, b) for f, pb, b in found]
        item_children = [b for f, b in gate if b[0] == 'field' and loop_of_item(it, strip_fields(b[1])) is not None
                         and loop_of_item(it, strip_fields(b[1])).head == scan.head]
        scan_site = ch[-2][1] if len(ch) >= 2 else None
        rcF = Reach(facts, body, Evaluator(facts, bool_atom=atom, assumption={'seen': False, 'some': 1}))
        if scan_site is not None and ch[-2][0].head == scan.head and scan.may(rcF, [scan_site]) and not item_children:
            pass  # unconditional re-application of every orphan is wasteful but correct
        if gate and any(f != ('dag',) for f, b in gate if b in item_children):
            e.append('readiness of an orphan is tested against %s instead of dag' % '.'.join([f for f, b in gate if b in item_children][0]))
        if best is None or len(e) < len(best):
            best = e
    errs = best
    ctx.check(not errs, 'apply', body, 'after dag.insert: ready orphans removed and re-applied (%d provenance chain(s))' % len(chains),
              errs[0] if errs else '', details={'chains': [[block_line(it, s_) if not isinstance(s_, str) and not hasattr(s_, 'head') else 'orphans' for _, s_ in ch] for ch in chains]})


def strip_fields(t):
    from .loops import peel
    t = peel(t)
    while t[0] == 'field' and not (peel(t[1])[0] == 'call' and call_name(peel(t[1])) == 'next' and t[2] == 'Some.0'):
        t = peel(t[1])
    return t


@rule('MK-MERGE', {
    'C15': 'orphans must travel with states: the content is a function of the node set received',
    'C02': 'every node of other must reach self',
    'C03': 'MerkleReg merge is op delivery of every node of the other side',
}, floor=1)
def mk_merge(ctx):
    """MerkleReg::merge re-applies every node of other.dag and of other.orphans."""
    facts = ctx.facts
    body = ctx.method(MERKLE, 'CvRDT', 'merge')
    it = interp(facts, body)
    rc = Reach(facts, body, Evaluator(facts))
    errs = []
    for fld in ('dag', 'orphans'):
        good = []
        for bb, c in it.calls.items():
            if is_call(c.term, 'apply', self_adt='MerkleReg') and len(c.args) == 2 and param_path(versionless(c.args[0].val)) == (1, ()):
                n = versionless(c.args[1].val)
                src = as_item(n)
                if src is None and n[0] == 'field':
                    src = as_item(n[1])
                if src is not None and any(whole_iteration_over(part, 2, (fld,)) for part in chain_parts(src)):
                    good.append(bb)
        if not good:
            errs.append("the nodes of other.%s are not re-applied to self" % fld)
            continue
        fr = iteration_frame(it, good[0])
        # (an early return when the other register holds nothing skips nothing: the clause about other.<fld> is asked in the world
        # where other.<fld> is not empty)
        reached = fr is not None and (rc.must_pass([fr[1]]) or must_pass_unless_noop(facts, body, it, [fr[1]], {'theirs': (2, (fld,))}))
        if fr is None or not rc.must_pass(good, start=fr[0], stops=(fr[1],)) or not reached:
            errs.append("a node of other.%s can be skipped" % fld)
    ctx.check(not errs, 'merge', body, 'every node of other.dag and other.orphans re-applied', errs[0] if errs else '')


def _dag_lookup_map(facts, body, t, src_ok):
    """t is the map { h -> dag[h] : h in <source>, h present in dag }, written as `source.filter_map(|h| dag.get(h).map(|n| (h, n)))
    .collect()` or as an explicit loop filling a local map; src_ok(container term) accepts the source."""
    from .loops import fills_of, peel, loops_of
    t0 = t
    t = drop_lv(t)
    if is_call(t, ('unwrap_or_default', 'unwrap_or_else', 'unwrap_or')) and t[2]:
        t = drop_lv(inline_option_maps(facts, t[2][0]))
    if is_call(t, ('collect', 'from_iter')) and t[2]:
        src = t[2][-1]
        base, kind, clo = iter_source(src)
        if src_ok(base) and not (set(iter_adaptors(src)) & LOSSY_ADAPTORS):
            for n, cl in clo:
                if cl and cl[0] == 'closure':
                    cb = facts.cb(cl[1])
                    m = {('upvar', k): v for k, v in enumerate(cl[2])}
                    cr = drop_lv(subst(interp(facts, cb).ret, m))
                    for st in subterms(cr):
                        # (`get_key_value(h)` hands back the map's own key next to the node: the same pair)
                        if is_call(st, ('get', 'get_key_value')) and len(st[2]) == 2 and param_path(st[2][0]) == (1, ('dag',)) \
                                and versionless(st[2][1]) == ('param', 2):
                            return True
        return False
    # loop form: one fill of the returned local, in a complete loop over the source, reached exactly when dag holds the item
    it = interp(facts, body)
    root = peel(t0)
    while root[0] == 'call' and call_name(root) in ('unwrap_or_default',) and root[2]:
        root = peel(root[2][0])
    fills = [f for f in fills_of(it)]
    for f in fills:
        lp = f.loop
        base, kind, clo = iter_source(lp.src)
        if not src_ok(base) or clo or (set(iter_adaptors(lp.src)) & LOSSY_ADAPTORS) or lp.early_exits():
            continue
        vals = [versionless(v) for v in f.vals]
        # (key, value) or a (key, value) tuple
        if len(vals) == 1 and vals[0][0] == 'tuple' and len(vals[0][1]) == 2:
            vals = [versionless(vals[0][1][0]), versionless(vals[0][1][1])]
        if len(vals) != 2:
            continue
        k, v = vals
        from .loops import item_derived
        if not item_derived(k, lp):
            continue
        g = v[1] if v[0] == 'field' and v[2] == 'Some.0' else v
        if not (is_call(g, 'get') and len(g[2]) == 2 and param_path(g[2][0]) == (1, ('dag',)) and item_derived(g[2][1], lp)):
            continue

        def atom(x, lp=lp):
            if x[0] == 'discr' and is_call(drop_lv(x[1]), 'get') and param_path(drop_lv(x[1])[2][0]) == (1, ('dag',)):
                return ('map', 'hit', {True: 1, False: 0})
            if is_call(x, ('is_some', 'is_none', 'contains_key')) and x[2]:
                y = drop_lv(x[2][0])
                if call_name(x) == 'contains_key' and param_path(y) == (1, ('dag',)):
                    return 'hit'
                if is_call(y, 'get') and param_path(y[2][0]) == (1, ('dag',)):
                    return 'hit' if call_name(x) == 'is_some' else ('not', 'hit')
            return None
        rc_t = Reach(facts, body, Evaluator(facts, bool_atom=atom, assumption={'hit': True}))
        rc_f = Reach(facts, body, Evaluator(facts, bool_atom=atom, assumption={'hit': False}))
        if lp.must(rc_t, [f.bb]) and f.bb not in rc_f.reachable:
            return True
    return False


@rule('MK-READ', floor=1, **read_attribution({
    'C15': 'read() returns exactly the visible nodes that no visible node lists as a child (the roots, looked up in dag)',
}, module='merkle_reg'))
def mk_read(ctx):
    """MerkleReg::read = every root hash looked up in dag."""
    facts = ctx.facts
    body = ctx.inherent(MERKLE, 'read')
    # `if self.roots.is_empty() || self.dag.is_empty() { empty }`: no root, or nothing a root could be looked up in
    raw = general_ret(facts, body, {'roots': (1, ('roots',)), 'dag': (1, ('dag',))}) or interp(facts, body).ret
    r = drop_lv(raw)
    ok = False
    rr = raw
    while rr[0] in ('lv', 'at'):
        rr = rr[3] if rr[0] == 'lv' else rr[2]
    if rr[0] == 'agg' and rr[1].endswith('Content'):
        nodes = dict(rr[3]).get('nodes')
        ok = _dag_lookup_map(facts, body, nodes, lambda base: param_path(base) == (1, ('roots',)))
    ctx.check(ok, 'read', body, 'roots looked up in dag', 'MerkleReg::read is %s, expected every hash of roots looked up in dag' % fmt(r, 5))


@rule('MK-VALIDATE', {
    'C16': 'validate_op rejects exactly ops referencing an unseen child',
    'C15': 'same presence notion as apply (dag)',
}, floor=1)
def mk_validate(ctx):
    """MerkleReg::validate_op returns Err(MissingChild(c)) exactly when some child c of the op is not in dag."""
    facts = ctx.facts
    body = ctx.method(MERKLE, 'CmRDT', 'validate_op')
    it = interp(facts, body)
    errs_s = ret_sites_by(it, lambda v: is_variant(v, 'result::Result', 'Err'))
    fields = []

    def atom(t):
        neg = False
        if is_call(t, ('is_none', 'is_some')) and t[2] and is_call(drop_lv(t[2][0]), ('get', 'get_key_value')):
            neg = call_name(t) == 'is_none'
            t = drop_lv(t[2][0])
        elif not is_call(t, ('contains_key', 'contains')):
            return None
        if len(t[2]) == 2:
            pc = param_path(t[2][0])
            src = as_item(t[2][1])
            if pc and pc[0] == 1 and src is not None and whole_iteration_over(src, 2, ('children',)):
                fields.append(pc[1])
                return ('not', 'present') if neg else 'present'
        return None
    if not errs_s:
        ctx.fail('validate_op', body, 'never returns an error')
        return
    bb = errs_s[0][0]
    fr = None
    for b2, c2 in sorted(it.calls.items()):
        if atom(c2.term):
            fr = iteration_frame(it, b2)
            if fr:
                break
    fields.clear()
    res = {}
    for p in (True, False):
        rc = Reach(facts, body, Evaluator(facts, bool_atom=atom, assumption={'present': p}))
        if fr:
            inner = rc._reach(fr[0], {fr[1]})
            res[p] = (any(b in inner for b, _ in errs_s), rc.must_pass([b for b, _ in errs_s], start=fr[0], stops=(fr[1],)))
        else:
            res[p] = (any(b in rc.reachable for b, _ in errs_s), False)
    errs = []
    if not fields or fr is None:
        errs.append('children of the op are not each tested for presence')
    elif fields[0] != ('dag',):
        errs.append('child presence is tested in %s instead of dag' % '.'.join(fields[0]))
    else:
        if not res[False][1]:
            errs.append('an op with a child missing from dag is accepted')
        if res[True][0]:
            errs.append('an op whose child is present is rejected')
        v = errs_s[0][1]
        inner = v[3][0][1]
        if not (inner[0] == 'agg' and inner[2] == 'MissingChild' and as_item(inner[3][0][1]) is not None):
            errs.append('the error does not name the missing child')
        from .loops import loop_of_block
        lp_ = loop_of_block(it, fr[0])
        if lp_ is not None and not must_pass_unless_noop(facts, body, it, [lp_.head], {'children': (2, ('children',))}):
            errs.append('a path through validate_op answers without testing the children of the op (an op with a missing child is accepted there)')
    ctx.check(not errs, 'validate_op', body, 'Err(MissingChild(c)) exactly when c is not in dag', errs[0] if errs else '',
              details={'child in dag -> (Err may, must)': {str(k): v for k, v in res.items()}})


@rule('ID-MARKER', {
    'C12': 'the gate and the identifier must agree on the dot: Op::dot() reads the marker of the last path element, so every identifier '
           'between() builds must end with the caller\'s marker',
    'C14': 'identifiers tagged with distinct dots never collide only if the marker really ends the path',
}, floor=3)
def id_marker(ctx):
    """Identifier::between: the last path element pushed before the walk ends carries the caller's marker (prefix copies are
    always followed by another iteration), the one-bound case builds [(.., marker)], the swapped recursion passes the marker on;
    Identifier::value() returns the marker of the last element."""
    facts = ctx.facts
    body = ctx.inherent(IDENT, 'between')
    it = interp(facts, body)
    rc = Reach(facts, body, Evaluator(facts))
    marker_pushes, other_pushes = [], []
    for bb, c in it.calls.items():
        if call_name(c.term) == 'push' and len(c.args) == 2:
            v = drop_lv(c.args[1].val)
            if v[0] == 'tuple' and len(v[1]) == 2:
                (marker_pushes if versionless(v[1][1]) == ('param', 3) else other_pushes).append(bb)
    errs = []
    if not marker_pushes:
        errs.append('no path element is ever tagged with the caller\'s marker')
    else:
        heads = sorted(set(h for (_, h) in it.back_edges))
        walk = None
        for h in heads:
            lp = innermost_loop(it, h)
            if lp and any(call_name(it.calls[b].term) == 'next' for b in lp[1] if b in it.calls):
                walk = lp
        if walk is None:
            errs.append('the path walk is not a loop')
        else:
            head, blocks = walk
            rets = set(rc.return_blocks())
            if not rc.must_pass(marker_pushes, start=head):
                p = rc.escape_path(marker_pushes, start=head)
                errs.append('the path walk can end without appending (.., marker): bb%s' % '->bb'.join(map(str, p or [])))
            for b in other_pushes:
                after = rc._reach(b, set(marker_pushes) | {head})
                if after & rets:
                    errs.append('a copied prefix element can be the last element of the new identifier (line %d)' % block_line(it, b))
    # one-bound case and recursion
    one_ok = False
    for w in it.writes.values():
        v = drop_lv(w.val)
        if v[0] == 'array' and v[1] and v[1][0][0] == 'tuple' and len(v[1][0][1]) == 2 and versionless(v[1][0][1][1]) == ('param', 3):
            one_ok = True
    for bb, c in it.calls.items():
        if call_name(c.term) in ('from_elem', 'into_vec', 'from') and c.args:
            for st in subterms(drop_lv(c.args[0].val)):
                if st[0] == 'tuple' and len(st[1]) == 2 and versionless(st[1][1]) == ('param', 3):
                    one_ok = True
    if not one_ok:
        errs.append('with a single bound the new identifier is not [(position, marker)]')
    for bb, c in it.calls.items():
        if cinfo(c.cid)['uid'] == body.base_uid and len(c.args) == 3 and versionless(c.args[2].val) != ('param', 3):
            errs.append('the swapped recursive call does not pass the marker on')
    ctx.check(not errs, 'between', body, 'every built identifier ends with the caller\'s marker', errs[0] if errs else '')
    vb = ctx.inherent(IDENT, 'value')
    r = drop_lv(inline_option_maps(facts, interp(facts, vb).ret))
    ok = False
    for st in subterms(r):
        if st[0] == 'field' and st[2] == '1' and any(is_call(s2, 'last') and param_path(s2[2][0]) == (1, ('0',)) for s2 in subterms(st[1])):
            ok = True
    ctx.check(ok, 'value', vb, 'marker of the last path element', 'Identifier::value() is %s, expected the marker of the last path element' % fmt(r, 5))
    # the consuming twin (GList::read_into / List readers that take the element out) must agree with value()
    ib = ctx.inherent(IDENT, 'into_value')
    r = drop_lv(inline_option_maps(facts, interp(facts, ib).ret))
    ok = False
    for st in subterms(r):
        if st[0] == 'field' and st[2] == '1' and any(is_call(s2, ('pop', 'last', 'pop_back', 'next_back')) and (
                param_path(versionless(s2[2][0])) == (1, ('0',)) or param_path(iter_source(s2[2][0])[0]) == (1, ('0',))) for s2 in subterms(st[1])):
            ok = True
    ctx.check(ok, 'into_value', ib, 'marker of the last path element', 'Identifier::into_value() is %s, expected the marker of the last path element' % fmt(r, 5))


def _low_dropped_by_flag(facts, body, it, head, lblocks, low_next_bb, reach, o):
    """The other way to forget the low path: a loop-carried flag (`diverged`) guards `low_path.next()`.  In the world where the
    paths diverge the flag leaves the iteration with the value under which the low path is no longer consulted, and on the
    common prefix it keeps the value under which it still is."""
    if low_next_bb is None:
        return False
    # the switch on a plain local that decides whether the low `next()` is called
    cands = []
    for sb in sorted(it.dom[low_next_bb], key=lambda x: -it.rpo.index(x)):
        if sb == low_next_bb or sb not in lblocks:
            continue
        t = body.blocks[sb]['term']
        if t['k'] == 'switch' and t['discr']['k'] in ('copy', 'move') and not t['discr']['place']['proj']:
            fl = t['discr']['place']['local']
            # the switch usually tests a fresh copy of the flag (`_t = copy flag; switch _t`): look through it
            for _ in range(3):
                cp = [st for st in body.blocks[sb]['stmts'] if st.get('k') == 'assign' and st['place']['local'] == fl and not st['place']['proj']
                      and st['rv'].get('k') == 'use' and st['rv']['op'].get('k') in ('copy', 'move') and not st['rv']['op']['place']['proj']]
                if not cp:
                    break
                fl = cp[-1]['rv']['op']['place']['local']
            assigned_in_loop = any(st.get('k') == 'assign' and st['place']['local'] == fl and not st['place']['proj']
                                   for bi in lblocks for st in body.blocks[bi]['stmts'])
            if assigned_in_loop:
                cands.append((sb, fl, t))
    if not cands:
        return False
    sb, fl, t = cands[0]

    def leads_to_next(target):
        seen, st = set(), [target]
        while st:
            x = st.pop()
            if x == low_next_bb:
                return True
            if x in seen or x not in lblocks or x == head:
                continue
            seen.add(x)
            st.extend(it.succs.get(x, []))
        return False
    consult = {}
    for v, tb in t['targets']:
        consult[v] = leads_to_next(tb)
    other = leads_to_next(t['otherwise']) if t.get('otherwise') is not None else None
    latches = [x for x in it.preds.get(head, []) if x in lblocks]

    def flag_at_latch(rc):
        vals = set()
        for l_ in latches:
            if l_ in rc._reach(head, set()):
                vals |= set(rc._values_at(fl, l_))
        return vals

    def consulted(v):
        return consult.get(v, other)
    v_div = flag_at_latch(reach({'req': EQ, 'meq': o, 'low': GT, 'high': LT}))
    v_pre = flag_at_latch(reach({'req': EQ, 'meq': EQ, 'low': GT, 'high': LT}))
    if not v_div or None in v_div or not v_pre or None in v_pre:
        return False
    return all(consulted(v) is False for v in v_div) and all(consulted(v) is True for v in v_pre)


@rule('ID-BETWEEN', {
    'C14': 'between(low, high, marker) must be strictly between: the sibling-marker shortcut is sound only for l_m < marker < h_m '
           '(with <= the result equals or precedes a bound), and a one-node identifier is compared at the first path node, so its '
           'position must be derived from the first node of the bound',
    'C12': 'List::append / insert_index allocate identifiers with the one-bound and two-bound forms',
}, floor=4)
def id_between(ctx):
    """Identifier::between: (a) at an equal-position node the marker is appended in place only when it is strictly
    between the two sibling markers; (b) with a single bound the new position is computed from the first node of that bound."""
    facts = ctx.facts
    body = ctx.inherent(IDENT, 'between')
    it = interp(facts, body)
    # (a) the push (h_ratio, marker) that keeps the sibling position
    sib = []
    for bb, c in it.calls.items():
        if call_name(c.term) == 'push' and len(c.args) == 2:
            v = drop_lv(c.args[1].val)
            if v[0] == 'tuple' and len(v[1]) == 2 and versionless(v[1][1]) == ('param', 3):
                pos = versionless(v[1][0])
                if not is_call(pos, '~rational_between') and as_item(pos[1] if pos[0] == 'field' else pos) is not None:
                    sib.append(bb)
    if not sib:
        ctx.ok('sibling-guard', body, 'no in-place sibling shortcut (always forks with a fresh position)', nontrivial=False)
    else:
        def side(t):
            src = as_item(t[1]) if t[0] == 'field' and t[2] == '1' else None
            if src is None:
                return None
            pp = param_path(iter_source(src)[0])
            return pp[0] if pp else None

        def classify(a, b, t):
            va, vb = versionless(a), versionless(b)
            for x, y, orient in ((va, vb, 'fwd'), (vb, va, 'rev')):
                if y == ('param', 3) and side(x) == 1:
                    return ('low', orient)       # ord(l_m, marker)
                if x == ('param', 3) and side(y) == 2:
                    return ('high', orient)      # ord(marker, h_m)
            return None
        fr = None
        for b2, c2 in sorted(it.calls.items()):
            if call_name(c2.term) == 'next':
                fr = iteration_frame(it, b2) or fr
        res = {}
        hits = set()
        for lo in TOTAL:
            for hi in TOTAL:
                evr = Evaluator(facts, classify=classify, assumption={'low': lo, 'high': hi})
                rc = Reach(facts, body, evr)
                res[(lo, hi)] = any(b in rc.reachable for b in sib)
                hits |= set(evr.hits)
        bad = sorted(k for k, v in res.items() if v and k != (LT, LT))
        errs = []
        if not {'low', 'high'} <= hits:
            errs.append('the in-place sibling shortcut is not guarded by comparing the marker with both sibling markers')
        elif bad:
            errs.append('the marker is appended at the sibling position when ord(l_m, marker)=%s and ord(marker, h_m)=%s: the result is not '
                        'strictly between the bounds' % bad[0])
        elif not res[(LT, LT)]:
            errs.append('the sibling shortcut is unreachable even for l_m < marker < h_m')
        ctx.check(not errs, 'sibling-guard', body, 'shortcut only under l_m < marker < h_m', errs[0] if errs else '',
                  details={'(ord(l_m,marker), ord(marker,h_m)) -> shortcut reachable': {str(k): v for k, v in res.items()}}, props=['C14'])
    # (c) fork inside the walk: the fresh position is computed from the current node of BOTH paths (a side may be
    # passed as None only where that path is exhausted)
    def node_side(t):
        if is_call(t, 'next'):
            t = ('field', t, 'Some.0')
        src = as_item(t)
        if src is None:
            return None
        pp = param_path(iter_source(src)[0])
        return pp[0] if pp else None

    def have(t):
        if t[0] == 'discr':
            sd = node_side(('field', t[1], 'Some.0'))
            if sd in (1, 2):
                return ('map', 'n%d' % sd, {True: 1, False: 0})
        return None
    forks = []
    for bb, c in sorted(it.calls.items()):
        if call_name(c.term) == 'push' and len(c.args) == 2:
            v = drop_lv(c.args[1].val)
            if v[0] == 'tuple' and len(v[1]) == 2 and versionless(v[1][1]) == ('param', 3) and is_call(drop_lv(v[1][0]), '~rational_between'):
                rb = drop_lv(v[1][0])
                forks.append((bb, [drop_lv(inline_option_maps(facts, a)) for a in rb[2]]))
    if not forks:
        ctx.shape('fork', body, 'no fork step (push of (rational_between(low node, high node), marker)) inside the walk over the two paths')
    else:
        errs = []
        for bb, args in forks:
            for sd, arg in ((1, args[0]), (2, args[1])):
                if any(node_side(st) == sd for st in subterms(versionless(arg))):
                    continue
                rcn = Reach(facts, body, Evaluator(facts, bool_atom=have, assumption={'n%d' % sd: True}))
                if bb in rcn.reachable:
                    errs.append('line %d: the fork position ignores the current node of the %s path although that path still has a node there '
                                '(the result is not between the bounds)' % (block_line(it, bb), 'low' if sd == 1 else 'high'))
        ctx.check(not errs, 'fork', body, 'fork position taken between the current nodes of both paths', errs[0] if errs else '',
                  line=block_line(it, forks[0][0]), props=['C14'])
    # (d) the walk over the common prefix: at a node pair with EQUAL positions where the marker does not fit, the walk descends
    # along the high path (copies the high node) - keeping the low path when the two markers are equal (common prefix), and
    # dropping it when they differ (the paths have diverged); node pairs with different positions always fork.
    def node_field(t):
        t = versionless(t)
        if t[0] == 'field' and t[2] in ('0', '1'):
            sd = node_side(t[1])
            if sd in (1, 2):
                return sd, t[2]
        return None

    def classify_w(a, b, t):
        va, vb = versionless(a), versionless(b)
        fa, fb = node_field(va), node_field(vb)
        if fa and fb and fa[1] == fb[1] and {fa[0], fb[0]} == {1, 2}:
            return ('req' if fa[1] == '0' else 'meq', 'fwd' if fa[0] == 1 else 'rev')
        for x, y, orient in ((va, vb, 'fwd'), (vb, va, 'rev')):
            fx, fy = node_field(x), node_field(y)
            if y == ('param', 3) and fx == (1, '1'):
                return ('low', orient)
            if x == ('param', 3) and fy == (2, '1'):
                return ('high', orient)
        return None
    copies = []
    for bb, c in sorted(it.calls.items()):
        if call_name(c.term) == 'push' and len(c.args) == 2:
            v = drop_lv(c.args[1].val)
            if v[0] == 'tuple' and len(v[1]) == 2 and node_field(v[1][0]) == (2, '0') and node_field(v[1][1]) == (2, '1'):
                copies.append(bb)
    low_local = None
    for bb, c in sorted(it.calls.items()):
        if call_name(c.term) == 'next' and c.args and node_side(c.term) == 1 and c.args[0].loc is not None:
            root = c.args[0].loc[0]
            if root[0] == 'L':
                low_local = root[1]
    low_next_bb = None
    for bb, c in sorted(it.calls.items()):
        if call_name(c.term) == 'next' and c.args and node_side(c.term) == 1:
            low_next_bb = bb
    lp = innermost_loop(it, copies[0]) if copies else None
    if not copies or lp is None or low_local is None:
        ctx.shape('walk', body, 'no step copying the high node (push of (h_ratio, h_m)) inside a loop over both paths%s'
                  % ('' if low_local is not None else ' / the low path iterator is not a local'))
    else:
        head, lblocks = lp
        clears = sorted(bi for bi in lblocks for st in body.blocks[bi]['stmts']
                        if st.get('k') == 'assign' and st['place']['local'] == low_local and not st['place']['proj'])
        clears += sorted(bi for bi in lblocks if bi in it.calls and it.calls[bi].dest and it.calls[bi].dest.get('local') == low_local
                         and not it.calls[bi].dest.get('proj'))
        sib_or_copy = set(sib) | set(copies)
        all_push = [bb for bb, c in it.calls.items() if call_name(c.term) == 'push' and len(c.args) == 2 and head in it.dom[bb]]
        odd = sorted(set(all_push) - set(sib) - set(copies) - set(b for b, _ in forks))

        def reach(asm):
            return Reach(facts, body, Evaluator(facts, classify=classify_w, bool_atom=have, assumption=dict({'n1': True, 'n2': True}, **asm)))
        errs = []
        ev0 = Evaluator(facts, classify=classify_w, bool_atom=have, assumption={'n1': True, 'n2': True, 'req': EQ, 'meq': EQ, 'low': GT, 'high': LT})
        Reach(facts, body, ev0)
        if odd:
            errs.append('line %d: the walk pushes a node that is neither a copy of the high node, nor (its position, marker), nor '
                        '(rational_between(..), marker)' % block_line(it, odd[0]))
        elif not {'req', 'meq'} <= set(ev0.hits):
            errs.append('the walk does not compare the positions and the markers of the two current nodes')
        else:
            for o in (LT, GT):     # positions differ: never copy, never use the sibling shortcut, never drop the low path
                rc = reach({'req': o})
                if any(b in rc.reachable for b in sib_or_copy):
                    errs.append('a node is copied / the sibling shortcut is taken although the two current positions differ (ord=%s): '
                                'the result leaves the interval' % o)
                    break
            if not errs:
                rc = reach({'req': EQ, 'meq': EQ, 'low': GT, 'high': LT})     # common prefix, marker does not fit
                if not rc.must_pass(copies, start=head, stops=(head,)):
                    errs.append('on the common prefix (equal position and marker) an iteration can continue without copying the node')
                elif any(b in rc.reachable for b in clears):
                    errs.append('the low path is dropped although both paths still agree (equal position and marker): the result may '
                                'not exceed the low bound')
            if not errs:
                for o in (LT, GT):  # same position, different markers, marker does not fit: descend along high, forget low
                    rc = reach({'req': EQ, 'meq': o, 'low': GT, 'high': LT})
                    if not rc.must_pass(copies, start=head, stops=(head,)):
                        errs.append('at a pair of siblings (equal position, different markers) an iteration can continue without copying the high node')
                        break
                    if (not clears or not rc.must_pass(clears, start=head, stops=(head,))) and \
                            not _low_dropped_by_flag(facts, body, it, head, lblocks, low_next_bb, reach, o):
                        errs.append('after the paths diverge (equal position, different markers) the low path keeps being compared: '
                                    'its deeper nodes are unrelated to the high path')
                        break
        ctx.check(not errs, 'walk', body, 'equal position: copy the high node, keep the low path only while the markers agree; '
                  'different positions: fork', errs[0] if errs else '', line=block_line(it, copies[0]), props=['C14'])
    # (b) one-bound position from the first node
    one = []
    for bb, c in it.calls.items():
        if is_call(c.term, '~rational_between') and len(c.args) == 2:
            a0 = drop_lv(inline_option_maps(facts, c.args[0].val))
            a1 = drop_lv(inline_option_maps(facts, c.args[1].val))
            if any(versionless(st) == ('param', 1) for st in subterms(a0)) or any(versionless(st) == ('param', 2) for st in subterms(a1)):
                if not any(as_item(st) is not None for st in subterms(versionless(a0))):
                    one.append((bb, a0, a1))
    if not one:
        ctx.shape('one-bound', body, 'the single-bound case (rational_between over the bounds\' own positions) was not found')
    else:
        bb, a0, a1 = one[0]
        errs = []
        for nm, a, p in (('low', a0, 1), ('high', a1, 2)):
            firsts = [st for st in subterms(a) if is_call(st, ('first',)) or (st[0] == 'field' and st[2] == '[]')]
            others = [st for st in subterms(a) if is_call(st, ('last', 'nth', 'get', 'iter'))]
            if not firsts or others:
                errs.append('with a single bound the %s position is taken from %s, not from the first path node (identifiers are compared from the first node on)'
                            % (nm, fmt(a, 4)))
        ctx.check(not errs, 'one-bound', body, 'position derived from the first node of the bound', errs[0] if errs else '', line=block_line(it, bb))


@rule('LIST-APPLY', {
    'C12': 'an Insert must insert exactly the op\'s identifier and value (if absent) and a Delete must remove exactly the op\'s identifier',
}, floor=2)
def list_apply(ctx):
    """List::apply under the gate: Insert -> seq gains (op.id, op.val); Delete -> seq loses op.id; nothing else of seq changes."""
    facts = ctx.facts
    from .gates import _gate_eval
    body = ctx.method(LIST, 'CmRDT', 'apply')
    it = interp(facts, body)
    for v, how, want in (('Insert', {'entry', 'insert', 'or_insert', 'or_insert_with'}, 'Insert.id'), ('Delete', {'remove', 'remove_entry'}, 'Delete.id')):
        found = []

        def present(t, want=want):
            # `seq.contains_key(&op.id)` / `seq.get(&op.id).is_some()`: an Insert only has to add an absent identifier
            pr = _presence(t)
            if pr and param_path(versionless(pr[0])) == (1, ('seq',)) and param_path(versionless(pr[1])) \
                    and param_path(versionless(pr[1]))[1][-1:] == (want,):
                return 'present' if pr[2] else ('not', 'present')
            return None
        # (a Delete is judged where its identifier is present; the sequence is then not empty: `if !self.seq.is_empty() { remove }`)
        seq_empty = emptiness_atom({'seq_empty': (1, ('seq',))})
        asm_ = {'present': v == 'Delete'}
        if v == 'Delete':
            asm_['seq_empty'] = False
        rc, _ = _gate_eval(ctx, body, 'crdts::list::Op', v, LT, found,
                           extra_atom=(lambda t: present(t) or seq_empty(t)) if v == 'Delete' else present, extra_asm=asm_)
        good, other = [], []
        for bb, c in it.calls.items():
            if bb not in rc.reachable:
                continue
            info = cinfo(c.cid)
            effs = [e for e in call_effects(facts, it, bb, must_only=True) if e.param == 1 and e.path[:1] == ('seq',)]
            if not effs:
                continue
            ids = [a for a in c.args[1:] if param_path(a.val) and param_path(a.val)[0] == 2 and param_path(a.val)[1][-1:] == (want,)]
            hows = set(e.how for e in effs)
            if ids and hows <= how:
                if v == 'Insert':
                    vals = [a for a in c.args[1:] if param_path(a.val) and param_path(a.val)[1][-1:] == ('Insert.val',)]
                    if not vals:
                        # entry API: the value is handed to or_insert on the entry returned by this call
                        for b3, c3 in it.calls.items():
                            if call_name(c3.term) in ('or_insert', 'or_insert_with', 'insert_entry', 'insert') and c3.args and drop_lv(c3.args[0].val) == drop_lv(c.term):
                                vals = [a for a in c3.args[1:] if param_path(a.val) and param_path(a.val)[1][-1:] == ('Insert.val',)]
                    if vals:
                        good.append(bb)
                    else:
                        other.append((bb, 'the inserted value is not the value of the op'))
                else:
                    good.append(bb)
            else:
                other.append((bb, 'seq is changed by %s with %s' % (sorted(hows), [fmt(a.val, 3) for a in c.args[1:]])))
        errs = []
        if not good or not rc.must_pass(good):
            errs.append('a new %s op does not %s its identifier on every path' % (v, 'insert' if v == 'Insert' else 'remove'))
        if other:
            errs.append('%s arm: %s' % (v, other[0][1]))
        ctx.check(not errs, v, body, 'seq %s (op.id%s)' % ('gains' if v == 'Insert' else 'loses', ', op.val' if v == 'Insert' else ''), errs[0] if errs else '')


@rule('MK-ACCESS', floor=3, **read_attribution({
    'C15': 'node / children / parents are how a reader walks the history: they must answer from the stored node set, for exactly the '
           'asked hash',
}, module='merkle_reg'))
def mk_access(ctx):
    """MerkleReg::node(h) = dag[h] or else orphans[h]; children(h) = the children of dag[h] that are themselves in dag, keyed by
    their hash; parents(h) = every (hash, node) of dag whose children contain h."""
    facts = ctx.facts
    # node
    body = ctx.inherent(MERKLE, 'node')
    alts = []
    r = drop_lv(interp(facts, body).ret)
    ok = False
    if is_call(r, ('or_else', 'or')) and len(r[2]) == 2:
        first = drop_lv(r[2][0])
        second = r[2][1]
        if second[0] == 'closure':
            cb = facts.cb(second[1])
            second = subst(interp(facts, cb).ret, {('upvar', k): v for k, v in enumerate(second[2])}) if cb is not None else second
        second = drop_lv(second)
        def look(t, fld):
            return is_call(t, 'get') and len(t[2]) == 2 and param_path(t[2][0]) == (1, (fld,)) and value_path(drop_lv(t[2][1])) == (2, ())
        ok = look(first, 'dag') and look(second, 'orphans')
    if not ok:
        # the same written as a `match` / early return: decided per outcome of the dag lookup
        def look2(t, fld):
            t = drop_lv(t)
            if is_variant(t, 'option::Option', 'Some'):
                p_ = drop_lv(t[3][0][1])
                t = drop_lv(p_[1]) if p_[0] == 'field' and p_[2] == 'Some.0' else p_
            return is_call(t, 'get') and len(t[2]) == 2 and param_path(t[2][0]) == (1, (fld,)) and value_path(drop_lv(t[2][1])) == (2, ())

        def atom_n(t):
            if t[0] == 'discr' and look2(t[1], 'dag'):
                return ('map', 'has', {True: 1, False: 0})
            if is_call(t, ('is_some', 'is_none')) and t[2] and look2(t[2][0], 'dag'):
                return 'has' if call_name(t) == 'is_some' else ('not', 'has')
            if is_call(t, 'contains_key') and len(t[2]) == 2 and param_path(t[2][0]) == (1, ('dag',)) and value_path(drop_lv(t[2][1])) == (2, ()):
                return 'has'
            return None
        from ..ordset import Reach, Evaluator
        res_ = {}
        for has in (True, False):
            evr_ = Evaluator(facts, bool_atom=atom_n, assumption={'has': has})
            rc_ = Reach(facts, body, evr_)
            rets_ = [b for b in rc_.return_blocks() if b in rc_.reachable]
            ts_ = set()
            for b in rets_:
                for t_ in rc_.reaching_terms(0, b):
                    ts_ |= set(phi_alts(drop_lv(t_)))
            res_[has] = bool(ts_) and all(look2(t_, 'dag' if has else 'orphans') for t_ in ts_) and 'has' in evr_.hits
        ok = res_[True] and res_[False]
    ctx.check(ok, 'node', body, 'dag.get(hash) or else orphans.get(hash)', 'MerkleReg::node is %s, expected dag.get(hash).or_else(|| orphans.get(hash))' % fmt(r, 6))
    # parents: filter over all of dag keeping exactly the nodes whose children contain the asked hash
    body = ctx.inherent(MERKLE, 'parents')
    r = drop_lv(interp(facts, body).ret)
    ok, why = False, 'no filter_map over self.dag feeding the Content'
    for st in subterms(r):
        if is_call(st, ('filter_map', 'filter')) and len(st[2]) == 2 and st[2][1][0] == 'closure':
            base, kind, clo = iter_source(st[2][0])
            if param_path(base) != (1, ('dag',)) or set(iter_adaptors(st[2][0])) & LOSSY_ADAPTORS:
                why = 'the scan does not range over all of self.dag'
                continue
            cb = facts.cb(st[2][1][1])
            m = {('upvar', k): v for k, v in enumerate(st[2][1][2])}

            def atom(t, m=m):
                ts = subst(t, m)
                if is_call(ts, 'contains') and len(ts[2]) == 2:
                    c0 = versionless(ts[2][0])
                    if c0[0] == 'field' and c0[2] == 'children' and value_path(drop_lv(ts[2][1])) == (2, ()):
                        return 'has'
                return None
            vt = closure_value(facts, cb, bool_atom=atom, assumption={'has': True})
            vf_ = closure_value(facts, cb, bool_atom=atom, assumption={'has': False})
            keep_t = (vt is True) or (isinstance(vt, tuple) and vt[0] in ('optsome', 'optord') and vt != ('optnone',))
            keep_f = (vf_ is True) or (isinstance(vf_, tuple) and vf_[0] in ('optsome', 'optord') and vf_ != ('optnone',))
            drop_f = (vf_ is False) or vf_ == ('optnone',)
            ok = keep_t and drop_f and not keep_f
            why = 'a dag node is kept under children.contains(hash)=%s -> %s / %s' % (True, vt, vf_)
    if not ok:
        # loop form: a complete loop over self.dag that puts (hash, node) of the item into the Content's map exactly when
        # the item's children contain the asked hash
        from .loops import loop_collected, item_derived
        from ..ordset import Reach, Evaluator
        it_ = interp(facts, body)
        raw_ = it_.ret
        while raw_[0] in ('lv', 'at'):
            raw_ = raw_[3] if raw_[0] == 'lv' else raw_[2]
        nodes_ = dict(raw_[3]).get('nodes') if raw_[0] == 'agg' and raw_[1].endswith('Content') else None
        lc = loop_collected(facts, body, it_, nodes_, conditional=True) if nodes_ is not None else None
        if lc is not None:
            lp_, vals_, fb_ = lc
            if not lp_.whole_over(1, ('dag',)) or lp_.source()[2]:
                why = 'the scan does not range over all of self.dag'
            else:
                def atom_p(t):
                    if is_call(t, 'contains') and len(t[2]) == 2:
                        c0 = versionless(t[2][0])
                        if c0[0] == 'field' and c0[2] == 'children' and item_derived(c0[1], lp_) and value_path(drop_lv(t[2][1])) == (2, ()):
                            return 'has'
                    return None
                tab_ = {}
                for has in (True, False):
                    rc_ = Reach(facts, body, Evaluator(facts, bool_atom=atom_p, assumption={'has': has}))
                    tab_[has] = (lp_.may(rc_, [fb_]), lp_.must(rc_, [fb_]))
                ok = tab_[True][1] and not tab_[False][0] and all(item_derived(v_, lp_) for v_ in vals_)
                why = 'a dag node is kept under children.contains(hash) -> (may, must) %s' % tab_
    ctx.check(ok, 'parents', body, 'every dag node whose children contain the hash, and no other', 'MerkleReg::parents: ' + why)
    # children: the node under the asked hash, its children looked up in dag
    body = ctx.inherent(MERKLE, 'children')
    raw = interp(facts, body).ret
    rr = raw
    while rr[0] in ('lv', 'at'):
        rr = rr[3] if rr[0] == 'lv' else rr[2]
    r = drop_lv(inline_option_maps(facts, raw))

    def children_of_asked(base):
        b = versionless(base)
        if b[0] == 'field' and b[2] == 'children':
            n = b[1]
            if n[0] == 'field' and n[2] == 'Some.0':
                n = n[1]
            if n == ('param', 2):     # closure parameter standing for the looked-up node (Option::map)
                return True
            return is_call(n, 'get') and len(n[2]) == 2 and param_path(n[2][0]) == (1, ('dag',)) and value_path(drop_lv(n[2][1])) == (2, ())
        return False
    ok = False
    # the Content may be built in one place, or separately per arm (`match dag.get(h) { Some(n) => content(..), None => empty }`)
    cont_alts = []
    for ca in (list(rr[1]) if rr[0] == 'phi' else [rr]):
        while ca[0] in ('lv', 'at'):
            ca = ca[3] if ca[0] == 'lv' else ca[2]
        cont_alts.append(ca)
    if cont_alts and all(ca[0] == 'agg' and ca[1].endswith('Content') for ca in cont_alts):
        alts = []
        for ca in cont_alts:
            nv = inline_option_maps(facts, dict(ca[3]).get('nodes'))
            while nv[0] == 'at':
                nv = nv[2]
            alts += list(nv[1]) if nv[0] == 'phi' else [nv]
        # an alternative that is literally an empty map (not a local that starts empty and is filled in a loop)
        full = [a for a in alts if not (a[0] == 'call' and call_name(a) in ('new', 'default') and not a[2])]
        looked = any(is_call(st, 'get') and len(st[2]) == 2 and param_path(st[2][0]) == (1, ('dag',)) and value_path(drop_lv(st[2][1])) == (2, ())
                     for st in subterms(drop_lv(inline_option_maps(facts, raw)))) or \
            any(is_call(c_.term, 'get') and len(c_.args) == 2 and param_path(c_.args[0].val) == (1, ('dag',)) and value_path(drop_lv(c_.args[1].val)) == (2, ())
                for c_ in interp(facts, body).calls.values())
        ok = bool(full) and looked and all(_dag_lookup_map(facts, body, a, children_of_asked) for a in full)
    ctx.check(ok, 'children', body, 'children of dag[hash], each looked up in dag under its own hash',
              'MerkleReg::children is %s, expected the children of dag.get(hash) looked up in dag' % fmt(r, 6))


@rule('ID-RATIONAL', {
    'C14': 'the position of a new identifier node must lie strictly between the neighbouring positions it was given: above the low one, '
           'below the high one, and between the two when both are given',
    'C12': 'List allocates every position through this function',
}, floor=4)
def id_rational(ctx):
    """rational_between(low, high): (None, None) -> a constant; (Some l, None) -> l + (positive constant); (None, Some h) ->
    h - (positive constant); (Some l, Some h) -> (l + h) / 2."""
    facts = ctx.facts
    body = facts.body('crdts::identifier::rational_between')
    if body is None:
        raise MissingAnchor('identifier::rational_between not found')
    ctx.analysed.add(body.key)

    def have(t):
        if t[0] == 'discr' and versionless(t[1]) in (('param', 1), ('param', 2)):
            return ('map', 'n%d' % versionless(t[1])[1], {True: 1, False: 0})
        return None
    L, H = ('field', ('param', 1), 'Some.0'), ('field', ('param', 2), 'Some.0')

    def pos_const(t):
        t = drop_lv(t)
        return (t[0] == 'call' and call_name(t) == 'one' and not t[2]) or (t[0] == 'const' and isinstance(t[1], int) and t[1] > 0)

    def two(t):
        t = drop_lv(t)
        while t[0] == 'call' and call_name(t) in ('from_integer', 'into', 'from') and len(t[2]) == 1:
            t = drop_lv(t[2][0])
        return t[0] == 'const' and t[1] == 2

    def shape(v, lo, hi):
        v = drop_lv(v)
        b2 = (v[0] == 'call' and len(v[2]) == 2) and (call_name(v), versionless(v[2][0]), v[2][1])
        if not lo and not hi:
            return not any(st[0] == 'param' for st in subterms(v))
        if lo and not hi:
            return bool(b2) and b2[0] == 'add' and ((b2[1] == L and pos_const(b2[2])) or (versionless(b2[2]) == L and pos_const(v[2][0])))
        if hi and not lo:
            return bool(b2) and b2[0] == 'sub' and b2[1] == H and pos_const(b2[2])
        if bool(b2) and b2[0] == 'div' and two(b2[2]):
            s_ = drop_lv(v[2][0])
            return s_[0] == 'call' and call_name(s_) == 'add' and len(s_[2]) == 2 and {versionless(s_[2][0]), versionless(s_[2][1])} == {L, H}
        return False
    for lo in (False, True):
        for hi in (False, True):
            evr = Evaluator(facts, bool_atom=have, assumption={'n1': lo, 'n2': hi})
            v = ret_value(facts, body, evr)
            it = interp(facts, body)
            rc = Reach(facts, body, evr)
            vals = [w.val for (bb, si), w in it.ret_assigns.items() if bb in rc.reachable]
            name = '%s,%s' % ('low' if lo else '-', 'high' if hi else '-')
            ok = bool(vals) and all(shape(x, lo, hi) for a in vals for x in phi_alts(drop_lv(a)))
            ctx.check(ok, name, body, {(False, False): 'a constant', (True, False): 'low + 1', (False, True): 'high - 1', (True, True): '(low + high) / 2'}[(lo, hi)],
                      'rational_between(%s) returns %s' % (name, [fmt(drop_lv(a), 5) for a in vals][:2]))
