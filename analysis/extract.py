"""Run the rustc_private fact extractor over /repo (or a variant source tree).

Freshness protocol: the crdts fingerprint in the cached target directory is
removed before every run so cargo must re-invoke the wrapper, the driver stamps
a per-run nonce into the fact file, and we refuse to continue (InfraError ->
exit 2, no verdict) if the file is missing or the nonce is stale.
"""
import fcntl
import glob
import json
import os
import shutil
import subprocess
import sys
import time
import uuid

VERIF = os.path.dirname(os.path.dirname(os.path.abspath(__file__)))
REPO = os.environ.get("CRDT_REPO", "/repo")
CACHE = os.path.join(VERIF, ".cache")
DRIVER = os.path.join(VERIF, "driver", "target", "debug", "crdt-facts")

FEATURE_SETS = {
    "default": [],
    "noqc": ["--no-default-features", "--features", "num,merkle"],
    # the release profile: cfg(debug_assertions) is off, so code that differs between the profile the tests run in and the
    # profile users ship is analysed in both
    "release": ["--release"],
}


class InfraError(Exception):
    pass


def nightly_sysroot():
    try:
        out = subprocess.run(["rustc", "+nightly", "--print", "sysroot"], capture_output=True, text=True, check=True)
    except Exception as e:  # pragma: no cover
        raise InfraError("nightly toolchain not available: %s" % e)
    return out.stdout.strip()


def base_env():
    env = dict(os.environ)
    env["LD_LIBRARY_PATH"] = os.path.join(nightly_sysroot(), "lib") + ":" + env.get("LD_LIBRARY_PATH", "")
    env["CARGO_NET_OFFLINE"] = "true"
    env["RUSTFLAGS"] = "-Zmir-opt-level=0 -Awarnings"
    env.pop("RUSTC_WRAPPER", None)
    return env


def ensure_driver():
    if os.path.exists(DRIVER):
        src_m = max(os.path.getmtime(p) for p in glob.glob(os.path.join(VERIF, "driver", "src", "*.rs")))
        if os.path.getmtime(DRIVER) >= src_m:
            return
    env = dict(os.environ)
    env["CARGO_NET_OFFLINE"] = "true"
    r = subprocess.run(["cargo", "build", "--offline"], cwd=os.path.join(VERIF, "driver"), env=env,
                       capture_output=True, text=True)
    if r.returncode != 0 or not os.path.exists(DRIVER):
        raise InfraError("driver build failed:\n" + r.stderr[-3000:])


def extract(feature_set="default", repo=None, want_cmdline=False):
    """Returns (facts dict, info dict). Raises InfraError when no verdict is possible."""
    repo = repo or REPO
    ensure_driver()
    os.makedirs(CACHE, exist_ok=True)
    tdir = os.path.join(CACHE, "target-" + feature_set)
    nonce = uuid.uuid4().hex
    out = os.path.join(CACHE, "facts-%s-%d-%s.json" % (feature_set, os.getpid(), nonce[:8]))
    env = base_env()
    env["RUSTC_WORKSPACE_WRAPPER"] = DRIVER
    env["CRDT_FACTS_OUT"] = out
    env["CRDT_FACTS_NONCE"] = nonce
    env["CARGO_TARGET_DIR"] = tdir
    cmd = ["cargo", "+nightly", "check", "--offline", "--lib", "--manifest-path", os.path.join(repo, "Cargo.toml")]
    if want_cmdline:
        cmd.append("-v")
    cmd += FEATURE_SETS[feature_set]
    t0 = time.time()
    lockf = open(os.path.join(CACHE, "lock-" + feature_set), "w")
    fcntl.flock(lockf, fcntl.LOCK_EX)
    try:
        for fp in glob.glob(os.path.join(tdir, "*", ".fingerprint", "crdts-*")):
            shutil.rmtree(fp, ignore_errors=True)
        r = subprocess.run(cmd, env=env, capture_output=True, text=True)
    finally:
        fcntl.flock(lockf, fcntl.LOCK_UN)
        lockf.close()
    if r.returncode != 0:
        raise InfraError("cargo check of %s failed (the tree does not compile?):\n%s" % (repo, r.stderr[-4000:]))
    if not os.path.exists(out):
        raise InfraError("fact file was not produced (wrapper skipped?)\n" + r.stderr[-2000:])
    try:
        with open(out) as f:
            facts = json.load(f)
    finally:
        try:
            os.remove(out)
        except OSError:
            pass
    if facts.get("nonce") != nonce:
        raise InfraError("stale fact file: nonce mismatch")
    info = {"feature_set": feature_set, "wall_s": round(time.time() - t0, 2), "repo": repo,
            "bodies": len(facts["bodies"])}
    if want_cmdline:
        info["rustc_cmdline"] = None
        for line in r.stderr.splitlines():
            line = line.strip()
            if line.startswith("Running `") and "--crate-name crdts" in line:
                info["rustc_cmdline"] = line[len("Running `"):-1]
    return facts, info


_CMDLINE = {}


def rustc_cmdline(feature_set="default"):
    """The exact rustc command line cargo uses for the crdts lib (captured from `cargo check -v`)."""
    if feature_set not in _CMDLINE:
        facts, info = extract(feature_set, want_cmdline=True)
        if not info.get("rustc_cmdline"):
            raise InfraError("could not capture the rustc command line from cargo -v")
        _CMDLINE[feature_set] = info["rustc_cmdline"]
    return _CMDLINE[feature_set]


def extract_variant(src_root, cmdline, feature_set="default"):
    """Analyse a variant source tree (directory containing src/lib.rs) without cargo: re-issue the captured rustc
    command through the driver with only the source root and the output directory changed.  Dependencies are read
    from the shared target directory (read-only); nothing is executed."""
    import shlex
    argv = shlex.split(cmdline)
    # argv[0] = driver (wrapper), argv[1] = real rustc
    out_dir = os.path.join(src_root, "out")
    os.makedirs(out_dir, exist_ok=True)
    new = []
    skip = False
    for i, a in enumerate(argv):
        if skip:
            skip = False
            continue
        if a == "src/lib.rs":
            new.append(os.path.join(src_root, "src", "lib.rs"))
        elif a == "--out-dir":
            new += ["--out-dir", out_dir]
            skip = True
        elif a == "-C" and i + 1 < len(argv) and argv[i + 1].startswith("incremental="):
            skip = True
        elif a.startswith("--error-format") or a.startswith("--json"):
            continue
        else:
            new.append(a)
    nonce = uuid.uuid4().hex
    out = os.path.join(src_root, "facts.json")
    env = base_env()
    env["CRDT_FACTS_OUT"] = out
    env["CRDT_FACTS_NONCE"] = nonce
    r = subprocess.run(new, env=env, cwd=src_root, capture_output=True, text=True)
    if r.returncode != 0:
        raise InfraError("variant does not compile:\n" + r.stderr[-3000:])
    if not os.path.exists(out):
        raise InfraError("variant fact file missing")
    with open(out) as f:
        facts = json.load(f)
    if facts.get("nonce") != nonce:
        raise InfraError("stale variant fact file")
    return facts


if __name__ == "__main__":
    fs = sys.argv[1] if len(sys.argv) > 1 else "default"
    facts, info = extract(fs)
    print(json.dumps(info))
    if len(sys.argv) > 2:
        json.dump(facts, open(sys.argv[2], "w"))
