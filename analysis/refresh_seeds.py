"""Re-run the registered check of every recorded seeded change against /repo (apply patch, ./check <prop> quick, undo)
and refresh the detection fields of seeded/<id>/meta.json.  The verification fields (demo, test suite) are left as recorded.
usage: python3 -m analysis.refresh_seeds [id ...]"""
import json
import os
import subprocess
import sys

from . import core, seedcheck

VERIF = core.VERIF


def main():
    only = set(sys.argv[1:])
    sd = os.path.join(VERIF, 'seeded')
    st = subprocess.run(['git', '-C', '/repo', 'status', '--porcelain', '--untracked-files=no'], capture_output=True, text=True).stdout.strip()
    if st:
        print('refusing: /repo has local changes'); sys.exit(2)
    touched = set()
    for name in sorted(os.listdir(sd)):
        mp = os.path.join(sd, name, 'meta.json')
        if not os.path.exists(mp) or (only and name not in only):
            continue
        meta = json.load(open(mp))
        pid = meta['breaks_property']
        patch = os.path.join(sd, name, 'patch.diff')
        bad, err = seedcheck.run(patch)
        meta['caught_by_rules'] = sorted(set('%s/%s' % (r.rule, r.instance) for r in (bad or [])))
        meta['properties_reporting'] = sorted(set(p for r in (bad or []) for p in seedcheck.core_props(r)))
        subprocess.run(['git', '-C', '/repo', 'apply', patch], check=True)
        try:
            r = subprocess.run(['./check', pid, 'quick'], cwd=VERIF, capture_output=True, text=True)
        finally:
            subprocess.run(['git', '-C', '/repo', 'checkout', '--', '.'], check=True)
        touched.add(pid)
        meta['check_on_repo'] = {'cmd': './check %s quick' % pid, 'exit': r.returncode,
                                 'violation_lines': [l for l in r.stdout.splitlines() if 'rule ' in l or l.startswith('VIOLATION')][:6]}
        meta['detected'] = r.returncode == 1
        json.dump(meta, open(mp, 'w'), indent=1)
        print(name, 'detected' if meta['detected'] else 'MISSED', meta['caught_by_rules'][:4])
    for pid in sorted(touched):   # restore the evidence of the unchanged tree
        subprocess.run(['./check', pid, 'quick'], cwd=VERIF, capture_output=True, text=True)


if __name__ == '__main__':
    main()
