"""Self-test of the checker: each mutant is a small source edit applied to a scratch copy of the
*current* /repo (under $TMPDIR, never /repo or /verif), analysed statically with the same driver
and rules, then deleted.  A mutant whose pattern no longer applies is skipped; one that does not
type-check is reported invalid.  Nothing of crdts is executed."""
import json
import os
import shutil
import sys
import tempfile
import time
from concurrent.futures import ThreadPoolExecutor

from . import core, extract, facts as F, interp as I, summaries as S
from . import rules  # noqa

VERIF = core.VERIF


def load_mutants():
    ms = []
    d = os.path.join(VERIF, 'selftest')
    for fn in sorted(os.listdir(d)):
        if fn.endswith('.json'):
            ms.extend(json.load(open(os.path.join(d, fn))))
    # independently written behaviour-preserving refactorings (sub-agents), kept as patches: must stay silent
    bd = os.path.join(d, 'benign_patches')
    if os.path.isdir(bd):
        for fn in sorted(os.listdir(bd)):
            if fn.endswith('.diff'):
                ms.append({'id': 'refac:' + fn[:-5], 'props': [], 'benign': True, 'patch': os.path.join(bd, fn), 'expect': []})
    # behaviour-preserving rewrites outside the recognised idiom set: run and reported, never counted as a failure
    rd = os.path.join(d, 'rb_patches')      # refactored-breaking variants kept as whole patches (a benign rewrite plus one break)
    if os.path.isdir(rd):
        for fn in sorted(os.listdir(rd)):
            if fn.endswith('.diff'):
                ms.append({'id': 'rbp:' + fn[:-5], 'props': [], 'patch': os.path.join(rd, fn), 'expect': [['*', '*']]})
    ud = os.path.join(d, 'unrecognised_patches')
    if os.path.isdir(ud):
        for fn in sorted(os.listdir(ud)):
            if fn.endswith('.diff'):
                ms.append({'id': 'unrec:' + fn[:-5], 'props': [], 'benign': True, 'unrecognised': True, 'patch': os.path.join(ud, fn), 'expect': []})
    # independently written breaking changes (sub-agents), kept as patches
    sd = os.path.join(VERIF, 'seeded')
    if os.path.isdir(sd):
        for name in sorted(os.listdir(sd)):
            mp = os.path.join(sd, name, 'meta.json')
            if not os.path.exists(mp):
                continue
            meta = json.load(open(mp))
            exp = []
            for c in meta.get('caught_by_rules', []):
                rule_id, _, inst = c.partition('/')
                exp.append([rule_id, inst])
            # a seeded change must make the check of the property it breaks fail (whichever rule of that property fires)
            ms.append({'id': 'seed:' + name, 'props': sorted(set([meta['breaks_property']] + meta.get('properties_reporting', []))),
                       'patch': os.path.join(sd, name, 'patch.diff'), 'expect': [['*', '*']], 'expect_prop': meta['breaks_property']})
    return ms


def make_variant(mut, repo=None):
    repo = repo or extract.REPO
    tmp = tempfile.mkdtemp(prefix='crdt-selftest-')
    shutil.copytree(os.path.join(repo, 'src'), os.path.join(tmp, 'src'))
    for f in ('Cargo.toml', 'Cargo.lock'):
        shutil.copy(os.path.join(repo, f), os.path.join(tmp, f))
    if 'patch' in mut:
        import subprocess
        r = subprocess.run(['patch', '-p1', '-s', '-i', mut['patch']], cwd=tmp, capture_output=True, text=True)
        if r.returncode != 0:
            shutil.rmtree(tmp, ignore_errors=True)
            return None, 'patch does not apply'
        return tmp, None
    edits = mut['edits'] if 'edits' in mut else [mut]
    for e in edits:
        p = os.path.join(tmp, e['file'])
        src = open(p).read()
        n = src.count(e['find'])
        want = e.get('count', 1)
        if n != want:
            shutil.rmtree(tmp, ignore_errors=True)
            return None, 'pattern occurs %d times, expected %d' % (n, want)
        src = src.replace(e['find'], e['replace'])
        open(p, 'w').write(src)
    return tmp, None


def run_mutant(mut, feature_set='default', cmdline=None):
    tmp, why = make_variant(mut)
    if tmp is None:
        return {'id': mut['id'], 'status': 'skipped', 'why': why}
    try:
        try:
            if cmdline:
                fd = extract.extract_variant(tmp, cmdline, feature_set)
            else:
                fd, info = extract.extract(feature_set, repo=tmp)
        except extract.InfraError as e:
            return {'id': mut['id'], 'status': 'invalid', 'why': str(e)[-400:]}
        facts = F.Facts(fd)
        ctx = core.Ctx(facts, feature_set)
        only = set(r for r, _ in mut['expect']) if mut.get('expect') else None
        if only and '*' in only:
            only = None
        if mut.get('restrict_props'):
            for p_ in mut['restrict_props']:
                core.run_rules(ctx, prop=p_)
        elif mut.get('expect_prop'):
            core.run_rules(ctx, prop=mut['expect_prop'])
            ctx.results[:] = [r for r in ctx.results if mut['expect_prop'] in (r.props if r.props is not None else
                              [p for rd in core.RULES if rd.id == r.rule for p in rd.props])]
        else:
            core.run_rules(ctx, only=only)
        bad = [r for r in ctx.results if r.status in ('violation', 'shape')]
        known, _ = core.load_known()
        kk = set(k for _, k in known)
        bad = [r for r in bad if r.key not in kk]     # the known findings of the unchanged tree never count as a detection
        if mut.get('benign'):
            if mut.get('unrecognised'):
                return {'id': mut['id'], 'status': 'unrecognised' if bad else 'recognised',
                        'reports': ['%s %s/%s: %s' % (r.status, r.rule, r.instance, r.msg) for r in bad][:6]}
            return {'id': mut['id'], 'status': 'false-alarm' if bad else 'silent',
                    'reports': ['%s %s/%s: %s' % (r.status, r.rule, r.instance, r.msg) for r in bad][:6]}
        fired = []
        for rule_id, inst in mut.get('expect', []):
            hit = [r for r in bad if (r.rule == rule_id or rule_id == '*') and (inst in r.instance or inst == '*')]
            if not hit and len(core.VIEWS) == 1:
                # single-view soundness run: the view is sound for this change as long as the rule cannot pass in it
                hit = [r for r in bad if r.rule == rule_id]
            fired.append(bool(hit))
        return {'id': mut['id'], 'status': 'fired' if fired and all(fired) else 'missed',
                'reports': ['%s %s/%s: %s' % (r.status, r.rule, r.instance, r.msg) for r in bad][:6]}
    finally:
        shutil.rmtree(tmp, ignore_errors=True)


def run_all(props=None, ids=None, jobs=14):
    ms = load_mutants()
    if props:
        # the independent refactoring patches carry no property list: they take part in every property's thorough run,
        # judged by the rules of that property only
        ms = [dict(m, restrict_props=list(props)) if (m.get('benign') and not m.get('props')) else m
              for m in ms if set(m.get('props', [])) & set(props) or (m.get('benign') and not m.get('props'))]
    if ids:
        ms = [m for m in ms if m['id'] in ids]
    t0 = time.time()
    if not ms:
        return [], 0.0
    cmdlines = {c: extract.rustc_cmdline(c) for c in sorted(set(m.get('config', 'default') for m in ms))}
    from concurrent.futures import ProcessPoolExecutor
    with ProcessPoolExecutor(max_workers=min(jobs, len(ms))) as ex:
        out = list(ex.map(_run_one, [(m, cmdlines[m.get('config', 'default')]) for m in ms]))
    return out, time.time() - t0


def _purge_caches():
    """Per-variant analysis caches are keyed by the variant's fact serial: nothing of one variant is reused by the next, so a
    worker that runs hundreds of variants drops them after each (they are several hundred MB per variant otherwise)."""
    from . import interp as I, inline as L, summaries as S
    I._INTERP_CACHE.clear()
    I._CACHE.clear()
    L._cache.clear()
    S._memo.clear()
    S._must_memo.clear()
    S._in_progress.clear()
    import gc
    gc.collect()


def _run_one(arg):
    m, cmdline = arg
    try:
        return run_mutant(m, feature_set=m.get('config', 'default'), cmdline=cmdline)
    except Exception as e:  # pragma: no cover
        return {'id': m['id'], 'status': 'invalid', 'why': 'internal: %r' % e}
    finally:
        _purge_caches()


if __name__ == '__main__':
    if '--view' in sys.argv:
        i = sys.argv.index('--view')
        core.VIEWS[:] = [sys.argv[i + 1]]
        del sys.argv[i:i + 2]
    ids = set(a for a in sys.argv[1:] if not a.startswith('-')) or None
    res, dt = run_all(ids=ids)
    for r in res:
        print('%-8s %s  %s' % (r['status'], r['id'], r.get('why', '')))
        if r['status'] != 'skipped' and ('-v' in sys.argv or r['status'] in ('missed', 'false-alarm')):
            for x in r.get('reports', []):
                print('         ', x)
    print('%d fired / %d breaking; %d silent / %d benign; (%d total) in %.1fs' % (
        sum(r['status'] == 'fired' for r in res), sum(r['status'] in ('fired', 'missed') for r in res),
        sum(r['status'] == 'silent' for r in res), sum(r['status'] in ('silent', 'false-alarm') for r in res), len(res), dt))
