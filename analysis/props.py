"""Per-property statement of what is decided (clause) and what is not.  The rule table itself lives in rules/*;
a rule serves a property iff the property id is in the rule's `props` dict (with its necessity argument)."""

PROPS = {
    'C02': {
        'explanation': 'Clause decided: operand symmetry and monotone absorption of merge. For the lattice-shaped types every part of `other` '
                       'reaches `self` through a guard that only keeps the larger/union (VC-MERGE, GC-DELEGATE, CNT-ROUTE, GSET-GLIST, LWW/MAXMIN-UPDATE '
                       'and -ROUTE, MK-MERGE); for Orswot/Map the two one-sided branches use mirrored drop decisions on pre-merge clocks and the '
                       'both-present formula is symmetric (MERGE-DROP, MERGE-COMMON); for MVReg the pairwise keep/drop table is symmetric and '
                       'idempotent (MRG-MVREG). All decided over every MIR path, i.e. every input.',
        'decides': 'MRG-ABSORB instances (9 types), MERGE-DROP x4, MERGE-COMMON x2, MRG-MVREG',
        'not_decided': 'associativity, and the laws on reachable Map states (known to fail on a three-op history; no structural signature)',
    },
    'C03': {
        'explanation': 'Clause decided: a merged state cannot lack what the ops behind `other` carry — data (absorption rules), removals '
                       '(MERGE-DROP, MERGE-COMMON), pending removes (DEF-MERGE), clock (ABSORB-MERGE), nested resets (MAP-RESET-PAIR), '
                       'MerkleReg dag and orphans re-applied as ops (MK-MERGE).',
        'decides': 'absorption of everything in other, ABSORB-MERGE, MERGE-DROP/COMMON, DEF-MERGE, MAP-RESET-PAIR, MK-MERGE',
        'not_decided': 'the equivalence merge == op delivery itself (fails today for Map on a same-actor reset-remove history)',
    },
    'C04': {
        'explanation': 'Clause decided: witness bookkeeping of Orswot add / rm / merge / contains: gated stamping of every member (GATE, STAMP), '
                       'remove subtracts exactly the op clock and prunes on empty (RM, VC-RESET), merge decisions and common-dots formula '
                       '(MERGE-DROP, MERGE-COMMON, VC-INTERSECT), no empty witness is kept (RR-PRUNE), read contexts come from the member clock '
                       '(CTX-READ), op constructors use ctx.dot / ctx.clock (CTX-OPS).',
        'decides': 'GATE, ABSORB, STAMP, RM, MERGE-DROP, MERGE-COMMON, RR-PRUNE, CTX-READ, CTX-OPS, VC-RESET, VC-INTERSECT (Orswot instances)',
        'not_decided': 'membership for every history as a behavioural statement',
    },
    'C05': {
        'explanation': 'Clause decided: entry-clock bookkeeping of Map and propagation of resets to the nested value: gated Up stamps the entry '
                       'clock and forwards the nested op (GATE, STAMP), key remove subtracts the op clock, prunes, and resets the nested value '
                       'with the same clock (RM), merge decisions/formula (MERGE-DROP, MERGE-COMMON), nested value reset wherever an entry is '
                       'kept with a reduced clock (MAP-RESET-PAIR, RR-COVER), read contexts (CTX-READ), op constructors (CTX-OPS).',
        'decides': 'GATE, ABSORB, STAMP, RM, MERGE-DROP, MERGE-COMMON, MAP-RESET-PAIR, RR-COVER, RR-PRUNE, CTX-READ, CTX-OPS (Map instances)',
        'not_decided': 'the multi-step contents of nested values (two histories fail today: the nested context carries dots the entry clock lacks)',
    },
    'C06': {
        'explanation': 'Clause decided: the dominance filters of MVReg: Put evicts exactly the values it dominates or equals (MV-EVICT), is stored '
                       'iff no existing clock is strictly greater (MV-IGNORE), write() carries the whole context clock (MV-WRITE), read returns '
                       'every value with the join of all value clocks (MV-READ), merge keeps the undominated values of both sides once '
                       '(MRG-MVREG); VClock::partial_cmp is the pointwise order (VC-PCMP).',
        'decides': 'MV-EVICT, MV-IGNORE, MV-WRITE, MV-READ, MRG-MVREG, VC-PCMP',
        'not_decided': 'the behavioural statement over all delivery orders',
    },
    'C07': {
        'explanation': 'Clause decided: provenance of every context field: 13 read entry points (CTX-READ 11 + MV-READ 2), derive_add_ctx / '
                       'derive_rm_ctx / split (CTX-DERIVE), op constructors (CTX-OPS, MV-WRITE), the dot is get+1 (VC-INC), every gated apply '
                       'and every merge absorbs into the replica clock (ABSORB, ABSORB-MERGE), reads and op constructors write nothing (CTX-PURE).',
        'decides': 'CTX-READ, MV-READ, CTX-DERIVE, CTX-OPS, MV-WRITE, VC-INC, ABSORB, ABSORB-MERGE, CTX-PURE',
        'not_decided': 'exactness of contexts for values nested inside a Map (excluded by the property) and as a behavioural statement',
    },
    'C08': {
        'explanation': 'Clause decided: defer decision, re-examination and travel of pending removes: a remove is remembered under {Gt, None} of '
                       '(rm clock, replica clock) (DEF-DECIDE must), re-examined after every clock growth (DEF-REEXAM), the table is taken then '
                       'replayed (DEF-TAKE), pending removes travel with merge (DEF-MERGE), the replay goes through the same remove routine (RM); '
                       'MVReg part: MV-EVICT, MV-IGNORE; MerkleReg: MK-REEXAM.',
        'decides': 'DEF-DECIDE(must), DEF-REEXAM, DEF-TAKE, DEF-MERGE, RM, MV-EVICT, MV-IGNORE, MK-REEXAM, VC-PCMP',
        'not_decided': 'that the final result equals what causal delivery would have produced, for every schedule',
    },
    'C09': {
        'explanation': 'Clause decided: dedup gates, clock absorption, merge drop decisions: every state write of a dot-carrying apply arm is '
                       'reachable only when clock.get(actor) < dot.counter (GATE x4, GATE-MERKLE), the dot is always absorbed into the replica '
                       'clock (ABSORB, ABSORB-MERGE), an entry only the other side has is adopted only when our clock does not cover it and '
                       'ours is dropped exactly when theirs covers it (MERGE-DROP, MERGE-COMMON), a stale dot never lowers a counter (VC-APPLY), '
                       'MVReg duplicates are not re-stored (MV-EVICT, MV-IGNORE).',
        'decides': 'GATE, GATE-MERKLE, ABSORB, ABSORB-MERGE, MERGE-DROP, MERGE-COMMON, VC-APPLY, MV-EVICT, MV-IGNORE',
        'not_decided': 'the behavioural statement "nothing observable changes" for every history; multi-step Map histories',
    },
    'C10': {
        'explanation': 'Clause decided: polarity and operands of every VClock/Dot primitive: apply, reset_remove, intersection, glb, validate_op, '
                       'inc, merge, clone_without, partial_cmp (4 results + scans), concurrent, Dot::partial_cmp; the accessors the rest stands on '
                       '(get = stored or 0, is_empty, dot, iter, into_iter, from_iter, From<Dot>); and a dataflow proof that every counter '
                       'stored into a dots map anywhere in the crate is non-zero at the store.',
        'decides': 'VC-APPLY, VC-RESET, VC-INTERSECT, VC-WITHOUT, VC-GLB, VC-VALIDATE, VC-INC, VC-MERGE, VC-PCMP x4, VC-CONC, DOT-PCMP, VC-ACCESS x7, VC-NOZERO',
        'not_decided': 'the order-theoretic laws as theorems (they follow on paper from the per-actor comparisons decided here)',
    },
    'C11': {
        'explanation': 'Clause decided: operand routing and guard polarity of counters and registers: GCounter::read sums every dot, PNCounter '
                       'read = read(p) - read(n), Dir<->field routing in apply/validate_op/inc/dec/inc_many/dec_many, componentwise '
                       'merge/reset/validate_merge, inc = get+1, inc_many = steps + get, LWW update guard (must under <, never under >) and '
                       'conflict condition (also on every validate path), Max/Min guards, delegation of merge/apply to the guarded update, GSet union, '
                       'plain reads return the retained field.',
        'decides': 'CNT-READ, CNT-ROUTE, CNT-STEP, GC-DELEGATE, VC-APPLY, VC-MERGE, VC-INC, VC-ACCESS(iter,get), LWW-UPDATE, LWW-CONFLICT, LWW-ROUTE, MAXMIN-UPDATE, MAXMIN-ROUTE, GSET-GLIST, READ-PLAIN',
        'not_decided': 'numeric results (u64 overflow of counters is a runtime quantity)',
    },
    'C12': {
        'explanation': 'Clause decided: dedup gate of List::apply (both op variants), absorption of the op dot, fresh-dot tagging of '
                       'insert_index/delete_index and agreement of Op::dot() with the identifier marker (value and into_value), the identifier '
                       'comparison table, and reads that walk the whole identifier-ordered map.',
        'decides': 'GATE(list), ABSORB(list), LIST-TAG, LIST-APPLY, LIST-READ, VC-INC, ID-CMP, ID-MARKER, ID-BETWEEN',
        'not_decided': 'that positions are consistent across replicas (depends on the values Identifier::between produces)',
    },
    'C14': {
        'explanation': 'Clause decided: the decision table of Identifier::cmp over (self has node, other has node, node ordering): Equal for two '
                       'exhausted paths, antisymmetric prefix rule, node ordering decides with the right orientation, equal nodes continue; '
                       'partial_cmp == Some(cmp).',
        'decides': 'ID-CMP, ID-PCMP, ID-MARKER (every identifier between() builds ends with the caller\'s marker), ID-BETWEEN (sibling shortcut only for l_m < marker < h_m; one-bound position from the first node)',
        'not_decided': 'density of between() as a whole (the midpoint arithmetic is value-level); two structural clauses of it are decided',
    },
    'C15': {
        'explanation': 'Clause decided: MerkleReg gate, dag/orphan routing by "all children in dag", orphan re-examination after a node becomes '
                       'visible (provenance of the re-applied node), merge re-applies dag and orphans, read = roots looked up in dag, validate_op '
                       'uses the same presence notion, a node\'s identity is the digest of every child and its value.',
        'decides': 'GATE-MERKLE, MK-ROUTE, MK-REEXAM, MK-MERGE, MK-READ, MK-VALIDATE, MK-HASH',
        'not_decided': 'collisions of the hash function itself and the behavioural statement over all arrival orders',
    },
    'C16': {
        'explanation': 'Clause decided: what validate_op consults and under which outcome Err is returned: sibling cross-check of validate_op '
                       'against the apply gate (VAL-SIBLING), VClock::validate_op rejects exactly counter > get+1 (VC-VALIDATE), removes are '
                       'accepted (VAL-RM-OK), Map forwards the nested op (VAL-NESTED), MerkleReg child presence (MK-VALIDATE), LWW conflict '
                       '(LWW-CONFLICT, LWW-ROUTE), order-free types have Validation = Infallible (VAL-INFALLIBLE).',
        'decides': 'VAL-SIBLING, VC-VALIDATE, VAL-RM-OK, VAL-NESTED, MK-VALIDATE, LWW-CONFLICT, LWW-ROUTE, VAL-INFALLIBLE, CNT-ROUTE(validate_op)',
        'not_decided': 'acceptance of every in-order op as a behavioural statement over all reachable states',
    },
    'C17': {
        'explanation': 'Clause decided: the error condition of validate_merge and its consistency with how dots are stamped: DoubleSpentDot exactly '
                       'under (different element, equal counter) over all pairs and dots, Map recursion exactly for equal keys with concurrent '
                       'clocks (VM-COND), LWW marker conflict (LWW-CONFLICT, LWW-ROUTE), the one-dot-one-element belief is contradicted by apply '
                       '(VM-BELIEF: fires on Orswot add_all = known finding), conflict-free types have Validation = Infallible.',
        'decides': 'VM-COND, VM-BELIEF, LWW-CONFLICT, LWW-ROUTE, VAL-INFALLIBLE, VC-CONC, CNT-ROUTE(validate_merge)',
        'not_decided': 'symmetry of the verdict in both directions and completeness for deliberate actor reuse, as behavioural statements',
    },
    'C18': {
        'explanation': 'Clause decided: per-actor subtraction (VC-RESET: removed exactly under c.counter >= self.get(actor)), coverage of every '
                       'clock-carrying field by every ResetRemove impl (RR-COVER, GC-DELEGATE, CNT-ROUTE), pruning of emptied elements, pending '
                       'removes and register values (RR-PRUNE).',
        'decides': 'VC-RESET, RR-COVER, RR-PRUNE, GC-DELEGATE, CNT-ROUTE(reset_remove)',
        'not_decided': 'the algebraic identities (c1 then c2 = join; idempotence) — they follow on paper from VC-RESET being per-actor >=',
    },
    'C19': {
        'explanation': 'Clause decided: wire-format well-formedness read from the derived Serialize/Deserialize MIR bodies: every state/op type has '
                       'both impls (SER-BOTH), every field is written and required (SER-ALLFIELDS), no field is a JSON map with a structured key '
                       '(SER-MAPKEY: fires on Orswot.deferred and Map.deferred = known findings), the pair-list helper is symmetric (SER-WITH-SYM), op enums are externally tagged (SER-ENUM-EXT).',
        'decides': 'SER-BOTH, SER-ALLFIELDS, SER-MAPKEY, SER-WITH-SYM, SER-ENUM-EXT',
        'not_decided': 'value equality and behavioural identity after a round-trip (runtime quantities)',
    },
    'C20': {
        'explanation': 'Clause decided: no residue is stored: no empty witness survives a remove, a merge or a reset (RM/prune, MERGE-COMMON/prune, '
                       'MERGE-DROP, RR-PRUNE), a covered remove is never stored as pending (DEF-DECIDE may), covered pending removes disappear '
                       'at re-examination (DEF-TAKE, DEF-REEXAM).',
        'decides': 'RM(prune), MERGE-COMMON(prune), MERGE-DROP, RR-PRUNE, DEF-DECIDE(may), DEF-TAKE, DEF-REEXAM, MV-EQ',
        'not_decided': 'structural equality of replicas with equal knowledge (fails today for Map<_, MVReg>; no structural signature)',
    },
}

NOT_APPLICABLE = {
    'C13': 'index arithmetic over runtime lengths. The one structural clause (the new identifier is requested between the two '
           'elements adjacent to the index) was built and measured in the build phase (experiments/c13): it catches 20/20 index '
           'mutants, but the equivalent spellings of "the (i-1)-th and i-th element" are open-ended - 12 of 12 fresh behaviour-'
           'preserving rewrites (take(i).last(), fold, counted while loops, peekable, match (ix, len)) raised an alarm after the '
           'recogniser had been generalised to pass the previous 12 - so the clause is a brittle proxy and is not claimed',
    'C01': 'convergence is order-insensitivity of compositions of apply over all causal schedules; no guard, flow or effect '
           'ordering of a single function is necessary for it, and commutation of MIR bodies is not statically decidable here '
           '(mechanisms it names are decided under C06, C08, C09, C15)',
}
