"""Per-property statement of what is decided (clause) and what is not."""

PROPS = {
    'C09': {
        'explanation': 'Decides the structural clause "dedup gates, clock absorption, merge drop decisions": every state '
                       'write of a dot-carrying apply arm is reachable only when clock.get(actor) < dot.counter, the dot is '
                       'always absorbed into the replica clock, merges join the clocks. Evaluated over all MIR paths, hence all inputs.',
        'decides': 'GATE, GATE-MERKLE, ABSORB, ABSORB-MERGE (and merge drop decisions when present)',
        'not_decided': 'the behavioural statement "nothing observable changes" for every history; multi-step Map histories',
    },
}

NOT_APPLICABLE = {
    'C01': 'convergence is order-insensitivity of compositions of apply over all causal schedules; no guard, flow or effect '
           'ordering of a single function is necessary for it, and commutation of MIR bodies is not statically decidable here '
           '(mechanisms it names are decided under C06, C08, C09, C15)',
    'C13': 'pure index arithmetic over runtime lengths (ix.min(len), skip(ix-1), range().find): a value-level quantity with no '
           'structural clause that is not a frozen source fragment',
}
_PENDING = ['C02', 'C03', 'C04', 'C05', 'C06', 'C07', 'C08', 'C10', 'C11', 'C12', 'C14', 'C15', 'C16', 'C17', 'C18', 'C19', 'C20']
for _p in _PENDING:
    if _p not in PROPS:
        NOT_APPLICABLE[_p] = 'check under construction in this session (rules designed in DESIGN.md §4, not yet armed)'
