"""MIR-level inlining of private crate-local helpers (an equivalent *view* of a function, DESIGN §10.5).

`inlined(facts, body)` returns a Body in which every call to a non-public, non-recursive crate-local
function is replaced by the callee's blocks (locals and blocks renumbered, arguments assigned, Return
turned into a jump to the continuation).  Public functions are the vocabulary of the rules
(VClock::get/apply/merge/reset_remove/..) and are never inlined.  The transformation is purely
syntactic on the fact file; nothing is executed.
"""
import copy

from .facts import Body

MAX_DEPTH = 4
MAX_BLOCKS = 400

_cache = {}

# private functions some rule anchors on by name: inlining them away would leave that rule without its anchor
VOCABULARY = {'crdts::identifier::rational_between', 'crdts::merkle_reg::MerkleReg::all_hashes_seen'}
PLUMBING_TRAITS = {'Extend', 'FromIterator', 'IntoIterator', 'AsRef', 'AsMut', 'Borrow', 'BorrowMut', 'Deref', 'DerefMut', 'Index', 'IndexMut', 'From'}


def _into_as_from(facts, c):
    """`x.into()` with a crate-local target type U and a crate-local `impl From<T> for U`: that `from` (the blanket
    `impl<T, U: From<T>> Into<U> for T` does nothing but call it)."""
    if c.get('name') != 'into' or c.get('trait') != 'std::convert::Into':
        return None
    subs = c.get('substs') or []
    if len(subs) < 2 or subs[1].get('k') != 'adt' or not str(subs[1].get('path', '')).startswith('crdts::'):
        return None
    cands = []
    for b in facts.bodies:
        if b.name == 'from' and (b.impl_trait or '').endswith('convert::From') and b.impl_self == subs[1]['path'] and not b.derived and b.arg_count == 1:
            pty = b.locals[1]['ty'] if len(b.locals) > 1 else {}
            if pty.get('k') == subs[0].get('k') and pty.get('path') == subs[0].get('path') and (pty.get('k') == 'adt' or pty.get('s') == subs[0].get('s')):
                cands.append(b)
    return cands[0] if len(cands) == 1 else None


def _collect_as_from_iter(facts, c):
    """`it.collect::<U>()` with a crate-local U: the crate's own `impl FromIterator<_> for U` (`Iterator::collect` only calls it)."""
    if c.get('name') != 'collect' or c.get('trait') != 'std::iter::Iterator':
        return None
    subs = c.get('substs') or []
    tgt = [x for x in subs[1:] if x.get('k') == 'adt' and str(x.get('path', '')).startswith('crdts::')]
    if len(tgt) != 1:
        return None
    cands = [b for b in facts.bodies if b.name == 'from_iter' and (b.impl_trait or '').endswith('FromIterator') and b.impl_self == tgt[0]['path']
             and not b.derived and b.arg_count == 1]
    return cands[0] if len(cands) == 1 else None


def _callee_body(facts, t, same_type=None):
    c = t.get('callee')
    if c:
        via = _into_as_from(facts, c) or _collect_as_from_iter(facts, c)
        if via is not None:
            return via
    if not c or not (c.get('local') or str(c.get('resolved') or '').startswith(('crdts::', '<crdts::'))
                     or str(c.get('resolved_uid') or '').startswith('crdts::')):
        return None
    uid = c.get('resolved_uid') or c.get('uid')
    cb = facts.by_uid.get(uid)
    if cb is None or cb.derived or cb.kind not in ('Fn', 'AssocFn'):
        return None
    if uid in VOCABULARY or cb.key in VOCABULARY:
        return None
    if cb.base_uid in _remove_routines(facts):
        return None     # the remove routine of Orswot / Map is the vocabulary of the DEF-* / RM rules: callers keep calling it
    if same_type is not None and cb.impl_self == same_type and cb.impl_self:
        # level 'p': one API function of a type written in terms of another one of the SAME type (add -> add_all,
        # insert -> apply, update -> apply, merge -> apply): the callee is this type's own code, whatever its visibility
        return cb
    if cb.impl_trait:
        # methods of the crate's own traits are the vocabulary the rules speak (apply, merge, reset_remove, validate_*); impls of
        # std *plumbing* traits (Extend, FromIterator, AsRef, ..) written for a crate type are helpers under another name
        tr = cb.impl_trait
        if tr.startswith(('std::', 'core::', 'alloc::')) and tr.split('::')[-1] in PLUMBING_TRAITS:
            return cb
        return None
    if cb.vis == 'pub' or cb.vis is None:
        return None
    return cb


def _remove_routines(facts):
    """base uids of the functions the rules treat as *the* remove routine of a type (computed once per fact base)."""
    cached = getattr(facts, '_rm_routine_uids', None)
    if cached is not None:
        return cached
    facts._rm_routine_uids = set()          # while computing (rm_routines inlines helpers itself): nothing is excluded
    try:
        from .rules.removes import rm_routines, TYPES
        view = facts.view
        facts.view = 'orig'
        out = set()
        for inst, adt, _, _ in TYPES:
            for b, _, _ in rm_routines(facts, adt):
                out.add(b.base_uid)
        facts.view = view
    except Exception:
        out = set()
    facts._rm_routine_uids = out
    return out


def _shift_place(p, off_l):
    q = {'local': p['local'] + off_l, 'proj': []}
    for e in p['proj']:
        if e['k'] == 'index':
            e = dict(e)
            e['local'] = e['local'] + off_l
        q['proj'].append(e)
    return q


def _shift_op(o, off_l):
    if o['k'] in ('copy', 'move'):
        return {'k': o['k'], 'place': _shift_place(o['place'], off_l)}
    return o


def _shift_rv(rv, off_l):
    rv = dict(rv)
    for key in ('op', 'l', 'r', 'op1'):
        if key in rv and isinstance(rv[key], dict) and 'k' in rv[key]:
            rv[key] = _shift_op(rv[key], off_l)
    if 'place' in rv:
        rv['place'] = _shift_place(rv['place'], off_l)
    if 'ops' in rv:
        rv['ops'] = [_shift_op(o, off_l) for o in rv['ops']]
    return rv


def _shift_term(t, off_l, off_b, cont):
    t = dict(t)
    k = t['k']
    if k == 'return':
        return {'k': 'goto', 'target': cont}
    if k == 'goto':
        t['target'] += off_b
    elif k == 'switch':
        t['discr'] = _shift_op(t['discr'], off_l)
        t['targets'] = [[v, b + off_b] for v, b in t['targets']]
        t['otherwise'] += off_b
    elif k == 'drop':
        t['place'] = _shift_place(t['place'], off_l)
        t['target'] += off_b
    elif k == 'assert':
        t['cond'] = _shift_op(t['cond'], off_l)
        t['target'] += off_b
    elif k == 'call':
        t['args'] = [_shift_op(a, off_l) for a in t['args']]
        t['dest'] = _shift_place(t['dest'], off_l)
        if t['target'] is not None:
            t['target'] += off_b
        if 'func' in t:
            t['func'] = _shift_op(t['func'], off_l)
    return t


def inlined(facts, body, depth=0, stack=(), t1=True, t2=True, same_type=None):
    # t1: False | True (private helpers + plumbing impls) | 'p' (also the other functions of the same type)
    if t1 == 'p' and same_type is None:
        same_type = body.impl_self or (facts.by_uid.get(body.parent).impl_self if body.parent and facts.by_uid.get(body.parent) else None) or ''
    key = (facts.serial, body.uid, t1, t2, same_type)
    if depth == 0 and key in _cache:
        return _cache[key]
    blocks = copy.deepcopy(body.blocks)
    locals_ = list(body.locals)
    changed = False
    i = 0
    while i < len(blocks) and len(blocks) < MAX_BLOCKS:
        blk = blocks[i]
        t = blk['term']
        if t1 and not blk['cleanup'] and t['k'] == 'call' and t.get('target') is not None and depth < MAX_DEPTH:
            cb = _callee_body(facts, t, same_type if t1 == 'p' else None)
            if cb is not None and cb.uid not in stack and cb.uid != body.uid and cb.arg_count == len(t['args']):
                cin = inlined(facts, cb, depth + 1, stack + (body.uid,), t1, t2, same_type)
                off_l, off_b = len(locals_), len(blocks) + 1
                cont = len(blocks)  # continuation block
                locals_.extend(cin.locals)
                # continuation: dest = move callee _0 ; goto original target
                blocks.append({'cleanup': False, 'stmts': [
                    {'k': 'assign', 'place': t['dest'], 'rv': {'k': 'use', 'op': {'k': 'move', 'place': {'local': off_l, 'proj': []}}},
                     'span': t['span']}], 'term': {'k': 'goto', 'target': t['target']}})
                for cblk in cin.blocks:
                    nb = {'cleanup': cblk['cleanup'], 'stmts': [], 'term': None}
                    for s in cblk['stmts']:
                        s2 = dict(s)
                        if s['k'] == 'assign':
                            s2['place'] = _shift_place(s['place'], off_l)
                            s2['rv'] = _shift_rv(s['rv'], off_l)
                        elif s['k'] in ('dead', 'live'):
                            s2['local'] = s['local'] + off_l
                        elif s['k'] == 'setdiscr':
                            s2['place'] = _shift_place(s['place'], off_l)
                        nb['stmts'].append(s2)
                    nb['term'] = _shift_term(cblk['term'], off_l, off_b, cont)
                    blocks.append(nb)
                # call site: bind arguments, jump to the callee entry
                for ai, a in enumerate(t['args']):
                    blk['stmts'].append({'k': 'assign', 'place': {'local': off_l + ai + 1, 'proj': []},
                                         'rv': {'k': 'use', 'op': a}, 'span': t['span']})
                blk['term'] = {'k': 'goto', 'target': off_b}
                changed = True
        # a closure handed to a helper and called there (`wins(&a, &b)`, `f(side)`): once the helper is inlined the closure literal
        # is visible, and `Fn*::call*(closure, (args..))` is the closure body
        if t1 and not blk['cleanup'] and t['k'] == 'call' and t.get('target') is not None and depth < MAX_DEPTH and t.get('callee') \
                and (t['callee'].get('name') in ('call', 'call_mut', 'call_once')) and str(t['callee'].get('trait') or '').startswith('std::ops::Fn') \
                and len(t['args']) == 2:
            clo = _closure_through(facts, blocks, t['args'][0], 0)
            tl = _plain_local(t['args'][1])
            tds = _defs_of(blocks, tl) if tl is not None else []
            argops = None
            if len(tds) == 1 and tds[0][1] == 'stmt' and tds[0][2]['rv'].get('k') == 'agg' and tds[0][2]['rv'].get('agg') == 'tuple':
                argops = list(tds[0][2]['rv']['ops'])
            elif t['args'][1].get('k') == 'const':
                argops = []
            if clo is not None and argops is not None and clo[1].uid not in stack and clo[1].arg_count == len(argops) + 1:
                cl, cb = clo
                cin = inlined(facts, cb, depth + 1, stack + (body.uid,), t1, t2, same_type)
                B = _Builder(blocks, locals_, t['span'])
                env_ref = cin.locals[1]['ty'].get('k') == 'ref'
                env_bind = {'k': 'rv', 'rv': {'k': 'ref', 'mut': bool(cin.locals[1]['ty'].get('mut')), 'place': _pl(cl)}} if env_ref else _cp(cl)
                mid = B.block()
                entry, binds, off_l = B.splice(cin, [env_bind] + argops, mid)
                # the argument tuple is not built any more: its operands go to the closure directly
                tup_stmt = tds[0][2] if tds else None
                for b_ in blocks:
                    if tup_stmt is not None and tup_stmt in b_['stmts']:
                        b_['stmts'] = [x for x in b_['stmts'] if x is not tup_stmt]
                blk['stmts'].extend(binds)
                blocks[mid]['stmts'].append({'k': 'assign', 'place': t['dest'], 'rv': {'k': 'use', 'op': _mv(off_l)}, 'span': t['span']})
                blocks[mid]['term'] = {'k': 'goto', 'target': t['target']}
                blk['term'] = {'k': 'goto', 'target': entry}
                changed = True
        i += 1
    if t2 and unroll_array_loops(blocks, locals_):
        changed = True
    if t2 and desugar_entry_handles(blocks, locals_):
        changed = True
    if t2 and desugar_combinators(facts, body, blocks, locals_, depth, stack, t1):
        changed = True
    if t2 and desugar_loop_filters(facts, body, blocks, locals_, depth, stack, t1):
        changed = True
    if t2 and desugar_adaptors(facts, body, blocks, locals_, depth, stack, t1):
        changed = True
        unroll_array_loops(blocks, locals_)      # `[a, b].into_iter().for_each(f)` has just become a loop over the literal
    if not changed:
        res = body
    else:
        d = dict(body.d)
        d['blocks'] = blocks
        d['locals'] = locals_
        d['uid'] = body.uid + '#' + ('p' if t1 == 'p' else ('i' if t1 else '')) + ('s' if t2 else '')
        res = Body(d)
        res.inlined_from = body
    if depth == 0:
        _cache[key] = res
    return res


# ======================================================================================================
# T2a — a `for` loop over an array literal (`for (mine, theirs) in [(&mut self.p, p), (&mut self.n, n)] { .. }`) is unrolled:
# one copy of the loop body per element, in order.  Sound: the array's length and elements are literally in the body.
# ======================================================================================================

def unroll_array_loops(blocks, locals_, max_len=4):
    changed = False
    for ai in range(len(blocks)):
        blk = blocks[ai]
        t = blk['term']
        if blk['cleanup'] or t['k'] != 'call' or t.get('target') is None or not t.get('callee'):
            continue
        c = t['callee']
        if c.get('name') not in ('into_iter', 'iter') or len(t['args']) != 1 or not t['dest'] or t['dest']['proj']:
            continue
        al = _plain_local(t['args'][0])
        if al is None:
            continue
        ds = _defs_of(blocks, al)
        by_ref = False      # `[a, b].iter()`: the walk yields references to the elements
        for _hop in range(5):   # the collection may have travelled through plain moves (an argument of an inlined helper)
            if len(ds) == 1 and ds[0][1] == 'stmt' and ds[0][2]['rv'].get('k') == 'use' and _plain_local(ds[0][2]['rv']['op']) is not None \
                    and ds[0][2]['rv']['op']['k'] == 'move':
                ds = _defs_of(blocks, _plain_local(ds[0][2]['rv']['op']))
            elif c.get('name') == 'iter' and len(ds) == 1 and ds[0][1] == 'stmt' and ds[0][2]['rv'].get('k') == 'cast' \
                    and _plain_local(ds[0][2]['rv'].get('op') or {}) is not None:
                ds = _defs_of(blocks, _plain_local(ds[0][2]['rv']['op']))       # &[T; N] -> &[T]
            elif c.get('name') == 'iter' and not by_ref and len(ds) == 1 and ds[0][1] == 'stmt' and ds[0][2]['rv'].get('k') == 'ref' \
                    and not ds[0][2]['rv'].get('mut') and not ds[0][2]['rv']['place']['proj']:
                by_ref = True
                ds = _defs_of(blocks, ds[0][2]['rv']['place']['local'])
            else:
                break
        if c.get('name') == 'iter' and not by_ref:
            continue
        once_call = None
        if len(ds) == 1 and ds[0][1] == 'call' and (ds[0][2].get('callee') or {}).get('def') in ('std::iter::once', 'core::iter::once') \
                and len(ds[0][2]['args']) == 1 and ds[0][2].get('target') is not None:
            once_call = ds[0]       # `iter::once(x)`: exactly one item, x
            ops = [ds[0][2]['args'][0]]
        elif len(ds) == 1 and ds[0][1] == 'stmt' and ds[0][2]['rv'].get('k') == 'agg' and ds[0][2]['rv'].get('path') == OPT \
                and ds[0][2]['rv'].get('variant') == 'Some' and c.get('name') == 'into_iter':
            ops = ds[0][2]['rv']['ops']        # `for x in Some(v)`: exactly one item, v
        elif len(ds) != 1 or ds[0][1] != 'stmt' or ds[0][2]['rv'].get('k') != 'agg' or ds[0][2]['rv'].get('agg') != 'array':
            continue
        else:
            ops = ds[0][2]['rv']['ops']
        if not (1 <= len(ops) <= max_len):
            continue
        # follow the iterator local through plain moves to the loop head: `_r = &mut it; _n = next(_r)`
        it_locals = {t['dest']['local']}
        head = None
        cur = t['target']
        pre = None      # last block of the chain between the into_iter call and the loop head (its statements must be kept)
        zipped = None   # `[a, b].into_iter().zip([c, d])`: the walk yields the pairs (a, c), (b, d)
        ident_calls = []
        for _ in range(6):
            b2 = blocks[cur]
            for st in b2['stmts']:
                if st['k'] == 'assign' and st['rv'].get('k') == 'use' and st['rv']['op'].get('k') in ('move', 'copy') \
                        and not st['rv']['op']['place']['proj'] and st['rv']['op']['place']['local'] in it_locals and not st['place']['proj']:
                    it_locals.add(st['place']['local'])
            t2 = b2['term']
            if t2['k'] == 'call' and (t2.get('callee') or {}).get('name') == 'next' and len(t2['args']) == 1:
                head = cur
                break
            if t2['k'] == 'goto':
                pre = cur
                cur = t2['target']
                continue
            if t2['k'] == 'call' and (t2.get('callee') or {}).get('name') == 'zip' and len(t2['args']) == 2 and zipped is None \
                    and not by_ref and once_call is None and t2.get('target') is not None and t2['dest'] and not t2['dest']['proj'] \
                    and _plain_local(t2['args'][0]) in it_locals and _plain_local(t2['args'][1]) is not None:
                ds2 = _defs_of(blocks, _plain_local(t2['args'][1]))
                zip_copied = False      # a Copy array (shared references) may be used again elsewhere: its definition stays
                for _hop in range(5):
                    if len(ds2) == 1 and ds2[0][1] == 'stmt' and ds2[0][2]['rv'].get('k') == 'use' and ds2[0][2]['rv']['op'].get('k') in ('move', 'copy') \
                            and _plain_local(ds2[0][2]['rv']['op']) is not None:
                        zip_copied = zip_copied or ds2[0][2]['rv']['op'].get('k') == 'copy'
                        ds2 = _defs_of(blocks, _plain_local(ds2[0][2]['rv']['op']))
                    else:
                        break
                if len(ds2) == 1 and ds2[0][1] == 'stmt' and ds2[0][2]['rv'].get('k') == 'agg' and ds2[0][2]['rv'].get('agg') == 'array' \
                        and len(ds2[0][2]['rv']['ops']) == len(ops):
                    zipped = (cur, ds2[0][2], zip_copied)
                    it_locals.add(t2['dest']['local'])
                    pre = cur
                    cur = t2['target']
                    continue
            if t2['k'] == 'call' and (t2.get('callee') or {}).get('name') == 'into_iter' and len(t2['args']) == 1 and zipped is not None \
                    and t2.get('target') is not None and t2['dest'] and not t2['dest']['proj'] and _plain_local(t2['args'][0]) in it_locals:
                # `for (a, b) in xs.into_iter().zip(ys)`: the for loop's own into_iter on the Zip is the identity
                ident_calls.append(cur)
                it_locals.add(t2['dest']['local'])
                pre = cur
                cur = t2['target']
                continue
            break
        if head is None:
            continue
        hb = blocks[head]
        nl = hb['term']['dest']['local'] if not hb['term']['dest']['proj'] else None
        swb = hb['term'].get('target')
        if nl is None or swb is None or blocks[swb]['term']['k'] != 'switch':
            continue
        sw = blocks[swb]['term']
        tg = dict((v, b_) for v, b_ in sw['targets'])
        if 0 not in tg or 1 not in tg:
            continue
        exit_b, body0 = tg[0], tg[1]
        # the natural loop: blocks that reach `head` without leaving through exit
        preds = {}
        for bi, b_ in enumerate(blocks):
            for y in _succs(b_['term']):
                preds.setdefault(y, []).append(bi)
        loop = {head}
        stack_ = [x for x in preds.get(head, []) if x != cur and _reaches(blocks, body0, x, head)]
        while stack_:
            x = stack_.pop()
            if x in loop:
                continue
            loop.add(x)
            stack_.extend(preds.get(x, []))
        loop.discard(ai)
        body_blocks = sorted(b_ for b_ in loop if b_ not in (head, swb) and not blocks[b_]['cleanup'])
        if body0 not in body_blocks or len(body_blocks) > 60:
            continue
        # the iterator must not be used inside the body
        used = False
        for b_ in body_blocks:
            sj = repr(blocks[b_])
            if any(("'local': %d," % l) in sj or ("'local': %d}" % l) in sj for l in it_locals):
                used = True
        if used:
            continue
        some_ty = hb['term']['dest']
        entries = []
        for k, op in enumerate(ops):
            off = len(blocks)
            remap = {b_: off + 1 + i for i, b_ in enumerate(body_blocks)}
            pre_st = []
            if by_ref:
                if op.get('k') not in ('move', 'copy'):
                    tmpv = len(locals_)
                    locals_.append({'ty': UNK_TY, 'mut': True})
                    pre_st.append({'k': 'assign', 'place': _pl(tmpv), 'rv': {'k': 'use', 'op': op}, 'span': t['span']})
                    op = _mv(tmpv)
                rl = len(locals_)
                locals_.append({'ty': {'k': 'ref', 'mut': False, 'ty': UNK_TY, 's': '&?'}, 'mut': True})
                pre_st.append({'k': 'assign', 'place': _pl(rl), 'rv': {'k': 'ref', 'mut': False, 'place': op['place']}, 'span': t['span']})
                op = _mv(rl)
            if zipped is not None:
                tl = len(locals_)
                locals_.append({'ty': UNK_TY, 'mut': True})
                pre_st.append({'k': 'assign', 'place': _pl(tl), 'rv': {'k': 'agg', 'agg': 'tuple', 'ops': [op, zipped[1]['rv']['ops'][k]]}, 'span': t['span']})
                op = _mv(tl)
            entry = {'cleanup': False, 'stmts': pre_st + [{'k': 'assign', 'place': _pl(nl), 'rv': _agg(OPT, 'Some', 1, [op]), 'span': t['span']}],
                     'term': {'k': 'goto', 'target': remap[body0]}}
            blocks.append(entry)
            entries.append(off)
            for b_ in body_blocks:
                nb = copy.deepcopy(blocks[b_])
                nb['term'] = _retarget(nb['term'], remap, head)
                blocks.append(nb)
        # chain: copy k's back edge (to `head`, marked) goes to copy k+1's entry, the last one to the loop exit
        for k, off in enumerate(entries):
            nxt = entries[k + 1] if k + 1 < len(entries) else exit_b
            lo, hi = off + 1, off + 1 + len(body_blocks)
            for bi in range(lo, hi):
                blocks[bi]['term'] = _retarget(blocks[bi]['term'], {('HEAD',): nxt}, None)
        if pre is None:
            blk['term'] = {'k': 'goto', 'target': entries[0]}
        else:
            blk['term'] = {'k': 'goto', 'target': t['target']}
            blocks[pre]['term'] = {'k': 'goto', 'target': entries[0]}
        # the array itself is gone: its elements are handed to the copies directly (they must not be consumed twice)
        agg_stmt = ds[0][2]
        if once_call is not None:
            blocks[once_call[0]]['term'] = {'k': 'goto', 'target': once_call[2]['target']}
        op_locals = set(o['place']['local'] for o in ops if o.get('k') in ('move', 'copy') and not o['place']['proj'])
        agg_stmts = [agg_stmt]
        if zipped is not None:
            # the zip call is gone too (its block keeps its statements), and so is the second array
            blocks[zipped[0]]['term'] = {'k': 'goto', 'target': blocks[zipped[0]]['term']['target']}
            for ic in ident_calls:
                blocks[ic]['term'] = {'k': 'goto', 'target': blocks[ic]['term']['target']}
            if not zipped[2]:
                agg_stmts.append(zipped[1])
            op_locals |= set(o['place']['local'] for o in zipped[1]['rv']['ops'] if o.get('k') in ('move', 'copy') and not o['place']['proj'])
        for b_ in blocks:
            # .. and their storage must outlive the place where the array used to swallow them
            b_['stmts'] = [x for x in b_['stmts'] if not any(x is a_ for a_ in agg_stmts) and not (x['k'] == 'dead' and x.get('local') in op_locals)]
        changed = True
    return changed


def _succs(t):
    k = t['k']
    out = []
    if k == 'goto':
        out.append(t['target'])
    elif k == 'switch':
        out += [b for _, b in t['targets']]
        if t.get('otherwise') is not None:
            out.append(t['otherwise'])
    elif k in ('call', 'drop', 'assert'):
        if t.get('target') is not None:
            out.append(t['target'])
    return out


def _reaches(blocks, start, goal, avoid):
    seen, st = set(), [start]
    while st:
        x = st.pop()
        if x == goal:
            return True
        if x in seen or x == avoid:
            continue
        seen.add(x)
        st.extend(_succs(blocks[x]['term']))
    return False


def _retarget(t, remap, head):
    t = dict(t)

    def f(b):
        if b is None:
            return b
        if b == ('HEAD',):
            return remap.get(('HEAD',), b)
        if head is not None and b == head:
            return ('HEAD',)
        return remap.get(b, b)
    if t['k'] == 'goto':
        t['target'] = f(t['target'])
    elif t['k'] == 'switch':
        t['targets'] = [[v, f(b)] for v, b in t['targets']]
        if t.get('otherwise') is not None:
            t['otherwise'] = f(t['otherwise'])
    elif t['k'] in ('call', 'drop', 'assert'):
        if t.get('target') is not None:
            t['target'] = f(t['target'])
    return t


# ======================================================================================================
# T2 — iterator adaptors with closures are rewritten into explicit loops (the canonical form of the rules)
# ======================================================================================================

STAGES = {'filter', 'map', 'filter_map'}
CONSUMERS = {'for_each', 'all', 'any', 'find', 'collect', 'extend', 'retain', 'retain_mut', 'fold', 'try_for_each', 'partition'}

BOOL_TY = {'k': 'prim', 'name': 'bool', 's': 'bool'}
UNK_TY = {'k': 'other', 's': '?'}


def _const_bool(v):
    return {'k': 'const', 'ty': BOOL_TY, 'val': 1 if v else 0, 's': 'true' if v else 'false'}


def _pl(local, proj=None):
    return {'local': local, 'proj': proj or []}


def _mv(local, proj=None):
    return {'k': 'move', 'place': _pl(local, proj)}


def _cp(local, proj=None):
    return {'k': 'copy', 'place': _pl(local, proj)}


SOME0 = [{'k': 'downcast', 'variant': 'Some', 'idx': 1},
         {'k': 'field', 'idx': 0, 'name': '0', 'owner': 'std::option::Option', 'variant': 'Some'}]


def _tuple_field(i):
    return {'k': 'field', 'idx': i, 'name': None, 'owner': 'tuple', 'variant': None}


def _pseudo_callee(name, trait=None, self_ty=None, path=None):
    d = path or ('verif::collected::' + name)
    return {'def': d, 'uid': d, 'name': name, 'trait': trait, 'self_ty': self_ty, 'local': False, 'substs': [],
            'resolved': None, 'resolved_uid': None, 'resolved_self': None}


NEXT_CALLEE = lambda self_ty: _pseudo_callee('next', 'std::iter::Iterator', self_ty, 'std::iter::Iterator::next')


class _Builder:
    def __init__(self, blocks, locals_, span):
        self.blocks, self.locals, self.span = blocks, locals_, span

    def local(self, ty=None):
        self.locals.append({'ty': ty or UNK_TY, 'mut': True})
        return len(self.locals) - 1

    def block(self, stmts=None, term=None):
        self.blocks.append({'cleanup': False, 'stmts': stmts or [], 'term': term or {'k': 'unreachable'}})
        return len(self.blocks) - 1

    def assign(self, place, rv):
        return {'k': 'assign', 'place': place, 'rv': rv, 'span': self.span}

    def use(self, local, op):
        return self.assign(_pl(local), {'k': 'use', 'op': op})

    def call(self, callee, args, dest_local, target):
        return {'k': 'call', 'callee': callee, 'args': args, 'dest': _pl(dest_local), 'target': target, 'span': self.span}

    def splice(self, cin, binds, cont):
        """Append the blocks of closure/function body `cin`; `binds` = operands for its parameters 1..n.
        Returns (entry block, stmts binding the arguments, local holding the return value)."""
        off_l, off_b = len(self.locals), len(self.blocks)
        self.locals.extend(cin.locals)
        for cblk in cin.blocks:
            nb = {'cleanup': cblk['cleanup'], 'stmts': [], 'term': None}
            for s in cblk['stmts']:
                s2 = dict(s)
                if s['k'] == 'assign':
                    s2['place'] = _shift_place(s['place'], off_l)
                    s2['rv'] = _shift_rv(s['rv'], off_l)
                elif s['k'] in ('dead', 'live'):
                    s2['local'] = s['local'] + off_l
                elif s['k'] == 'setdiscr':
                    s2['place'] = _shift_place(s['place'], off_l)
                nb['stmts'].append(s2)
            nb['term'] = _shift_term(cblk['term'], off_l, off_b, cont)
            self.blocks.append(nb)
        stmts = []
        for i, op in enumerate(binds):
            if op.get('k') == 'rv':
                stmts.append(self.assign(_pl(off_l + i + 1), op['rv']))
            else:
                stmts.append(self.use(off_l + i + 1, op))
        return off_b, stmts, off_l


def _defs_of(blocks, local):
    out = []
    for bi, blk in enumerate(blocks):
        if blk['cleanup']:
            continue
        for si, s in enumerate(blk['stmts']):
            if s['k'] == 'assign' and s['place']['local'] == local and not s['place']['proj']:
                out.append((bi, 'stmt', s))
        t = blk['term']
        if t['k'] == 'call' and t['dest']['local'] == local and not t['dest']['proj']:
            out.append((bi, 'call', t))
    return out


def _plain_local(op):
    if op['k'] in ('copy', 'move') and not op['place']['proj']:
        return op['place']['local']
    return None


def _closure_through(facts, blocks, op, depth):
    """operand -> (closure local, closure body), following plain moves / copies / borrows back to the closure literal."""
    if depth > 6 or op.get('k') not in ('copy', 'move'):
        return None
    pl = op['place']
    if any(e['k'] != 'deref' for e in pl['proj']):
        return None
    ds = _defs_of(blocks, pl['local'])
    if len(ds) != 1 or ds[0][1] != 'stmt':
        return None
    rv = ds[0][2]['rv']
    if rv['k'] == 'agg' and rv.get('agg') == 'closure':
        cb = facts.by_uid.get(rv['uid'])
        return (pl['local'], cb) if cb is not None else None
    if rv['k'] == 'use':
        return _closure_through(facts, blocks, rv['op'], depth + 1)
    if rv['k'] == 'ref' and all(e['k'] == 'deref' for e in rv['place']['proj']):
        return _closure_through(facts, blocks, {'k': 'copy', 'place': rv['place']}, depth + 1)
    return None


def _closure_of(facts, blocks, op):
    """operand -> (closure local, inlined closure body) when it is a closure literal built in this body."""
    l = _plain_local(op)
    if l is None:
        return None
    ds = _defs_of(blocks, l)
    if len(ds) != 1 or ds[0][1] != 'stmt':
        return None
    rv = ds[0][2]['rv']
    if rv['k'] == 'agg' and rv.get('agg') == 'closure':
        cb = facts.by_uid.get(rv['uid'])
        if cb is not None:
            return l, cb
    return None



# ======================================================================================================
# T3 — Option / Result / bool combinators are rewritten into the `match` they stand for
# ======================================================================================================

def _variant_proj(owner, variant, idx):
    return [{'k': 'downcast', 'variant': variant, 'idx': idx},
            {'k': 'field', 'idx': 0, 'name': '0', 'owner': owner, 'variant': variant}]


OPT = 'std::option::Option'
RES = 'std::result::Result'
SOME_P = _variant_proj(OPT, 'Some', 1)
OK_P = _variant_proj(RES, 'Ok', 0)
ERR_P = _variant_proj(RES, 'Err', 1)
ISIZE = {'k': 'prim', 'name': 'isize', 's': 'isize'}


def _agg(owner, variant, vidx, ops):
    return {'k': 'agg', 'agg': 'adt', 'path': owner, 'variant': variant, 'vidx': vidx, 'is_enum': True,
            'fields': ['0'] if ops else [], 'ops': ops}


# name -> (receiver kind, closure argument positions)
COMBINATORS = {
    ('bool', 'then'): 'b', ('bool', 'then_some'): 'b',
    (OPT, 'map'): 'o', (OPT, 'and_then'): 'o', (OPT, 'filter'): 'o', (OPT, 'or_else'): 'o', (OPT, 'or'): 'o', (OPT, 'map_or'): 'o',
    (OPT, 'map_or_else'): 'o', (OPT, 'unwrap_or_else'): 'o', (OPT, 'unwrap_or'): 'o', (OPT, 'ok_or'): 'o', (OPT, 'ok_or_else'): 'o',
    (OPT, 'is_some_and'): 'o', (OPT, 'is_none_or'): 'o',
    (RES, 'map'): 'r', (RES, 'map_err'): 'r', (RES, 'and_then'): 'r', (RES, 'or_else'): 'r', (RES, 'ok'): 'r', (RES, 'err'): 'r',
    (RES, 'unwrap_or_else'): 'r', (RES, 'map_or'): 'r', (RES, 'map_or_else'): 'r',
}


def _combinator_key(c):
    d = c.get('def') or ''
    n = c.get('name')
    for owner in (OPT, RES):
        if d == owner + '::' + n or d == owner.replace('std::', 'core::') + '::' + n:
            return (owner, n)
    if d in ('bool::' + str(n), 'core::bool::' + str(n)) or (d.endswith('::' + str(n)) and ((c.get('self_ty') or {}).get('s') == 'bool')):
        return ('bool', n)
    return None


_ONE_INSERT = {'std::collections::BTreeMap': ('insert', 2), 'std::collections::HashMap': ('insert', 2),
               'std::collections::BTreeSet': ('insert', 1), 'std::collections::HashSet': ('insert', 1),
               'std::vec::Vec': ('push', 1), 'std::collections::VecDeque': ('push_back', 1)}


# ======================================================================================================
# T3b — the map Entry API used through its handles (`match m.entry(k) { Vacant(v) => .. v.insert(x), Occupied(o) => .. o.get_mut() /
# o.remove() }`) is rewritten into the plain calls it stands for: `m.contains_key(&k)` decides the arm, `v.insert(x)` is
# `m.insert(k, x)`, `o.get() / get_mut() / into_mut()` is `m.get_mut(&k)` (known to be Some), `o.remove()` is `m.remove(&k)`,
# `o.insert(x)` is `m.insert(k, x)`.  Only when every use of the entry and of its handles is one of these (otherwise untouched).
# ======================================================================================================
_ENTRY_MAPS = {'std::collections::BTreeMap': 1, 'std::collections::HashMap': 0}      # map type -> discriminant of Occupied
_HANDLE_CALLS = {'Vacant': {'insert': 'vinsert', 'key': 'key'},
                 'Occupied': {'get': 'get', 'get_mut': 'get', 'into_mut': 'get', 'remove': 'remove', 'insert': 'oinsert', 'key': 'key'}}


def _uses_local(obj, local):
    sj = repr(obj)
    return ("'local': %d," % local) in sj or ("'local': %d}" % local) in sj


def desugar_entry_handles(blocks, locals_):
    changed = False
    for ei in range(len(blocks)):
        blk = blocks[ei]
        t = blk['term']
        if blk['cleanup'] or t['k'] != 'call' or t.get('target') is None or not t.get('callee'):
            continue
        c = t['callee']
        mp = (c.get('self_ty') or {}).get('path')
        if c.get('name') != 'entry' or mp not in _ENTRY_MAPS or len(t['args']) != 2 or t['dest']['proj']:
            continue
        if (c.get('def') or '') not in (mp + '::entry',):
            continue
        E = t['dest']['local']
        occ_d = _ENTRY_MAPS[mp]
        # classify every use of E and of the handles taken out of it
        handles = {}      # local -> 'Vacant' | 'Occupied'
        refs = {}         # local -> handle local it borrows
        plan = []         # (kind, block index, stmt index or None)
        ok = True
        for _round in range(4):
            n0 = (len(handles), len(refs))
            for bi, b in enumerate(blocks):
                for si, st in enumerate(b['stmts']):
                    if st['k'] != 'assign' or st['place']['proj']:
                        continue
                    rv = st['rv']
                    if rv.get('k') == 'use' and rv['op'].get('k') == 'move':
                        pl = rv['op']['place']
                        if pl['local'] == E and len(pl['proj']) == 2 and pl['proj'][0].get('k') == 'downcast' and pl['proj'][0].get('variant') in ('Vacant', 'Occupied'):
                            handles[st['place']['local']] = pl['proj'][0]['variant']
                        elif pl['local'] in handles and not pl['proj']:
                            handles[st['place']['local']] = handles[pl['local']]
                        elif pl['local'] in refs and not pl['proj']:
                            refs[st['place']['local']] = refs[pl['local']]
                    elif rv.get('k') == 'ref' and rv['place']['local'] in handles and not rv['place']['proj']:
                        refs[st['place']['local']] = rv['place']['local']
                    elif rv.get('k') == 'ref' and rv['place']['local'] == E and len(rv['place']['proj']) == 2 \
                            and rv['place']['proj'][0].get('k') == 'downcast' and rv['place']['proj'][0].get('variant') in ('Vacant', 'Occupied') \
                            and rv['place']['proj'][1].get('k') == 'field' and st['place']['local'] not in refs:
                        # `Entry::Vacant(v) if guard => ..`: while the guard runs the handle is only borrowed in place
                        ph = len(locals_)
                        locals_.append({'ty': UNK_TY, 'mut': True})
                        handles[ph] = rv['place']['proj'][0]['variant']
                        refs[st['place']['local']] = ph
                    elif rv.get('k') == 'ref' and rv['place']['local'] in refs and [e.get('k') for e in rv['place']['proj']] == ['deref']:
                        refs[st['place']['local']] = refs[rv['place']['local']]
            if (len(handles), len(refs)) == n0:
                break
        if not handles:
            continue
        tracked = {E} | set(handles) | set(refs)
        calls = []
        for bi, b in enumerate(blocks):
            for si, st in enumerate(b['stmts']):
                used = [l for l in tracked if _uses_local(st, l)]
                if not used:
                    continue
                if st['k'] in ('dead', 'live'):
                    continue
                if st['k'] == 'assign' and not st['place']['proj']:
                    rv = st['rv']
                    if rv.get('k') == 'discr' and rv['place']['local'] == E and not rv['place']['proj'] and st['place']['local'] not in tracked:
                        plan.append(('discr', bi, si))
                        continue
                    if st['place']['local'] in handles or st['place']['local'] in refs:
                        plan.append(('drop-stmt', bi, si))
                        continue
                ok = False
            tt = b['term']
            if tt is t:
                continue
            used = [l for l in tracked if _uses_local(tt, l)]
            if not used:
                continue
            if tt['k'] == 'drop' and tt['place']['local'] in tracked and (not tt['place']['proj'] or (
                    tt['place']['local'] == E and tt['place']['proj'][0].get('k') == 'downcast')):
                # (a handle moved out only on some paths leaves a drop of the payload in place on the others)
                plan.append(('drop-term', bi, None))
                continue
            if tt['k'] == 'call' and tt.get('callee') and tt['args'] and tt.get('target') is not None and not tt['dest']['proj']:
                a0 = tt['args'][0]
                l0 = _plain_local(a0)
                h = l0 if l0 in handles else refs.get(l0)
                d = tt['callee'].get('def') or ''
                nm = tt['callee'].get('name')
                var = handles.get(h)
                if h is not None and (var + 'Entry::') in d and nm in _HANDLE_CALLS[var] and not any(_uses_local(a, l) for a in tt['args'][1:] for l in tracked) \
                        and tt['dest']['local'] not in tracked:
                    calls.append((bi, _HANDLE_CALLS[var][nm]))
                    continue
            ok = False
        if not ok or not any(k == 'discr' for k, _, _ in plan):
            continue
        # ---- rewrite
        B = _Builder(blocks, locals_, t['span'])
        m_op, k_op = t['args']
        ml = _plain_local(m_op)
        MM = B.local(locals_[ml]['ty'] if ml is not None else None)
        KK = B.local(locals_[_plain_local(k_op)]['ty'] if _plain_local(k_op) is not None else None)
        HAS = B.local(BOOL_TY)
        st_map = c.get('self_ty')

        def key_ref(stmts):
            r = B.local({'k': 'ref', 'mut': False, 'ty': locals_[KK]['ty'], 's': '&?'})
            stmts.append(B.assign(_pl(r), {'k': 'ref', 'mut': False, 'place': _pl(KK)}))
            return r

        def mcall(name):
            return _pseudo_callee(name, None, st_map, mp + '::' + name)
        blk['stmts'].append(B.use(MM, m_op))
        blk['stmts'].append(B.use(KK, k_op))
        r0 = key_ref(blk['stmts'])
        # the presence test only reads the map: hand it a shared reborrow (a `&mut` argument would count as a write)
        MS = B.local({'k': 'ref', 'mut': False, 'ty': (locals_[MM]['ty'].get('ty') or UNK_TY), 's': '&?'})
        blk['stmts'].append(B.assign(_pl(MS), {'k': 'ref', 'mut': False, 'place': _pl(MM, [{'k': 'deref'}])}))
        blk['term'] = B.call(mcall('contains_key'), [_mv(MS), _mv(r0)], HAS, t['target'])
        kill = set()
        for kind, bi, si in plan:
            if kind == 'discr':
                stx = blocks[bi]['stmts'][si]
                stx['rv'] = {'k': 'use', 'op': _cp(HAS)} if occ_d == 1 else {'k': 'unop', 'op': 'Not', 'op1': _cp(HAS)}
            elif kind == 'drop-stmt':
                kill.add(id(blocks[bi]['stmts'][si]))
            elif kind == 'drop-term':
                blocks[bi]['term'] = {'k': 'goto', 'target': blocks[bi]['term']['target']}
        for b in blocks:
            b['stmts'] = [x for x in b['stmts'] if id(x) not in kill]
        for bi, what in calls:
            b = blocks[bi]
            tt = b['term']
            dest, target = tt['dest'], tt['target']
            if what == 'key':
                r = key_ref(b['stmts'])
                b['stmts'].append(B.assign(dest, {'k': 'use', 'op': _mv(r)}))
                b['term'] = {'k': 'goto', 'target': target}
                continue
            tmp = B.local()
            if what in ('vinsert', 'oinsert'):
                after = B.block()
                b['term'] = B.call(mcall('insert'), [_cp(MM), _cp(KK), tt['args'][1]], tmp, after)
                if what == 'oinsert':
                    blocks[after]['stmts'].append(B.assign(dest, {'k': 'use', 'op': _mv(tmp, list(SOME_P))}))
                    blocks[after]['term'] = {'k': 'goto', 'target': target}
                else:
                    # `vacant.insert(x)` hands back a reference to the stored value
                    r = key_ref(blocks[after]['stmts'])
                    tmp2 = B.local()
                    fin = B.block([B.assign(dest, {'k': 'use', 'op': _mv(tmp2, list(SOME_P))})], {'k': 'goto', 'target': target})
                    blocks[after]['term'] = B.call(mcall('get_mut'), [_cp(MM), _mv(r)], tmp2, fin)
            else:
                r = key_ref(b['stmts'])
                fin = B.block([B.assign(dest, {'k': 'use', 'op': _mv(tmp, list(SOME_P))})], {'k': 'goto', 'target': target})
                b['term'] = B.call(mcall('get_mut' if what == 'get' else 'remove'), [_cp(MM), _mv(r)], tmp, fin)
        changed = True
    return changed


CF = 'std::ops::ControlFlow'


def _cf_agg(variant, vidx, ops):
    return {'k': 'agg', 'agg': 'adt', 'path': CF, 'variant': variant, 'vidx': vidx, 'is_enum': True, 'fields': ['0'] if ops else [], 'ops': ops}


def _question_mark(blocks, locals_, blk, t):
    """The two calls the `?` operator expands to, written as the `match` they are, for Option and Result:
    `Try::branch(x)` = `match x { Some(v) / Ok(v) => Continue(v), None => Break(None), Err(e) => Break(Err(e)) }`,
    `FromResidual::from_residual(r)` = `None` / `Err(From::from(e))`."""
    c = t['callee']
    st = c.get('self_ty') or {}
    owner = st.get('path')
    if owner not in (OPT, RES) or len(t['args']) != 1 or t.get('target') is None:
        return False
    B = _Builder(blocks, locals_, t['span'])
    a0 = t['args'][0]
    if c.get('name') == 'branch' and c.get('trait') == 'std::ops::Try':
        if a0.get('k') not in ('move', 'copy') or a0['place']['proj']:
            return False
        x = a0['place']['local']
        d0 = B.local(ISIZE)
        blk['stmts'].append(B.assign(_pl(d0), {'k': 'discr', 'place': _pl(x)}))
        good, bad = B.block(), B.block()
        if owner == OPT:
            blk['term'] = {'k': 'switch', 'discr': _mv(d0), 'discr_ty': ISIZE, 'targets': [[1, good], [0, bad]], 'otherwise': bad, 'span': t['span']}
            blocks[good]['stmts'].append(B.assign(t['dest'], _cf_agg('Continue', 0, [_mv(x, list(SOME_P))])))
            tmp = B.local()
            blocks[bad]['stmts'].append(B.assign(_pl(tmp), _agg(OPT, 'None', 0, [])))
            blocks[bad]['stmts'].append(B.assign(t['dest'], _cf_agg('Break', 1, [_mv(tmp)])))
        else:
            blk['term'] = {'k': 'switch', 'discr': _mv(d0), 'discr_ty': ISIZE, 'targets': [[0, good], [1, bad]], 'otherwise': bad, 'span': t['span']}
            blocks[good]['stmts'].append(B.assign(t['dest'], _cf_agg('Continue', 0, [_mv(x, list(OK_P))])))
            tmp = B.local()
            blocks[bad]['stmts'].append(B.assign(_pl(tmp), _agg(RES, 'Err', 1, [_mv(x, list(ERR_P))])))
            blocks[bad]['stmts'].append(B.assign(t['dest'], _cf_agg('Break', 1, [_mv(tmp)])))
        blocks[good]['term'] = {'k': 'goto', 'target': t['target']}
        blocks[bad]['term'] = {'k': 'goto', 'target': t['target']}
        return True
    if c.get('name') == 'from_residual' and c.get('trait') == 'std::ops::FromResidual':
        subs = c.get('substs') or []
        res_ty = subs[1] if len(subs) > 1 else {}
        if res_ty.get('path') != owner:
            return False        # a residual of another type (`Option?` in a function returning Result through some adapter)
        if owner == OPT:
            blk['stmts'].append(B.assign(t['dest'], _agg(OPT, 'None', 0, [])))
            blk['term'] = {'k': 'goto', 'target': t['target']}
            return True
        if a0.get('k') not in ('move', 'copy') or a0['place']['proj']:
            return False
        r = a0['place']['local']
        same = len(st.get('args') or []) > 1 and len(res_ty.get('args') or []) > 1 and st['args'][1].get('s') == res_ty['args'][1].get('s')
        if same:
            blk['stmts'].append(B.assign(t['dest'], _agg(RES, 'Err', 1, [_mv(r, list(ERR_P))])))
            blk['term'] = {'k': 'goto', 'target': t['target']}
        else:
            conv = B.local()
            wrap = B.block([B.assign(t['dest'], _agg(RES, 'Err', 1, [_mv(conv)]))], {'k': 'goto', 'target': t['target']})
            blk['term'] = B.call(_pseudo_callee('from', 'std::convert::From', (st.get('args') or [None, None])[1], 'std::convert::From::from'),
                                 [_mv(r, list(ERR_P))], conv, wrap)
        return True
    return False


def _extend_with_option(blocks, locals_, blk, t):
    """`coll.extend(opt)` with `opt: Option<T>` is `if let Some(x) = opt { coll.insert(x) }` (for a map: insert(x.0, x.1)):
    an Option iterates over zero or one item and std's Extend for these collections inserts each item in turn."""
    c = t['callee']
    if c.get('name') != 'extend' or c.get('trait') != 'std::iter::Extend' or len(t['args']) != 2:
        return False
    st = c.get('self_ty') or {}
    one = _ONE_INSERT.get(st.get('path'))
    a0, a1 = t['args']
    if one is None or a1.get('k') not in ('move', 'copy') or a1['place']['proj']:
        return False
    oty = locals_[a1['place']['local']]['ty']
    src_l = a1['place']['local']
    for _ in range(4):      # an argument of an inlined generic helper has the helper's type parameter as its type: look where it came from
        if oty.get('k') == 'adt':
            break
        ds = _defs_of(blocks, src_l)
        if len(ds) == 1 and ds[0][1] == 'stmt' and ds[0][2]['rv'].get('k') == 'use' and _plain_local(ds[0][2]['rv']['op']) is not None:
            src_l = _plain_local(ds[0][2]['rv']['op'])
            oty = locals_[src_l]['ty']
        else:
            break
    if oty.get('k') != 'adt' or oty.get('path') != OPT or not oty.get('args'):
        return False
    item = oty['args'][0]
    if one[1] == 2 and not (item.get('k') == 'tuple' and len(item.get('elems', [])) == 2):
        return False
    B = _Builder(blocks, locals_, t['span'])
    ol = a1['place']['local']
    d0 = B.local(ISIZE)
    blk['stmts'].append(B.assign(_pl(d0), {'k': 'discr', 'place': _pl(ol)}))
    some = B.block()
    blk['term'] = {'k': 'switch', 'discr': _mv(d0), 'discr_ty': ISIZE, 'targets': [[1, some], [0, t['target']]], 'otherwise': t['target'],
                   'span': t['span']}
    if one[1] == 2:
        ops = [_mv(ol, SOME_P + [_tuple_field(0)]), _mv(ol, SOME_P + [_tuple_field(1)])]
    else:
        ops = [_mv(ol, list(SOME_P))]
    callee = _pseudo_callee(one[0], None, st, st['path'] + '::' + one[0])
    blocks[some]['term'] = B.call(callee, [a0] + ops, B.local(), t['target'])
    blocks[some]['term']['unwind'] = t.get('unwind')
    return True


def desugar_combinators(facts, body, blocks, locals_, depth, stack, t1=True):
    """`cond.then(|| x)`, `opt.map(f)`, `opt.filter(p)`, `opt.map_or(d, f)`, `opt.ok_or(e)`, `res.map_err(f)`, .. become the
    switch on the receiver they abbreviate, with the closure bodies spliced into the arms.  Function items used as the
    callable (`Err`, `Some`, a named fn) are called / built in place."""
    changed = False
    i = 0
    guard = 0
    while i < len(blocks) and len(blocks) < MAX_BLOCKS and guard < 400:
        blk = blocks[i]
        t = blk['term']
        i += 1
        if blk['cleanup'] or t['k'] != 'call' or t.get('target') is None or not t.get('callee') or not t['args']:
            continue
        if _question_mark(blocks, locals_, blk, t):
            changed = True
            guard += 1
            i = 0
            continue
        if _extend_with_option(blocks, locals_, blk, t):
            changed = True
            guard += 1
            i = 0
            continue
        key = _combinator_key(t['callee'])
        if key is None or key not in COMBINATORS:
            continue
        owner, name = key
        args = t['args']
        B = _Builder(blocks, locals_, t['span'])
        dest, target = t['dest'], t['target']
        recv = args[0]
        if recv['k'] not in ('copy', 'move'):
            continue

        def callable_of(op):
            """-> ('closure', local, body) | ('ctor', owner, variant, vidx) | ('fn', callee json) | None"""
            c = _closure_of(facts, blocks, op)
            if c is not None:
                if c[1].uid in stack:
                    return None
                return ('closure', c[0], c[1])
            if op['k'] == 'const' and op.get('fn'):
                f = op['fn']
                d = f.get('def') or ''
                for ow, var, vi in ((OPT, 'Some', 1), (RES, 'Ok', 0), (RES, 'Err', 1)):
                    if d in (ow + '::' + var, ow.replace('std::', 'core::') + '::' + var):
                        return ('ctor', ow, var, vi)
                return ('fn', f)
            return None

        def emit_call(cur, fn, argops, out_local, cont):
            """Append to block `cur` the evaluation of callable fn(argops) into out_local, continuing at cont."""
            if fn[0] == 'closure':
                _, cl, cb = fn
                cin = inlined(facts, cb, depth + 1, stack + (body.uid,), t1, True)
                env_ref = cin.locals[1]['ty'].get('k') == 'ref'
                env_bind = {'k': 'rv', 'rv': {'k': 'ref', 'mut': bool(cin.locals[1]['ty'].get('mut')), 'place': _pl(cl)}} if env_ref else _cp(cl)
                mid = B.block()
                entry, binds, off_l = B.splice(cin, [env_bind] + argops, mid)
                blocks[cur]['stmts'].extend(binds)
                blocks[cur]['term'] = {'k': 'goto', 'target': entry}
                blocks[mid]['stmts'].append(B.use(out_local, _mv(off_l)))
                blocks[mid]['term'] = {'k': 'goto', 'target': cont}
            elif fn[0] == 'ctor':
                blocks[cur]['stmts'].append(B.assign(_pl(out_local), _agg(fn[1], fn[2], fn[3], argops)))
                blocks[cur]['term'] = {'k': 'goto', 'target': cont}
            else:
                blocks[cur]['term'] = B.call(fn[1], argops, out_local, cont)

        # resolve callables up front; give up (leave the call alone) when one is not a literal
        need = {'then': [1], 'then_some': [], 'map': [1], 'and_then': [1], 'filter': [1], 'or_else': [1], 'or': [], 'map_or': [2],
                'map_or_else': [1, 2], 'unwrap_or_else': [1], 'unwrap_or': [], 'ok_or': [], 'ok_or_else': [1], 'is_some_and': [1],
                'is_none_or': [1], 'map_err': [1], 'ok': [], 'err': []}.get(name)
        if need is None or any(k >= len(args) for k in need):
            continue
        fns = {k: callable_of(args[k]) for k in need}
        if any(v is None for v in fns.values()):
            continue
        guard += 1
        def arm(stmts=None):
            return B.block(stmts or [])

        def simple(cur, rv):
            # every arm writes the destination itself: the alternatives stay separate assignment sites
            blocks[cur]['stmts'].append(B.assign(dest, rv))
            blocks[cur]['term'] = {'k': 'goto', 'target': target}

        class _Fin:   # `emit_call(.., dl, fin)`: the callable's result is the result of the combinator
            pass
        dl, fin = 'DEST', 'FIN'
        _emit = emit_call

        def emit_call(cur, fn, argops, out_local, cont):
            if out_local == 'DEST':
                tmp_ = B.local()
                last = arm()
                _emit(cur, fn, argops, tmp_, last)
                simple(last, {'k': 'use', 'op': _mv(tmp_)})
            else:
                _emit(cur, fn, argops, out_local, cont)
        rplace = recv['place']

        def payload(proj):
            return {'k': 'move', 'place': {'local': rplace['local'], 'proj': list(rplace['proj']) + proj}}
        if owner == 'bool':
            yes, no = arm(), arm()
            blk['term'] = {'k': 'switch', 'discr': recv, 'discr_ty': BOOL_TY, 'targets': [[0, no]], 'otherwise': yes, 'span': t['span']}
            simple(no, _agg(OPT, 'None', 0, []))
            if name == 'then':
                tmp = B.local()
                wrap = arm()
                emit_call(yes, fns[1], [], tmp, wrap)
                simple(wrap, _agg(OPT, 'Some', 1, [_mv(tmp)]))
            else:
                simple(yes, _agg(OPT, 'Some', 1, [args[1]]))
        else:
            first, second = (('Some', SOME_P, 1), ('None', None, 0)) if owner == OPT else (('Ok', OK_P, 0), ('Err', ERR_P, 1))
            d0 = B.local(ISIZE)
            blk['stmts'].append(B.assign(_pl(d0), {'k': 'discr', 'place': rplace}))
            a1, a2 = arm(), arm()      # a1: Some / Ok ; a2: None / Err
            blk['term'] = {'k': 'switch', 'discr': _mv(d0), 'discr_ty': ISIZE, 'targets': [[first[2], a1], [second[2], a2]], 'otherwise': a2, 'span': t['span']}
            x = payload(first[1])
            e = payload(second[1]) if second[1] else None
            whole = {'k': 'move', 'place': rplace}
            tmp = B.local()
            wrap = arm()
            if owner == OPT:
                if name == 'map':
                    emit_call(a1, fns[1], [x], tmp, wrap); simple(wrap, _agg(OPT, 'Some', 1, [_mv(tmp)])); simple(a2, _agg(OPT, 'None', 0, []))
                elif name == 'and_then':
                    emit_call(a1, fns[1], [x], dl, fin); simple(a2, _agg(OPT, 'None', 0, []))
                elif name == 'filter':
                    r_ = {'k': 'rv', 'rv': {'k': 'ref', 'mut': False, 'place': x['place']}}
                    emit_call(a1, fns[1], [r_], tmp, wrap)
                    keep, drop = arm(), arm()
                    blocks[wrap]['term'] = {'k': 'switch', 'discr': _cp(tmp), 'discr_ty': BOOL_TY, 'targets': [[0, drop]], 'otherwise': keep, 'span': t['span']}
                    simple(keep, _agg(OPT, 'Some', 1, [x])); simple(drop, _agg(OPT, 'None', 0, [])); simple(a2, _agg(OPT, 'None', 0, []))
                elif name == 'or_else':
                    simple(a1, {'k': 'use', 'op': whole}); emit_call(a2, fns[1], [], dl, fin)
                elif name == 'or':
                    simple(a1, {'k': 'use', 'op': whole}); simple(a2, {'k': 'use', 'op': args[1]})
                elif name == 'map_or':
                    emit_call(a1, fns[2], [x], dl, fin); simple(a2, {'k': 'use', 'op': args[1]})
                elif name == 'map_or_else':
                    emit_call(a1, fns[2], [x], dl, fin); emit_call(a2, fns[1], [], dl, fin)
                elif name == 'unwrap_or_else':
                    simple(a1, {'k': 'use', 'op': x}); emit_call(a2, fns[1], [], dl, fin)
                elif name == 'unwrap_or':
                    simple(a1, {'k': 'use', 'op': x}); simple(a2, {'k': 'use', 'op': args[1]})
                elif name == 'ok_or':
                    simple(a1, _agg(RES, 'Ok', 0, [x])); simple(a2, _agg(RES, 'Err', 1, [args[1]]))
                elif name == 'ok_or_else':
                    simple(a1, _agg(RES, 'Ok', 0, [x])); emit_call(a2, fns[1], [], tmp, wrap); simple(wrap, _agg(RES, 'Err', 1, [_mv(tmp)]))
                elif name in ('is_some_and', 'is_none_or'):
                    emit_call(a1, fns[1], [x], dl, fin); simple(a2, {'k': 'use', 'op': _const_bool(name == 'is_none_or')})
            else:
                if name == 'map':
                    emit_call(a1, fns[1], [x], tmp, wrap); simple(wrap, _agg(RES, 'Ok', 0, [_mv(tmp)])); simple(a2, _agg(RES, 'Err', 1, [e]))
                elif name == 'map_err':
                    simple(a1, _agg(RES, 'Ok', 0, [x])); emit_call(a2, fns[1], [e], tmp, wrap); simple(wrap, _agg(RES, 'Err', 1, [_mv(tmp)]))
                elif name == 'and_then':
                    emit_call(a1, fns[1], [x], dl, fin); simple(a2, _agg(RES, 'Err', 1, [e]))
                elif name == 'or_else':
                    simple(a1, _agg(RES, 'Ok', 0, [x])); emit_call(a2, fns[1], [e], dl, fin)
                elif name == 'ok':
                    simple(a1, _agg(OPT, 'Some', 1, [x])); simple(a2, _agg(OPT, 'None', 0, []))
                elif name == 'err':
                    simple(a1, _agg(OPT, 'None', 0, [])); simple(a2, _agg(OPT, 'Some', 1, [e]))
                elif name == 'unwrap_or_else':
                    simple(a1, {'k': 'use', 'op': x}); emit_call(a2, fns[1], [e], dl, fin)
                elif name == 'map_or':
                    emit_call(a1, fns[2], [x], dl, fin); simple(a2, {'k': 'use', 'op': args[1]})
                elif name == 'map_or_else':
                    emit_call(a1, fns[2], [x], dl, fin); emit_call(a2, fns[1], [e], dl, fin)
        changed = True
        i = 0   # new blocks may contain further combinators (chains)
    return changed


def desugar_loop_filters(facts, body, blocks, locals_, depth, stack, t1=True):
    """`for x in it.filter(p) { body }` is `for x in it { if p(&x) { body } }`: the `filter` stage in front of a `for` loop is
    removed and its predicate is spliced into the head of the loop body (an item it rejects goes straight to the next one)."""
    changed = False
    for fi in range(len(blocks)):
        blk = blocks[fi]
        t = blk['term']
        if blk['cleanup'] or t['k'] != 'call' or t.get('target') is None or not t.get('callee') or len(blocks) >= MAX_BLOCKS:
            continue
        c = t['callee']
        if c.get('name') != 'filter' or not (c.get('trait') or '').endswith('iter::Iterator') or len(t['args']) != 2 or t['dest']['proj']:
            continue
        clo = _closure_of(facts, blocks, t['args'][1])
        if clo is None or clo[1].uid in stack:
            continue
        # follow the filtered iterator through plain moves / into_iter to the `next` call that drives a loop
        its = {t['dest']['local']}
        head = None
        for _ in range(6):
            grew = False
            for bi, b in enumerate(blocks):
                for st in b['stmts']:
                    if st['k'] == 'assign' and not st['place']['proj'] and st['rv'].get('k') == 'use' and _plain_local(st['rv']['op']) in its \
                            and st['place']['local'] not in its:
                        its.add(st['place']['local'])
                        grew = True
                tt = b['term']
                if tt['k'] == 'call' and tt.get('callee') and len(tt['args']) == 1 and _plain_local(tt['args'][0]) in its and not tt['dest']['proj']:
                    if tt['callee'].get('name') == 'into_iter' and tt['dest']['local'] not in its:
                        its.add(tt['dest']['local'])
                        grew = True
            if not grew:
                break
        refs = set()
        for _ in range(3):
            for b in blocks:
                for st in b['stmts']:
                    if st['k'] != 'assign' or st['place']['proj'] or st['rv'].get('k') != 'ref':
                        continue
                    rp = st['rv']['place']
                    if (rp['local'] in its and not rp['proj']) or (rp['local'] in refs and [e.get('k') for e in rp['proj']] == ['deref']):
                        refs.add(st['place']['local'])
        heads = [bi for bi, b in enumerate(blocks) if b['term']['k'] == 'call' and (b['term'].get('callee') or {}).get('name') == 'next'
                 and len(b['term']['args']) == 1 and _plain_local(b['term']['args'][0]) in refs and not b['term']['dest']['proj']
                 and b['term'].get('target') is not None]
        if len(heads) != 1:
            continue
        head = heads[0]
        # every other use of the filtered iterator must be one of the moves / borrows just followed
        other_use = False
        for bi, b in enumerate(blocks):
            for st in b['stmts']:
                if st['k'] in ('dead', 'live'):
                    continue
                if any(_uses_local(st, l) for l in its | refs):
                    pl = st.get('place', {}).get('local')
                    if st['k'] == 'assign' and (pl in its or pl in refs):
                        continue
                    other_use = True
            tt = b['term']
            if tt is t or bi == head:
                continue
            if any(_uses_local(tt, l) for l in its | refs):
                if tt['k'] == 'call' and (tt.get('callee') or {}).get('name') == 'into_iter' and tt['dest']['local'] in its:
                    continue
                if tt['k'] == 'drop':
                    continue
                other_use = True
        if other_use:
            continue
        nl = blocks[head]['term']['dest']['local']
        swb = blocks[head]['term']['target']
        sw = blocks[swb]['term']
        if sw['k'] != 'switch':
            continue
        tg = dict((v, b_) for v, b_ in sw['targets'])
        if 1 not in tg:
            continue
        some_b = tg[1]
        B = _Builder(blocks, locals_, t['span'])
        cl, cb = clo
        cin = inlined(facts, cb, depth + 1, stack + (body.uid,), t1, True)
        env_ref = cin.locals[1]['ty'].get('k') == 'ref'
        env_bind = {'k': 'rv', 'rv': {'k': 'ref', 'mut': bool(cin.locals[1]['ty'].get('mut')), 'place': _pl(cl)}} if env_ref else _cp(cl)
        item_ref = {'k': 'rv', 'rv': {'k': 'ref', 'mut': False, 'place': _pl(nl, list(SOME_P))}}
        # the old Some-arm moves to a fresh block; the arm now starts with the predicate
        body_b = B.block(blocks[some_b]['stmts'], blocks[some_b]['term'])
        mid = B.block()
        entry, binds, off_l = B.splice(cin, [env_bind, item_ref], mid)
        blocks[some_b]['stmts'] = binds
        blocks[some_b]['term'] = {'k': 'goto', 'target': entry}
        blocks[mid]['term'] = {'k': 'switch', 'discr': _cp(off_l), 'discr_ty': BOOL_TY, 'targets': [[0, head]], 'otherwise': body_b, 'span': t['span']}
        # the closure value is now read in every iteration: it must stay alive for the whole loop
        for b_ in blocks:
            b_['stmts'] = [x for x in b_['stmts'] if not (x['k'] == 'dead' and x.get('local') == cl)]
        # the stage itself: the filtered iterator is the underlying one
        blk['stmts'].append(B.assign(t['dest'], {'k': 'use', 'op': t['args'][0]}))
        blk['term'] = {'k': 'goto', 'target': t['target']}
        changed = True
    return changed


def desugar_adaptors(facts, body, blocks, locals_, depth, stack, t1=True):
    changed = False
    keep_alive = set()
    i = 0
    while i < len(blocks) and len(blocks) < MAX_BLOCKS:
        blk = blocks[i]
        t = blk['term']
        i += 1
        if blk['cleanup'] or t['k'] != 'call' or t.get('target') is None or not t.get('callee'):
            continue
        c = t['callee']
        name = c.get('name')
        if name not in CONSUMERS or not t['args']:
            continue
        tr = c.get('trait') or ''
        d = c.get('def') or ''
        is_iter_consumer = tr.endswith('iter::Iterator') and name in ('for_each', 'all', 'any', 'find', 'collect', 'fold', 'try_for_each', 'partition')
        is_extend = tr.endswith('iter::Extend') and name == 'extend'
        is_retain = name in ('retain', 'retain_mut') and ('Vec' in d or 'Map' in d or 'Set' in d or 'VecDeque' in d)
        if not (is_iter_consumer or is_extend or is_retain):
            continue
        # ---- pipeline stages between the source iterator and the consumer
        src = t['args'][1] if is_extend else t['args'][0]
        stages = []
        for _ in range(8):
            l = _plain_local(src)
            if l is None:
                break
            ds = _defs_of(blocks, l)
            if len(ds) == 1 and ds[0][1] == 'stmt' and ds[0][2]['rv'].get('k') == 'ref' and not ds[0][2]['rv']['place']['proj'] and stages == []:
                # `(&mut chain).any(..)`: consumers that take `&mut self` see the chain through a reborrow
                inner = ds[0][2]['rv']['place']['local']
                ds2 = _defs_of(blocks, inner)
                if len(ds2) == 1 and ds2[0][1] == 'call' and (ds2[0][2].get('callee') or {}).get('name') in STAGES | {'copied', 'cloned'}:
                    src = {'k': 'move', 'place': _pl(inner)}
                    continue
            if len(ds) != 1 or ds[0][1] != 'call':
                break
            ct = ds[0][2]
            cc = ct.get('callee') or {}
            if cc.get('name') in STAGES and (cc.get('trait') or '').endswith('iter::Iterator') and len(ct['args']) == 2:
                clo = _closure_of(facts, blocks, ct['args'][1])
                if clo is None:
                    break
                stages.append((cc['name'], clo))
                src = ct['args'][0]
                continue
            if cc.get('name') in ('copied', 'cloned') and (cc.get('trait') or '').endswith('iter::Iterator') and len(ct['args']) == 1:
                stages.append(('ident', None))   # item-preserving adaptor (copies are transparent for provenance)
                src = ct['args'][0]
                continue
            if cc.get('name') == 'into_iter' and is_extend and len(ct['args']) == 1:
                src = ct['args'][0]
                continue
            break
        stages.reverse()
        cons_clo = None
        if name in ('for_each', 'all', 'any', 'find', 'retain', 'retain_mut', 'fold', 'try_for_each', 'partition'):
            cons_clo = _closure_of(facts, blocks, t['args'][-1])
            if cons_clo is None:
                continue
        if cons_clo is None and not [x for x in stages if x[1] is not None]:
            continue
        if any(x[1][1].uid in stack for x in stages if x[1] is not None) or (cons_clo and cons_clo[1].uid in stack):
            continue
        B = _Builder(blocks, locals_, t['span'])
        dest = t['dest']
        target = t['target']
        for _, x in stages:
            if x is not None:
                keep_alive.add(x[0])
        if cons_clo:
            keep_alive.add(cons_clo[0])
        sl = _plain_local(src)
        if sl is not None:
            keep_alive.add(sl)
        pre = []
        exit_stmts = []
        # ---- source iterator
        if is_retain:
            recv = t['args'][0]
            it_local = B.local()
            h0 = B.block()
            blk['term'] = B.call(_pseudo_callee('iter_mut'), [{'k': 'copy', 'place': recv['place']}] if recv['k'] != 'const' else [recv], it_local, h0)
            blk = blocks[h0]
            src_op = _mv(it_local)
            src_is_ref = False
        else:
            src_op = src
            sl2 = _plain_local(src)
            src_is_ref = sl2 is not None and locals_[sl2]['ty'].get('k') == 'ref'
        n_local = B.local()
        item = B.local()
        exit_b = B.block()
        head = B.block()
        sw = B.block()
        body0 = B.block()
        # next
        if src_is_ref or _plain_local(src_op) is None:
            nxt_arg = {'k': 'copy', 'place': src_op['place']} if src_op['k'] in ('copy', 'move') else src_op
            blocks[head]['term'] = B.call(NEXT_CALLEE(None), [nxt_arg], n_local, sw)
        else:
            r = B.local({'k': 'ref', 'mut': True, 'ty': locals_[_plain_local(src_op)]['ty'], 's': '&mut ?'})
            blocks[head]['stmts'].append(B.assign(_pl(r), {'k': 'ref', 'mut': True, 'place': _pl(_plain_local(src_op))}))
            blocks[head]['term'] = B.call(NEXT_CALLEE(locals_[_plain_local(src_op)]['ty']), [_mv(r)], n_local, sw)
        disc = B.local({'k': 'prim', 'name': 'isize', 's': 'isize'})
        blocks[sw]['stmts'].append(B.assign(_pl(disc), {'k': 'discr', 'place': _pl(n_local)}))
        blocks[sw]['term'] = {'k': 'switch', 'discr': _mv(disc), 'discr_ty': {'k': 'prim', 'name': 'isize', 's': 'isize'},
                              'targets': [[0, exit_b], [1, body0]], 'otherwise': exit_b, 'span': t['span']}
        blocks[body0]['stmts'].append(B.use(item, _mv(n_local, SOME0)))
        cur = body0
        cur_item = item
        # ---- stages
        for sname, x in stages:
            if x is None:
                continue
            cl, cb = x
            cin = inlined(facts, cb, depth + 1, stack + (body.uid,), t1, True)
            env_ref = cin.locals[1]['ty'].get('k') == 'ref'
            env_bind = {'k': 'rv', 'rv': {'k': 'ref', 'mut': bool(cin.locals[1]['ty'].get('mut')), 'place': _pl(cl)}} if env_ref else _cp(cl)
            cont = B.block()
            if sname == 'filter':
                arg = {'k': 'rv', 'rv': {'k': 'ref', 'mut': False, 'place': _pl(cur_item)}}
            else:
                arg = _mv(cur_item)
            entry, binds, off_l = B.splice(cin, [env_bind, arg], cont)
            blocks[cur]['stmts'].extend(binds)
            blocks[cur]['term'] = {'k': 'goto', 'target': entry}
            ret = off_l
            nxt = B.block()
            if sname == 'filter':
                blocks[cont]['term'] = {'k': 'switch', 'discr': _cp(ret), 'discr_ty': BOOL_TY, 'targets': [[0, head]], 'otherwise': nxt, 'span': t['span']}
            elif sname == 'map':
                ni = B.local()
                blocks[cont]['stmts'].append(B.use(ni, _mv(ret)))
                blocks[cont]['term'] = {'k': 'goto', 'target': nxt}
                cur_item = ni
            else:  # filter_map
                d2 = B.local({'k': 'prim', 'name': 'isize', 's': 'isize'})
                blocks[cont]['stmts'].append(B.assign(_pl(d2), {'k': 'discr', 'place': _pl(ret)}))
                blocks[cont]['term'] = {'k': 'switch', 'discr': _mv(d2), 'discr_ty': {'k': 'prim', 'name': 'isize', 's': 'isize'},
                                        'targets': [[0, head], [1, nxt]], 'otherwise': head, 'span': t['span']}
                ni = B.local()
                blocks[nxt]['stmts'].append(B.use(ni, _mv(ret, SOME0)))
                cur_item = ni
            cur = nxt
        # ---- consumer
        dl = dest['local'] if not dest['proj'] else None
        if dl is None:
            tmpd = B.local()
            exit_stmts.append(B.assign(dest, {'k': 'use', 'op': _mv(tmpd)}))
            dl = tmpd
        if name in ('for_each', 'all', 'any', 'find', 'retain', 'retain_mut', 'fold', 'try_for_each', 'partition'):
            cl, cb = cons_clo
            cin = inlined(facts, cb, depth + 1, stack + (body.uid,), t1, True)
            env_ref = cin.locals[1]['ty'].get('k') == 'ref'
            env_bind = {'k': 'rv', 'rv': {'k': 'ref', 'mut': bool(cin.locals[1]['ty'].get('mut')), 'place': _pl(cl)}} if env_ref else _cp(cl)
            cont = B.block()
            if name == 'fold':
                acc = B.local()
                pre.append(B.use(acc, t['args'][1]))
                params = [env_bind, _mv(acc), _mv(cur_item)]
            elif name in ('retain', 'retain_mut') and cin.arg_count == 3:
                params = [env_bind, _cp(cur_item, [_tuple_field(0)]), _cp(cur_item, [_tuple_field(1)])]
            elif name in ('find', 'partition'):
                params = [env_bind, {'k': 'rv', 'rv': {'k': 'ref', 'mut': False, 'place': _pl(cur_item)}}]
            else:
                params = [env_bind, _cp(cur_item)]
            entry, binds, off_l = B.splice(cin, params, cont)
            blocks[cur]['stmts'].extend(binds)
            blocks[cur]['term'] = {'k': 'goto', 'target': entry}
            ret = off_l
            if name == 'for_each':
                blocks[cont]['term'] = {'k': 'goto', 'target': head}
                exit_stmts.insert(0, B.use(dl, {'k': 'const', 'ty': {'k': 'tuple', 'elems': [], 's': '()'}, 'val': None, 's': '()'}))
            elif name in ('all', 'any'):
                pre.append(B.use(dl, _const_bool(name == 'all')))
                hit = B.block([B.use(dl, _const_bool(name != 'all'))], {'k': 'goto', 'target': exit_b})
                if name == 'all':
                    blocks[cont]['term'] = {'k': 'switch', 'discr': _cp(ret), 'discr_ty': BOOL_TY, 'targets': [[0, hit]], 'otherwise': head, 'span': t['span']}
                else:
                    blocks[cont]['term'] = {'k': 'switch', 'discr': _cp(ret), 'discr_ty': BOOL_TY, 'targets': [[0, head]], 'otherwise': hit, 'span': t['span']}
            elif name == 'find':
                pre.append(B.assign(_pl(dl), {'k': 'agg', 'agg': 'adt', 'path': 'std::option::Option', 'variant': 'None', 'vidx': 0,
                                               'is_enum': True, 'fields': [], 'ops': []}))
                hit = B.block([B.assign(_pl(dl), {'k': 'agg', 'agg': 'adt', 'path': 'std::option::Option', 'variant': 'Some', 'vidx': 1,
                                                  'is_enum': True, 'fields': ['0'], 'ops': [_mv(cur_item)]})], {'k': 'goto', 'target': exit_b})
                blocks[cont]['term'] = {'k': 'switch', 'discr': _cp(ret), 'discr_ty': BOOL_TY, 'targets': [[0, head]], 'otherwise': hit, 'span': t['span']}
            elif name in ('retain', 'retain_mut'):
                tmp = B.local()
                drop = B.block([], B.call(_pseudo_callee('remove'), [{'k': 'copy', 'place': t['args'][0]['place']}, _cp(cur_item)], tmp, head))
                blocks[cont]['term'] = {'k': 'switch', 'discr': _cp(ret), 'discr_ty': BOOL_TY, 'targets': [[0, drop]], 'otherwise': head, 'span': t['span']}
                exit_stmts.insert(0, B.use(dl, {'k': 'const', 'ty': {'k': 'tuple', 'elems': [], 's': '()'}, 'val': None, 's': '()'}))
            elif name == 'fold':
                blocks[cont]['stmts'].append(B.use(acc, _mv(ret)))
                blocks[cont]['term'] = {'k': 'goto', 'target': head}
                exit_stmts.insert(0, B.use(dl, _mv(acc)))
            elif name == 'try_for_each':
                # `Ok(())` unless the closure returns an `Err`, which ends the walk and is the result
                pre.append(B.assign(_pl(dl), _agg(RES, 'Ok', 0, [{'k': 'const', 'ty': {'k': 'tuple', 'elems': [], 's': '()'}, 'val': None, 's': '()'}])))
                d3 = B.local(ISIZE)
                blocks[cont]['stmts'].append(B.assign(_pl(d3), {'k': 'discr', 'place': _pl(ret)}))
                hit = B.block([B.use(dl, _mv(ret))], {'k': 'goto', 'target': exit_b})
                blocks[cont]['term'] = {'k': 'switch', 'discr': _mv(d3), 'discr_ty': ISIZE, 'targets': [[0, head], [1, hit]], 'otherwise': hit, 'span': t['span']}
            elif name == 'partition':
                # two collections: the items the predicate accepts, and the others
                ca, cb2 = B.local(), B.local()
                ra = B.local({'k': 'ref', 'mut': True, 'ty': UNK_TY, 's': '&mut ?'})
                rb = B.local({'k': 'ref', 'mut': True, 'ty': UNK_TY, 's': '&mut ?'})
                ta, tb = B.local(), B.local()
                yes = B.block([B.assign(_pl(ra), {'k': 'ref', 'mut': True, 'place': _pl(ca)})], B.call(_pseudo_callee('insert'), [_mv(ra), _mv(cur_item)], ta, head))
                no = B.block([B.assign(_pl(rb), {'k': 'ref', 'mut': True, 'place': _pl(cb2)})], B.call(_pseudo_callee('insert'), [_mv(rb), _mv(cur_item)], tb, head))
                blocks[cont]['term'] = {'k': 'switch', 'discr': _cp(ret), 'discr_ty': BOOL_TY, 'targets': [[0, no]], 'otherwise': yes, 'span': t['span']}
                # both collections are created before the loop, the pair is built after it
                n1 = B.block()
                n2 = B.block()
                pre_blocks = (n1, n2, ca, cb2)
                exit_stmts.insert(0, B.assign(_pl(dl), {'k': 'agg', 'agg': 'tuple', 'ops': [_mv(ca), _mv(cb2)]}))
        elif name == 'collect':
            nb = B.block()
            # dest = new collection before the loop
            blk2 = B.block()
            pre_call = ('collect-new', dl)
            tmp = B.local()
            r = B.local({'k': 'ref', 'mut': True, 'ty': UNK_TY, 's': '&mut ?'})
            blocks[cur]['stmts'].append(B.assign(_pl(r), {'k': 'ref', 'mut': True, 'place': _pl(dl)}))
            blocks[cur]['term'] = B.call(_pseudo_callee('insert'), [_mv(r), _mv(cur_item)], tmp, head)
            pre = [('call-new', dl)] + pre
        elif name == 'extend':
            tmp = B.local()
            recv = t['args'][0]
            blocks[cur]['term'] = B.call(_pseudo_callee('insert'), [{'k': 'copy', 'place': recv['place']}, _mv(cur_item)], tmp, head)
            exit_stmts.insert(0, B.use(dl, {'k': 'const', 'ty': {'k': 'tuple', 'elems': [], 's': '()'}, 'val': None, 's': '()'}))
        # ---- wire PRE and EXIT
        blocks[exit_b]['stmts'] = exit_stmts
        blocks[exit_b]['term'] = {'k': 'goto', 'target': target}
        if name == 'partition' and cons_clo:
            n1, n2, ca, cb2 = pre_blocks
            blk['stmts'].extend(pre)
            blk['term'] = B.call(_pseudo_callee('new'), [], ca, n1)
            blocks[n1]['term'] = B.call(_pseudo_callee('new'), [], cb2, n2)
            blocks[n2]['term'] = {'k': 'goto', 'target': head}
        elif pre and pre[0] == ('call-new', dl):
            pre = pre[1:]
            mid = B.block(pre, {'k': 'goto', 'target': head})
            blk['term'] = B.call(_pseudo_callee('new'), [], dl, mid)
        else:
            blk['stmts'].extend(pre)
            blk['term'] = {'k': 'goto', 'target': head}
        changed = True
    if keep_alive:
        for b in blocks:
            b['stmts'] = [s for s in b['stmts'] if not (s['k'] == 'dead' and s['local'] in keep_alive)]
    return changed
