"""Analyse /repo with a patch applied in a scratch copy (never touches /repo): prints every rule violation.
usage: python3 -m analysis.seedcheck <patch.diff> [prop]"""
import os
import shutil
import subprocess
import sys
import tempfile

from . import core, extract, facts as F
from . import rules  # noqa


def core_props(r):
    if r.props:
        return r.props
    for rd in core.RULES:
        if rd.id == r.rule:
            return list(rd.props)
    return []


def run(patch, prop=None):
    tmp = tempfile.mkdtemp(prefix='crdt-seed-')
    try:
        shutil.copytree(os.path.join(extract.REPO, 'src'), os.path.join(tmp, 'src'))
        for f in ('Cargo.toml', 'Cargo.lock'):
            shutil.copy(os.path.join(extract.REPO, f), os.path.join(tmp, f))
        r = subprocess.run(['patch', '-p1', '-s', '-i', os.path.abspath(patch)], cwd=tmp, capture_output=True, text=True)
        if r.returncode != 0:
            return None, 'patch does not apply: ' + r.stdout + r.stderr
        fd = extract.extract_variant(tmp, extract.rustc_cmdline('default'))
        facts = F.Facts(fd)
        ctx = core.Ctx(facts)
        core.run_rules(ctx, prop=prop)
        known, _ = core.load_known()
        kk = set(k for _, k in known)
        bad = [x for x in ctx.results if x.status in ('violation', 'shape') and x.key not in kk]
        return bad, None
    finally:
        shutil.rmtree(tmp, ignore_errors=True)


if __name__ == '__main__':
    bad, err = run(sys.argv[1], sys.argv[2] if len(sys.argv) > 2 else None)
    if err:
        print('ERROR', err)
        sys.exit(2)
    for r in bad:
        print('%s %s/%s [%s] %s:%s %s' % (r.status.upper(), r.rule, r.instance, ','.join(sorted(core_props(r))), r.file, r.line, r.msg[:300]))
    print('%d violations' % len(bad))
