"""dev helper: python3 analysis/run_dev.py [--mut <selftest id>] [--view inl] [-v] [RULE ...]"""
import sys, json, os, shutil
sys.path.insert(0, '/verif')
from analysis import facts as F, core
from analysis import rules  # noqa
args = sys.argv[1:]
path = '/verif/.cache/facts-default.json'
if '--mut' in args:
    i = args.index('--mut'); mid = args[i + 1]; del args[i:i + 2]
    from analysis import selftest, extract
    ms = {m['id']: m for m in selftest.load_mutants()}
    tmp, why = selftest.make_variant(ms[mid])
    fd = extract.extract_variant(tmp, extract.rustc_cmdline('default'))
    shutil.rmtree(tmp)
    path = '/verif/.cache/variant.json'
    json.dump(fd, open(path, 'w'))
if '--facts' in args:
    i = args.index('--facts'); path = args[i + 1]; del args[i:i + 2]
if '--view' in args:
    i = args.index('--view'); core.VIEWS[:] = [args[i + 1]]; del args[i:i + 2]
f = F.load(path)
ctx = core.Ctx(f)
verbose = '-v' in args
only = set(a for a in args if not a.startswith('-')) or None
core.run_rules(ctx, only=only)
for r in ctx.results:
    print('%-9s %-14s %-28s %s:%s  %s' % (r.status.upper(), r.rule, r.instance, r.file, r.line, r.msg))
    if verbose or r.status != 'ok':
        print('          ', json.dumps(r.details)[:600])
