import sys, json
sys.path.insert(0, '/verif')
from analysis import facts as F, core
from analysis import rules  # noqa
f = F.load('/verif/.cache/facts-default.json')
ctx = core.Ctx(f)
only = set(sys.argv[1:]) or None
core.run_rules(ctx, only=only)
for r in ctx.results:
    print('%-9s %-14s %-28s %s:%s  %s' % (r.status.upper(), r.rule, r.instance, r.file, r.line, r.msg))
    if '-v' in sys.argv or r.status != 'ok':
        print('          ', json.dumps(r.details)[:600])
