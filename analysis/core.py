"""Rule registry, result records, known findings."""
import os
import re
import traceback

VERIF = os.path.dirname(os.path.dirname(os.path.abspath(__file__)))

RULES = []  # list of RuleDef


class RuleDef:
    def __init__(self, rid, props, floor, fn, doc, family, inst_filter=None):
        self.inst_filter = inst_filter or {}
        self.id = rid
        self.props = props
        self.floor = floor
        self.fn = fn
        self.doc = doc
        self.family = family


def rule(rid, props, floor=1, family=None, inst_filter=None):
    """Register a rule. `props` maps property id -> one-line necessity argument.
    `floor` = number of instances counted by hand on the pinned tree; fewer evaluated
    instances is a violation (a rule matching nothing must not pass vacuously)."""
    def deco(fn):
        RULES.append(RuleDef(rid, props, floor, fn, (fn.__doc__ or '').strip(), family or rid.split('-')[0], inst_filter))
        return fn
    return deco


class MissingAnchor(Exception):
    pass


class Result:
    __slots__ = ('rule', 'instance', 'status', 'fn', 'file', 'line', 'msg', 'details', 'props', 'nontrivial')

    def __init__(self, rule, instance, status, fn, file, line, msg, details=None, props=None, nontrivial=True):
        self.rule = rule
        self.instance = instance
        self.status = status  # ok | violation | shape
        self.fn = fn
        self.file = file
        self.line = line
        self.msg = msg
        self.details = details or {}
        self.props = props
        self.nontrivial = nontrivial

    @property
    def key(self):
        return '%s:%s:%s' % (self.rule, self.fn, self.instance)

    def to_json(self):
        return {'rule': self.rule, 'instance': self.instance, 'status': self.status, 'function': self.fn,
                'where': '%s:%s' % (self.file, self.line), 'message': self.msg, 'details': self.details,
                'key': self.key}


class Ctx:
    def __init__(self, facts, feature_set='default'):
        self.facts = facts
        self.feature_set = feature_set
        self.results = []
        self.current = None
        self.analysed = set()
        self.unclassified = []

    # ---- anchors
    def method(self, adt, trait, name):
        b = self.facts.trait_impl_method(adt, trait, name)
        if b is None:
            raise MissingAnchor('<%s as %s>::%s not found' % (adt, trait, name))
        self.analysed.add(b.key)
        return b

    def inherent(self, adt, name):
        b = self.facts.inherent_method(adt, name)
        if b is None:
            raise MissingAnchor('%s::%s not found' % (adt, name))
        self.analysed.add(b.key)
        return b

    def adt(self, path):
        a = self.facts.adts.get(path)
        if a is None:
            raise MissingAnchor('type %s not found' % path)
        return a

    # ---- results
    def _add(self, status, instance, body, msg, line=None, details=None, props=None, nontrivial=True, fnkey=None):
        r = Result(self.current.id, instance, status,
                   fnkey if fnkey is not None else (body.key if body is not None else '-'),
                   body.file if body is not None else '-',
                   line if line is not None else (body.line if body is not None else 0),
                   msg, details, props, nontrivial)
        self.results.append(r)
        return r

    def ok(self, instance, body, msg, line=None, details=None, props=None, nontrivial=True, fnkey=None):
        return self._add('ok', instance, body, msg, line, details, props, nontrivial, fnkey)

    def fail(self, instance, body, msg, line=None, details=None, props=None, fnkey=None):
        return self._add('violation', instance, body, msg, line, details, props, True, fnkey)

    def shape(self, instance, body, msg, line=None, details=None, props=None, fnkey=None):
        return self._add('shape', instance, body, 'expected shape not found: ' + msg, line, details, props, True, fnkey)

    def check(self, cond, instance, body, ok_msg, fail_msg, line=None, details=None, props=None, nontrivial=True, fnkey=None):
        if cond:
            return self.ok(instance, body, ok_msg, line, details, props, nontrivial, fnkey)
        return self.fail(instance, body, fail_msg, line, details, props, fnkey)


# views: 'orig' = as written; 's' = closures of iterator adaptors spliced into explicit loops;
# 'i' = private helpers inlined; 'is' = both; 'p' = also the other functions of the same type inlined; 'ps'
VIEWS = ['orig', 's', 'i', 'is', 'p', 'ps']


def _run_one(ctx, rd, view):
    """Run one rule in one view; returns its results (floor enforced)."""
    ctx.facts.view = view
    before = len(ctx.results)
    try:
        rd.fn(ctx)
    except MissingAnchor as e:
        ctx.shape('anchor', None, str(e))
    except Exception as e:  # a crash of a recogniser is a fail-closed shape error, reported as such
        tb = traceback.format_exc().splitlines()[-6:]
        ctx.shape('internal', None, 'rule raised %s: %s' % (type(e).__name__, e), details={'trace': tb})
    mine = ctx.results[before:]
    evaluated = [r for r in mine if r.status in ('ok', 'violation')]
    if len(evaluated) < rd.floor and not any(r.status == 'shape' for r in mine):
        ctx.shape('floor', None, 'rule %s evaluated %d instances, floor is %d (an anchor or idiom vanished)'
                  % (rd.id, len(evaluated), rd.floor))
        mine = ctx.results[before:]
    del ctx.results[before:]
    ctx.facts.view = 'orig'
    for r in mine:
        if r.props is None and rd.inst_filter:
            r.props = [p for p in rd.props if p not in rd.inst_filter or rd.inst_filter[p](r.instance)]
        if view != 'orig':
            r.details = dict(r.details or {}, view=view)
    return mine


def run_rules(ctx, prop=None, only=None):
    """Run every rule serving `prop` (all when None). Floors are enforced per rule.
    A rule is evaluated on the function as written; if some instance fails it is re-evaluated on equivalent *views*
    of the same functions (private helpers inlined, ..).  A clause that holds on an equivalent view holds; the verdict
    is taken from the view with the fewest failures (the original view on ties)."""
    for rd in RULES:
        if prop is not None and prop not in rd.props:
            continue
        if only is not None and rd.id not in only:
            continue
        ctx.current = rd
        best = None
        for view in VIEWS:
            res = _run_one(ctx, rd, view)
            nbad = sum(1 for r in res if r.status in ('violation', 'shape'))
            nshape = sum(1 for r in res if r.status == 'shape')
            if best is None or (nbad, nshape) < best[0]:
                best = ((nbad, nshape), res)
            if nbad == 0:
                break
        ctx.results.extend(best[1])
    ctx.current = None
    return ctx.results


# ---------------------------------------------------------------- known findings

def load_known():
    known, fixed = {}, []
    p = os.path.join(VERIF, 'known_findings.txt')
    if not os.path.exists(p):
        return known, fixed
    for line in open(p):
        line = line.strip()
        if not line or line.startswith('#'):
            continue
        m = re.match(r'known:\s+property=(\S+)\s+key="([^"]+)"\s+(.*)$', line)
        if m:
            known[(m.group(1), m.group(2))] = m.group(3)
            continue
        m = re.match(r'fixed:\s+property=(\S+)\s+(\S+)\s+(.*)$', line)
        if m:
            fixed.append((m.group(1), m.group(2), m.group(3)))
    return known, fixed
