"""Extra work of the thorough tier: compile-fail/compile-pass witnesses and the checker self-test."""


def run(pid):
    out = {}
    try:
        from . import selftest
        res, dt = selftest.run_all(props=[pid])
        valid = [r for r in res if r['status'] in ('fired', 'missed')]
        out['selftest_total'] = len(valid)
        out['selftest_fired'] = sum(r['status'] == 'fired' for r in valid)
        out['selftest_missed'] = [r['id'] for r in valid if r['status'] == 'missed']
        ben = [r for r in res if r['status'] in ('silent', 'false-alarm')]
        out['selftest_benign_total'] = len(ben)
        out['selftest_benign_silent'] = sum(r['status'] == 'silent' for r in ben)
        out['selftest_skipped'] = [r['id'] for r in res if r['status'] in ('skipped', 'invalid')]
        out['selftest_wall_s'] = round(dt, 1)
    except Exception as e:  # the self-test can never turn a passing check into a failing one
        out['selftest_error'] = repr(e)
    return out
