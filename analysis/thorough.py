"""Extra work of the thorough tier: compile-fail/compile-pass witnesses and the checker self-test."""
import os
import re
import shutil
import subprocess
import time

from . import core, extract

VERIF = core.VERIF
WITNESS_PROPS = {'C07': 'c07', 'C16': 'c16', 'C17': 'c17', 'C19': 'c19'}


class WitnessViolation:
    def __init__(self, pid, name, line, kind, out):
        self.rule = 'WITNESS'
        self.instance = name
        self.status = 'violation'
        self.fn = 'witness/src/lib.rs'
        self.file = 'witness/src/lib.rs'
        self.line = line
        self.kind = kind
        self.msg = ('type-level witness %s (%s) no longer holds: %s' % (
            name, kind, 'the program that must be rejected now compiles' if kind == 'compile fail' else 'the twin that must compile is rejected'))
        self.details = {'output': out[-1500:]}
        self.props = [pid]
        self.nontrivial = True

    @property
    def key(self):
        return 'WITNESS:%s:%s' % (self.instance, self.kind.replace(' ', '-'))

    def to_json(self):
        return {'rule': self.rule, 'instance': self.instance, 'status': self.status, 'function': self.fn,
                'where': '%s:%s' % (self.file, self.line), 'message': self.msg, 'details': self.details, 'key': self.key}


def run_witnesses(pid):
    mod = WITNESS_PROPS.get(pid)
    if mod is None:
        return {}
    wdir = os.path.join(VERIF, 'witness')
    shutil.copy(os.path.join(extract.REPO, 'Cargo.lock'), os.path.join(wdir, 'Cargo.lock'))
    env = dict(os.environ)
    env['CARGO_NET_OFFLINE'] = 'true'
    env['CARGO_TARGET_DIR'] = os.path.join(extract.CACHE, 'target-witness')
    env.pop('RUSTC_WORKSPACE_WRAPPER', None)
    env.pop('RUSTFLAGS', None)
    t0 = time.time()
    r = subprocess.run(['cargo', '+nightly', 'test', '--doc', '--offline', '--', mod + '::'], cwd=wdir, env=env, capture_output=True, text=True)
    out = r.stdout + r.stderr
    tests = re.findall(r'^test src/lib\.rs - (\S+) \(line (\d+)\)( - compile fail| - compile)? \.\.\. (ok|FAILED)', out, re.M)
    res = {'witnesses': len(tests), 'witnesses_ok': sum(1 for t in tests if t[3] == 'ok'), 'witness_wall_s': round(time.time() - t0, 1),
           'witness_names': sorted(set(t[0] for t in tests))}
    viol = []
    for name, line, kind, st in tests:
        if st != 'ok':
            viol.append(WitnessViolation(pid, name, int(line), (kind or ' - compile').replace(' - ', ''), out))
    if not tests:
        res['witness_error'] = out[-800:]
    res['witness_violations'] = viol
    return res


def run(pid):
    out = {}
    try:
        out.update(run_witnesses(pid))
    except Exception as e:
        out['witness_error'] = repr(e)
    try:
        from . import selftest
        res, dt = selftest.run_all(props=[pid])
        valid = [r for r in res if r['status'] in ('fired', 'missed')]
        out['selftest_total'] = len(valid)
        out['selftest_fired'] = sum(r['status'] == 'fired' for r in valid)
        out['selftest_missed'] = [r['id'] for r in valid if r['status'] == 'missed']
        ben = [r for r in res if r['status'] in ('silent', 'false-alarm')]
        out['selftest_benign_total'] = len(ben)
        out['selftest_benign_silent'] = sum(r['status'] == 'silent' for r in ben)
        out['selftest_benign_false_alarms'] = [r['id'] for r in ben if r['status'] == 'false-alarm']
        unrec = [r for r in res if r['status'] in ('unrecognised', 'recognised')]
        out['selftest_unrecognised_rewrites'] = {'total': len(unrec), 'alarming_for_this_property': [r['id'] for r in unrec if r['status'] == 'unrecognised'],
                                                 'note': 'behaviour-preserving rewrites outside the recognised idiom set (selftest/unrecognised_patches/README.md)'}
        out['selftest_skipped'] = [r['id'] for r in res if r['status'] in ('skipped', 'invalid')]
        out['selftest_wall_s'] = round(dt, 1)
    except Exception as e:  # the self-test can never turn a passing check into a failing one
        out['selftest_error'] = repr(e)
    return out
