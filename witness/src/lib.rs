//! Type-level witnesses for the rust-crdt static checks (DESIGN §2.2 A7).
//!
//! Every `compile_fail,E0xxx` example is paired with a `no_run` twin that differs only in the
//! offending line, so a witness whose paths are merely wrong cannot pass.  Nothing of `crdts`
//! is ever executed: twins are `no_run`, compile_fail examples do not build.
//! Run with `cargo +nightly test --doc --offline` (stable ignores the error codes).

/// C07 — contexts are spent exactly once.
pub mod c07 {
    /// An `AddCtx` cannot be used for two ops (it is neither `Clone` nor `Copy`).
    /// ```compile_fail,E0382
    /// use crdts::{CmRDT, Orswot};
    /// let s: Orswot<u8, u8> = Orswot::new();
    /// let ctx = s.read_ctx().derive_add_ctx(1);
    /// let _a = s.add(1, ctx);
    /// let _b = s.add(2, ctx); // second spend of the same dot
    /// ```
    /// twin:
    /// ```no_run
    /// use crdts::{CmRDT, Orswot};
    /// let s: Orswot<u8, u8> = Orswot::new();
    /// let ctx = s.read_ctx().derive_add_ctx(1);
    /// let _a = s.add(1, ctx);
    /// ```
    pub struct AddCtxSingleUse;

    /// A `ReadCtx` is consumed when a context is derived from it.
    /// ```compile_fail,E0382
    /// use crdts::Orswot;
    /// let s: Orswot<u8, u8> = Orswot::new();
    /// let r = s.read_ctx();
    /// let _a = r.derive_add_ctx(1);
    /// let _b = r.derive_add_ctx(1); // would hand out the same dot twice
    /// ```
    /// twin:
    /// ```no_run
    /// use crdts::Orswot;
    /// let s: Orswot<u8, u8> = Orswot::new();
    /// let r = s.read_ctx();
    /// let _a = r.derive_add_ctx(1);
    /// ```
    pub struct ReadCtxConsumed;

    /// `AddCtx` is not `Clone`.
    /// ```compile_fail,E0599
    /// use crdts::Orswot;
    /// let s: Orswot<u8, u8> = Orswot::new();
    /// let ctx = s.read_ctx().derive_add_ctx(1);
    /// let _c = ctx.clone();
    /// ```
    /// twin (RmCtx is Clone: removing twice with one context is harmless):
    /// ```no_run
    /// use crdts::Orswot;
    /// let s: Orswot<u8, u8> = Orswot::new();
    /// let ctx = s.read_ctx().derive_rm_ctx();
    /// let _c = ctx.clone();
    /// ```
    pub struct AddCtxNotClone;

    /// The replica clock of an Orswot cannot be written from outside the crate.
    /// ```compile_fail,E0616
    /// use crdts::{Orswot, VClock};
    /// let mut s: Orswot<u8, u8> = Orswot::new();
    /// s.clock = VClock::new();
    /// ```
    /// twin:
    /// ```no_run
    /// use crdts::{Orswot, VClock};
    /// let s: Orswot<u8, u8> = Orswot::new();
    /// let _c: VClock<u8> = s.clock();
    /// ```
    pub struct OrswotClockPrivate;

    /// The state of a Map cannot be written from outside the crate.
    /// ```compile_fail,E0616
    /// use crdts::{Map, MVReg};
    /// let mut m: Map<u8, MVReg<u8, u8>, u8> = Map::new();
    /// m.entries = Default::default();
    /// ```
    /// twin:
    /// ```no_run
    /// use crdts::{Map, MVReg};
    /// let m: Map<u8, MVReg<u8, u8>, u8> = Map::new();
    /// let _n = m.len();
    /// ```
    pub struct MapStatePrivate;

    /// Reads and op constructors need only a shared borrow.
    /// ```no_run
    /// use crdts::{Map, MVReg, Orswot};
    /// fn reads(s: &Orswot<u8, u8>, m: &Map<u8, MVReg<u8, u8>, u8>, r: &MVReg<u8, u8>) {
    ///     let _ = s.read(); let _ = s.read_ctx(); let _ = s.contains(&1); let _ = s.iter().count();
    ///     let _ = m.len(); let _ = m.is_empty(); let _ = m.read_ctx(); let _ = m.get(&1);
    ///     let _ = m.keys().count(); let _ = m.values().count(); let _ = m.iter().count();
    ///     let _ = r.read(); let _ = r.read_ctx();
    ///     let _ = s.add(1, s.read_ctx().derive_add_ctx(1));
    ///     let _ = s.rm(1, s.contains(&1).derive_rm_ctx());
    ///     let _ = m.update(1, m.read_ctx().derive_add_ctx(1), |v, c| v.write(1, c));
    ///     let _ = m.rm(1, m.get(&1).derive_rm_ctx());
    /// }
    /// ```
    /// and a read cannot be given the right to mutate through a shared borrow:
    /// ```compile_fail,E0596
    /// use crdts::{CmRDT, Orswot};
    /// fn sneaky(s: &Orswot<u8, u8>) {
    ///     let op = s.add(1, s.read_ctx().derive_add_ctx(1));
    ///     s.apply(op);
    /// }
    /// ```
    pub struct ReadsTakeSharedBorrow;
}

/// C16 — order-free types accept every op: `Validation = Infallible`.
pub mod c16 {
    /// ```no_run
    /// use std::convert::Infallible;
    /// use crdts::{CmRDT, GCounter, PNCounter, GSet, MaxReg, MinReg, MVReg, GList, Dot};
    /// fn f(g: &GCounter<u8>, p: &PNCounter<u8>, s: &GSet<u8>, mx: &MaxReg<u8>, mn: &MinReg<u8>, r: &MVReg<u8, u8>, l: &GList<u8>) {
    ///     let _: Result<(), Infallible> = g.validate_op(&Dot::new(1, 1));
    ///     let _: Result<(), Infallible> = p.validate_op(&p.inc(1));
    ///     let _: Result<(), Infallible> = s.validate_op(&1);
    ///     let _: Result<(), Infallible> = mx.validate_op(&1);
    ///     let _: Result<(), Infallible> = mn.validate_op(&1);
    ///     let _: Result<(), Infallible> = r.validate_op(&r.write(1, r.read_ctx().derive_add_ctx(1)));
    ///     let _: Result<(), Infallible> = l.validate_op(&l.insert(0, 1));
    /// }
    /// ```
    /// while the ordered types have a real error type:
    /// ```compile_fail,E0308
    /// use std::convert::Infallible;
    /// use crdts::{CmRDT, Orswot};
    /// fn f(s: &Orswot<u8, u8>) {
    ///     let op = s.add(1, s.read_ctx().derive_add_ctx(1));
    ///     let _: Result<(), Infallible> = s.validate_op(&op);
    /// }
    /// ```
    pub struct OrderFreeOpsInfallible;
}

/// C17 — conflict-free types accept every merge: `Validation = Infallible`.
pub mod c17 {
    /// ```no_run
    /// use std::convert::Infallible;
    /// use crdts::{CvRDT, VClock, GCounter, PNCounter, GSet, MaxReg, MinReg, MVReg, GList};
    /// use crdts::merkle_reg::MerkleReg;
    /// fn f(v: &VClock<u8>, g: &GCounter<u8>, p: &PNCounter<u8>, s: &GSet<u8>, mx: &MaxReg<u8>, mn: &MinReg<u8>,
    ///      r: &MVReg<u8, u8>, l: &GList<u8>, k: &MerkleReg<String>) {
    ///     let _: Result<(), Infallible> = v.validate_merge(v);
    ///     let _: Result<(), Infallible> = g.validate_merge(g);
    ///     let _: Result<(), Infallible> = p.validate_merge(p);
    ///     let _: Result<(), Infallible> = s.validate_merge(s);
    ///     let _: Result<(), Infallible> = mx.validate_merge(mx);
    ///     let _: Result<(), Infallible> = mn.validate_merge(mn);
    ///     let _: Result<(), Infallible> = r.validate_merge(r);
    ///     let _: Result<(), Infallible> = l.validate_merge(l);
    ///     let _: Result<(), Infallible> = k.validate_merge(k);
    /// }
    /// ```
    /// while Orswot can report a reused dot:
    /// ```compile_fail,E0308
    /// use std::convert::Infallible;
    /// use crdts::{CvRDT, Orswot};
    /// fn f(s: &Orswot<u8, u8>) {
    ///     let _: Result<(), Infallible> = s.validate_merge(s);
    /// }
    /// ```
    pub struct ConflictFreeMergesInfallible;
}

/// C19 — every state and op type is `Serialize + DeserializeOwned`.
pub mod c19 {
    /// ```no_run
    /// use serde::{de::DeserializeOwned, Serialize};
    /// use crdts::{Dot, OrdDot, VClock, GCounter, PNCounter, GSet, LWWReg, MaxReg, MinReg, MVReg, Orswot, Map, GList, List, Identifier};
    /// use crdts::merkle_reg::{MerkleReg, Node};
    /// use crdts::ctx::{ReadCtx, AddCtx, RmCtx};
    /// fn ok<T: Serialize + DeserializeOwned>() {}
    /// ok::<Dot<u8>>(); ok::<OrdDot<u8>>(); ok::<VClock<u8>>(); ok::<GCounter<u8>>(); ok::<PNCounter<u8>>();
    /// ok::<crdts::pncounter::Op<u8>>(); ok::<crdts::pncounter::Dir>(); ok::<GSet<u8>>(); ok::<LWWReg<u8, u64>>();
    /// ok::<MaxReg<u8>>(); ok::<MinReg<u8>>(); ok::<MVReg<u8, u8>>(); ok::<crdts::mvreg::Op<u8, u8>>();
    /// ok::<Orswot<u8, u8>>(); ok::<crdts::orswot::Op<u8, u8>>();
    /// ok::<Map<u8, MVReg<u8, u8>, u8>>(); ok::<crdts::map::Op<u8, MVReg<u8, u8>, u8>>();
    /// ok::<Map<u8, Map<u8, Orswot<u8, u8>, u8>, u8>>();
    /// ok::<GList<u8>>(); ok::<crdts::glist::Op<u8>>(); ok::<List<u8, u8>>(); ok::<crdts::list::Op<u8, u8>>();
    /// ok::<Identifier<u8>>(); ok::<MerkleReg<String>>(); ok::<Node<String>>();
    /// ok::<ReadCtx<u8, u8>>(); ok::<AddCtx<u8>>(); ok::<RmCtx<u8>>();
    /// ```
    /// a type without the derives is rejected by the same bound (so the twin above is not vacuous):
    /// ```compile_fail,E0277
    /// use serde::{de::DeserializeOwned, Serialize};
    /// fn ok<T: Serialize + DeserializeOwned>() {}
    /// ok::<crdts::DotRange<u8>>();
    /// ```
    pub struct AllTypesSerde;
}
