#!/bin/sh
# Build the fact-extraction driver (nightly, rustc_private, no Cargo deps) and warm the dependency cache. Offline.
set -e
cd "$(dirname "$0")"
export CARGO_NET_OFFLINE=true
(cd driver && cargo build --offline 2>&1 | tail -2)
python3 -m analysis.extract default >/dev/null
python3 -m analysis.extract noqc >/dev/null
echo "setup ok"
