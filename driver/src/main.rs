// rustc_private fact extractor for the rust-crdt static checks.
//
// Used as RUSTC_WORKSPACE_WRAPPER (argv[1] = real rustc, dropped) or directly
// (argv[1] = "rustc").  When the crate being compiled is named by
// CRDT_FACTS_CRATE (default "crdts") and CRDT_FACTS_OUT is set, the driver
// dumps ADT, impl and MIR facts of that crate as one JSON document (single
// write) after analysis.  It never runs any code of the crate.
#![feature(rustc_private)]
#![allow(clippy::all)]

extern crate rustc_abi;
extern crate rustc_driver;
extern crate rustc_hir;
extern crate rustc_interface;
extern crate rustc_lexer;
extern crate rustc_middle;
extern crate rustc_span;

mod json;
mod dump;

use rustc_driver::Compilation;
use rustc_interface::interface::Compiler;
use rustc_middle::ty::TyCtxt;

struct Cb {
    out: Option<String>,
    target_crate: String,
}

impl rustc_driver::Callbacks for Cb {
    fn after_analysis<'tcx>(&mut self, _c: &Compiler, tcx: TyCtxt<'tcx>) -> Compilation {
        if let Some(out) = &self.out {
            let name = tcx.crate_name(rustc_hir::def_id::LOCAL_CRATE).to_string();
            if name == self.target_crate {
                let doc = dump::dump_crate(tcx);
                let s = doc.to_string();
                std::fs::write(out, s).expect("cannot write facts");
            }
        }
        Compilation::Continue
    }
}

fn main() {
    let mut args: Vec<String> = std::env::args().collect();
    // as a cargo wrapper argv[1] is the path of the real rustc
    if args.len() > 1 && (args[1].ends_with("rustc") || args[1].contains("/rustc")) {
        args.remove(1);
    }
    let out = std::env::var("CRDT_FACTS_OUT").ok();
    let target_crate = std::env::var("CRDT_FACTS_CRATE").unwrap_or_else(|_| "crdts".to_string());
    let mut cb = Cb { out, target_crate };
    rustc_driver::run_compiler(&args, &mut cb);
}
