use crate::json::J;
use rustc_hir::def::DefKind;
use rustc_hir::def_id::{DefId, LocalDefId};
use rustc_middle::mir::{
    self, AggregateKind, BasicBlock, BinOp, Body, BorrowKind, CastKind, Const, Operand, Place,
    PlaceElem, Rvalue, StatementKind, TerminatorKind, UnOp,
};
use rustc_middle::ty::print::with_no_trimmed_paths;
use rustc_middle::ty::{self, GenericArgsRef, Instance, Ty, TyCtxt, TypingEnv};
use rustc_span::Span;

pub fn dump_crate<'tcx>(tcx: TyCtxt<'tcx>) -> J {
    let mut adts = Vec::new();
    let mut impls = Vec::new();
    let mut bodies = Vec::new();
    let mut fns_without_body = Vec::new();

    let items = tcx.hir_crate_items(());
    for ldid in items.definitions() {
        let did = ldid.to_def_id();
        match tcx.def_kind(did) {
            DefKind::Struct | DefKind::Enum => adts.push(dump_adt(tcx, did)),
            DefKind::Impl { .. } => impls.push(dump_impl(tcx, did)),
            DefKind::Trait => impls.push(dump_trait(tcx, did)),
            _ => {}
        }
    }
    for ldid in tcx.hir_body_owners() {
        let did = ldid.to_def_id();
        match tcx.def_kind(did) {
            DefKind::Fn | DefKind::AssocFn | DefKind::Closure => {
                if tcx.is_mir_available(did) {
                    bodies.push(dump_body(tcx, ldid));
                    // promoted constants (`&Ordering::Equal`, `&0`, ..) are separate MIR bodies: dump them so that
                    // the analysis can see the value a promoted operand stands for
                    for (pi, pbody) in tcx.promoted_mir(did).iter_enumerated() {
                        bodies.push(dump_promoted(tcx, ldid, pi.as_usize(), pbody));
                    }
                } else {
                    fns_without_body.push(J::s(def_key(tcx, did)));
                }
            }
            _ => {}
        }
    }
    J::obj(vec![
        ("nonce", J::opt_s(std::env::var("CRDT_FACTS_NONCE").ok())),
        (
            "crate",
            J::s(tcx.crate_name(rustc_hir::def_id::LOCAL_CRATE).to_string()),
        ),
        ("adts", J::Arr(adts)),
        ("impls", J::Arr(impls)),
        ("bodies", J::Arr(bodies)),
        ("no_mir", J::Arr(fns_without_body)),
        ("cfgs", J::Arr(dump_cfgs(tcx))),
        ("escapes", J::Arr(dump_escapes(tcx))),
    ])
}

// Constructs that let state change without a `&mut` path from a parameter - the assumption behind the effect summaries:
// user-written unsafe blocks / fns / impls, and statics (global state).  Interior-mutability field types are judged by
// the analysis from the field type strings of the ADT dump.
fn dump_escapes(tcx: TyCtxt<'_>) -> Vec<J> {
    use rustc_hir::intravisit::{self, Visitor};
    struct V<'a> {
        out: &'a mut Vec<J>,
        owner: String,
        file_line: Box<dyn Fn(Span) -> (String, i128) + 'a>,
    }
    impl<'a, 'v> Visitor<'v> for V<'a> {
        fn visit_block(&mut self, b: &'v rustc_hir::Block<'v>) {
            if let rustc_hir::BlockCheckMode::UnsafeBlock(rustc_hir::UnsafeSource::UserProvided) = b.rules {
                if !b.span.from_expansion() {
                    let (f, l) = (self.file_line)(b.span);
                    self.out.push(J::obj(vec![
                        ("kind", J::s("unsafe-block")),
                        ("in", J::s(self.owner.clone())),
                        ("file", J::s(f)),
                        ("line", J::Int(l)),
                    ]));
                }
            }
            intravisit::walk_block(self, b);
        }
    }
    let mut out = vec![];
    let sm = tcx.sess.source_map();
    let fl = |sp: Span| -> (String, i128) {
        let lo = sm.lookup_char_pos(sp.lo());
        (format!("{}", lo.file.name.prefer_local_unconditionally()), lo.line as i128)
    };
    for ldid in tcx.hir_body_owners() {
        let did = ldid.to_def_id();
        let kind = tcx.def_kind(did);
        if matches!(kind, DefKind::Fn | DefKind::AssocFn) {
            if tcx.fn_sig(did).skip_binder().safety().is_unsafe() {
                let (f, l) = fl(tcx.def_span(did));
                out.push(J::obj(vec![
                    ("kind", J::s("unsafe-fn")),
                    ("in", J::s(def_key(tcx, did))),
                    ("file", J::s(f)),
                    ("line", J::Int(l)),
                ]));
            }
        }
        if matches!(kind, DefKind::Fn | DefKind::AssocFn | DefKind::Closure | DefKind::Const { .. } | DefKind::Static { .. }) {
            let body = tcx.hir_body_owned_by(ldid);
            let mut v = V { out: &mut out, owner: def_key(tcx, did), file_line: Box::new(&fl) };
            v.visit_body(body);
        }
    }
    for ldid in tcx.hir_crate_items(()).definitions() {
        let did = ldid.to_def_id();
        if let DefKind::Static { mutability, .. } = tcx.def_kind(did) {
            let ty = tcx.type_of(did).instantiate_identity().skip_norm_wip();
            let (f, l) = fl(tcx.def_span(did));
            out.push(J::obj(vec![
                ("kind", J::s(if mutability.is_mut() { "static-mut" } else { "static" })),
                ("in", J::s(path_str(tcx, did))),
                ("ty", J::s(with_no_trimmed_paths!(ty.to_string()))),
                ("freeze", J::Bool(ty.is_freeze(tcx, TypingEnv::fully_monomorphized()))),
                ("file", J::s(f)),
                ("line", J::Int(l)),
            ]));
        }
    }
    out
}

// Every `cfg(..)`, `cfg!(..)` and `cfg_attr(..)` predicate written in the crate's own source files (lexed, so comments
// and string literals do not count).  Items a predicate strips are invisible after expansion; the analysis uses this
// list to know which configurations it would have to build to have seen everything.
fn dump_cfgs(tcx: TyCtxt<'_>) -> Vec<J> {
    use rustc_lexer::TokenKind as K;
    let mut out = vec![];
    let sm = tcx.sess.source_map();
    for f in sm.files().iter() {
        if f.cnum != rustc_hir::def_id::LOCAL_CRATE {
            continue;
        }
        let Some(src) = f.src.as_ref() else { continue };
        let name = format!("{}", f.name.prefer_local_unconditionally());
        if name.starts_with('<') {
            continue;
        }
        let mut toks = vec![];
        let mut pos = 0usize;
        for t in rustc_lexer::tokenize(src, rustc_lexer::FrontmatterAllowed::No) {
            let len = t.len as usize;
            match t.kind {
                K::Whitespace | K::LineComment { .. } | K::BlockComment { .. } => {}
                k => toks.push((k, pos, len)),
            }
            pos += len;
        }
        let mut i = 0;
        while i < toks.len() {
            let (k, p, l) = toks[i];
            let text = &src[p..p + l];
            if matches!(k, K::Ident) && (text == "cfg" || text == "cfg_attr") {
                let mut j = i + 1;
                if j < toks.len() && matches!(toks[j].0, K::Bang) {
                    j += 1;
                }
                if j < toks.len() && matches!(toks[j].0, K::OpenParen) {
                    let start = toks[j].1 + 1;
                    let mut depth = 0i32;
                    let mut end = start;
                    let mut words = vec![];
                    while j < toks.len() {
                        match toks[j].0 {
                            K::OpenParen => depth += 1,
                            K::CloseParen => {
                                depth -= 1;
                                if depth == 0 {
                                    end = toks[j].1;
                                    break;
                                }
                            }
                            K::Comma if depth == 1 && text == "cfg_attr" && end == start => {
                                // cfg_attr(pred, attrs..): the predicate ends at the first top-level comma
                                end = toks[j].1;
                            }
                            _ => {}
                        }
                        if end == start {
                            words.push(J::s(&src[toks[j].1..toks[j].1 + toks[j].2]));
                        }
                        j += 1;
                    }
                    let line = src[..p].matches('\n').count() + 1;
                    out.push(J::obj(vec![
                        ("file", J::s(name.clone())),
                        ("line", J::Int(line as i128)),
                        ("kind", J::s(text)),
                        ("pred", J::s(src[start..end.max(start)].trim())),
                        ("tokens", J::Arr(words)),
                    ]));
                    i = j;
                }
            }
            i += 1;
        }
    }
    out
}

fn path_str(tcx: TyCtxt<'_>, did: DefId) -> String {
    let p = with_no_trimmed_paths!(tcx.def_path_str(did));
    if did.is_local() {
        format!("{}::{}", tcx.crate_name(did.krate), p)
    } else {
        p
    }
}

// Canonical key of a function-like item:
//   free fn:        crate::path::name
//   inherent:       crate::path::Adt::name
//   trait impl:     <crate::path::Adt as trait::Path>::name   (self type string when not an ADT)
//   trait default:  trait::Path::name
//   closure:        <parent key>::{closure#n}
pub fn def_key(tcx: TyCtxt<'_>, did: DefId) -> String {
    match tcx.def_kind(did) {
        DefKind::Closure => {
            let parent = tcx.parent(did);
            let idx = tcx.def_path(did).data.last().map(|d| d.disambiguator).unwrap_or(0);
            format!("{}::{{closure#{}}}", def_key(tcx, parent), idx)
        }
        DefKind::AssocFn | DefKind::AssocTy | DefKind::AssocConst { .. } => {
            let parent = tcx.parent(did);
            let name = tcx.item_name(did).to_string();
            match tcx.def_kind(parent) {
                DefKind::Impl { of_trait } => {
                    let self_ty = tcx.type_of(parent).instantiate_identity().skip_norm_wip();
                    let self_s = self_key(tcx, self_ty);
                    if of_trait {
                        let tr = tcx.impl_trait_ref(parent).instantiate_identity().skip_norm_wip();
                        format!("<{} as {}>::{}", self_s, path_str(tcx, tr.def_id), name)
                    } else {
                        format!("{}::{}", self_s, name)
                    }
                }
                _ => format!("{}::{}", path_str(tcx, parent), name),
            }
        }
        _ => path_str(tcx, did),
    }
}

pub fn uid(tcx: TyCtxt<'_>, did: DefId) -> String {
    format!("{}{}", tcx.crate_name(did.krate), tcx.def_path(did).to_string_no_crate_verbose())
}

fn self_key<'tcx>(tcx: TyCtxt<'tcx>, t: Ty<'tcx>) -> String {
    match t.kind() {
        ty::Adt(def, _) => path_str(tcx, def.did()),
        ty::Ref(_, inner, m) => format!(
            "&{}{}",
            if m.is_mut() { "mut " } else { "" },
            self_key(tcx, *inner)
        ),
        _ => with_no_trimmed_paths!(format!("{}", t)),
    }
}

fn span_json(tcx: TyCtxt<'_>, span: Span) -> J {
    let sm = tcx.sess.source_map();
    // outermost call site for macro expansions
    let sp = span.source_callsite();
    let lo = sm.lookup_char_pos(sp.lo());
    let file = match &lo.file.name {
        rustc_span::FileName::Real(r) => r
            .local_path()
            .map(|p| p.display().to_string())
            .unwrap_or_else(|| format!("{:?}", r)),
        other => format!("{:?}", other),
    };
    J::obj(vec![
        ("file", J::s(file)),
        ("line", J::Int(lo.line as i128)),
        ("exp", J::Bool(span.from_expansion())),
    ])
}

fn ty_json<'tcx>(tcx: TyCtxt<'tcx>, t: Ty<'tcx>) -> J {
    ty_json_d(tcx, t, 0)
}

fn ty_json_d<'tcx>(tcx: TyCtxt<'tcx>, t: Ty<'tcx>, depth: usize) -> J {
    let s = with_no_trimmed_paths!(format!("{}", t));
    if depth > 8 {
        return J::obj(vec![("k", J::s("deep")), ("s", J::s(s))]);
    }
    match t.kind() {
        ty::Adt(def, args) => J::obj(vec![
            ("k", J::s("adt")),
            ("path", J::s(path_str(tcx, def.did()))),
            (
                "args",
                J::Arr(
                    args.iter()
                        .filter_map(|a| a.as_type())
                        .map(|a| ty_json_d(tcx, a, depth + 1))
                        .collect(),
                ),
            ),
            ("s", J::s(s)),
        ]),
        ty::Ref(_, inner, m) => J::obj(vec![
            ("k", J::s("ref")),
            ("mut", J::Bool(m.is_mut())),
            ("ty", ty_json_d(tcx, *inner, depth + 1)),
            ("s", J::s(s)),
        ]),
        ty::RawPtr(inner, m) => J::obj(vec![
            ("k", J::s("ptr")),
            ("mut", J::Bool(m.is_mut())),
            ("ty", ty_json_d(tcx, *inner, depth + 1)),
            ("s", J::s(s)),
        ]),
        ty::Param(p) => J::obj(vec![("k", J::s("param")), ("name", J::s(p.name.to_string())), ("s", J::s(s))]),
        ty::Tuple(elems) => J::obj(vec![
            ("k", J::s("tuple")),
            ("elems", J::Arr(elems.iter().map(|e| ty_json_d(tcx, e, depth + 1)).collect())),
            ("s", J::s(s)),
        ]),
        ty::Array(e, _) | ty::Slice(e) => J::obj(vec![
            ("k", J::s(if matches!(t.kind(), ty::Array(..)) { "array" } else { "slice" })),
            ("ty", ty_json_d(tcx, *e, depth + 1)),
            ("s", J::s(s)),
        ]),
        ty::Bool | ty::Char | ty::Int(_) | ty::Uint(_) | ty::Float(_) | ty::Str | ty::Never => {
            J::obj(vec![("k", J::s("prim")), ("name", J::s(s.clone())), ("s", J::s(s))])
        }
        ty::Closure(did, _) => J::obj(vec![
            ("k", J::s("closure")),
            ("def", J::s(def_key(tcx, *did))),
            ("uid", J::s(uid(tcx, *did))),
            ("s", J::s(s)),
        ]),
        ty::FnDef(did, args) => J::obj(vec![
            ("k", J::s("fndef")),
            ("def", J::s(def_key(tcx, *did))),
            (
                "args",
                J::Arr(
                    args.iter()
                        .filter_map(|a| a.as_type())
                        .map(|a| ty_json_d(tcx, a, depth + 1))
                        .collect(),
                ),
            ),
            ("s", J::s(s)),
        ]),
        ty::Alias(..) => J::obj(vec![("k", J::s("alias")), ("s", J::s(s))]),
        _ => J::obj(vec![("k", J::s("other")), ("s", J::s(s))]),
    }
}

fn vis_str(tcx: TyCtxt<'_>, vis: ty::Visibility<DefId>) -> String {
    match vis {
        ty::Visibility::Public => "pub".to_string(),
        ty::Visibility::Restricted(m) => {
            if m.is_crate_root() {
                "crate".to_string()
            } else {
                format!("in:{}", path_str(tcx, m))
            }
        }
    }
}

fn dump_adt<'tcx>(tcx: TyCtxt<'tcx>, did: DefId) -> J {
    let adt = tcx.adt_def(did);
    let mut variants = Vec::new();
    for v in adt.variants().iter() {
        let mut fields = Vec::new();
        for f in v.fields.iter() {
            let fty = tcx.type_of(f.did).instantiate_identity().skip_norm_wip();
            fields.push(J::obj(vec![
                ("name", J::s(f.name.to_string())),
                ("ty", ty_json(tcx, fty)),
                ("vis", J::s(vis_str(tcx, f.vis))),
            ]));
        }
        variants.push(J::obj(vec![
            ("name", J::s(v.name.to_string())),
            ("fields", J::Arr(fields)),
        ]));
    }
    let generics = tcx.generics_of(did);
    let gen_names: Vec<J> = generics
        .own_params
        .iter()
        .map(|p| J::s(p.name.to_string()))
        .collect();
    J::obj(vec![
        ("path", J::s(path_str(tcx, did))),
        ("uid", J::s(uid(tcx, did))),
        ("kind", J::s(if adt.is_enum() { "enum" } else if adt.is_union() { "union" } else { "struct" })),
        ("vis", J::s(vis_str(tcx, tcx.visibility(did)))),
        ("generics", J::Arr(gen_names)),
        ("variants", J::Arr(variants)),
        ("span", span_json(tcx, tcx.def_span(did))),
    ])
}

fn dump_trait<'tcx>(tcx: TyCtxt<'tcx>, did: DefId) -> J {
    let mut items = Vec::new();
    for it in tcx.associated_items(did).in_definition_order() {
        items.push(J::obj(vec![
            ("name", J::s(it.name().to_string())),
            ("kind", J::s(format!("{:?}", it.tag()))),
        ]));
    }
    J::obj(vec![
        ("is_trait_def", J::Bool(true)),
        ("trait", J::s(path_str(tcx, did))),
        ("items", J::Arr(items)),
    ])
}

fn dump_impl<'tcx>(tcx: TyCtxt<'tcx>, did: DefId) -> J {
    let self_ty = tcx.type_of(did).instantiate_identity().skip_norm_wip();
    let of_trait = matches!(tcx.def_kind(did), DefKind::Impl { of_trait: true });
    let (tr, tr_args) = if of_trait {
        let r = tcx.impl_trait_ref(did).instantiate_identity().skip_norm_wip();
        (
            J::s(path_str(tcx, r.def_id)),
            J::Arr(
                r.args
                    .iter()
                    .skip(1)
                    .filter_map(|a| a.as_type())
                    .map(|a| ty_json(tcx, a))
                    .collect(),
            ),
        )
    } else {
        (J::Null, J::Arr(vec![]))
    };
    let mut assoc_tys = Vec::new();
    let mut methods = Vec::new();
    for it in tcx.associated_items(did).in_definition_order() {
        match it.tag() {
            ty::AssocTag::Type => {
                let t = tcx.type_of(it.def_id).instantiate_identity().skip_norm_wip();
                assoc_tys.push((it.name().to_string(), ty_json(tcx, t)));
            }
            ty::AssocTag::Fn => {
                methods.push(J::s(uid(tcx, it.def_id)));
            }
            _ => {}
        }
    }
    let derived = tcx.is_automatically_derived(did);
    J::obj(vec![
        ("is_trait_def", J::Bool(false)),
        ("uid", J::s(uid(tcx, did))),
        ("self_ty", ty_json(tcx, self_ty)),
        ("self_key", J::s(self_key(tcx, self_ty))),
        ("trait", tr),
        ("trait_args", tr_args),
        ("assoc_tys", J::Obj(assoc_tys)),
        ("methods", J::Arr(methods)),
        ("derived", J::Bool(derived)),
        ("span", span_json(tcx, tcx.def_span(did))),
    ])
}

struct Cx<'a, 'tcx> {
    tcx: TyCtxt<'tcx>,
    body: &'a Body<'tcx>,
    def: LocalDefId,
    env: TypingEnv<'tcx>,
}

fn dump_code<'a, 'tcx>(tcx: TyCtxt<'tcx>, cx: &Cx<'a, 'tcx>) -> (Vec<J>, Vec<J>, Vec<J>) {
    let body = cx.body;
    let mut locals = Vec::new();
    for (_l, decl) in body.local_decls.iter_enumerated() {
        locals.push(J::obj(vec![
            ("ty", ty_json(tcx, decl.ty)),
            ("mut", J::Bool(decl.mutability.is_mut())),
        ]));
    }
    let mut dbg = Vec::new();
    for v in body.var_debug_info.iter() {
        if let mir::VarDebugInfoContents::Place(p) = &v.value {
            dbg.push(J::obj(vec![
                ("name", J::s(v.name.to_string())),
                ("place", cx.place(p)),
            ]));
        }
    }
    let mut blocks = Vec::new();
    for (_bb, data) in body.basic_blocks.iter_enumerated() {
        let mut stmts = Vec::new();
        for st in data.statements.iter() {
            match &st.kind {
                StatementKind::Assign(b) => {
                    let (pl, rv) = &**b;
                    stmts.push(J::obj(vec![
                        ("k", J::s("assign")),
                        ("place", cx.place(pl)),
                        ("rv", cx.rvalue(rv)),
                        ("span", span_json(tcx, st.source_info.span)),
                    ]));
                }
                StatementKind::SetDiscriminant { place, variant_index } => {
                    stmts.push(J::obj(vec![
                        ("k", J::s("setdiscr")),
                        ("place", cx.place(place)),
                        ("variant", J::Int(variant_index.as_u32() as i128)),
                    ]));
                }
                StatementKind::StorageDead(l) => {
                    stmts.push(J::obj(vec![("k", J::s("dead")), ("local", J::Int(l.as_u32() as i128))]));
                }
                StatementKind::StorageLive(l) => {
                    stmts.push(J::obj(vec![("k", J::s("live")), ("local", J::Int(l.as_u32() as i128))]));
                }
                _ => {}
            }
        }
        let term = data.terminator();
        blocks.push(J::obj(vec![
            ("cleanup", J::Bool(data.is_cleanup)),
            ("stmts", J::Arr(stmts)),
            ("term", cx.terminator(term)),
        ]));
    }

    (locals, dbg, blocks)
}

fn dump_promoted<'tcx>(tcx: TyCtxt<'tcx>, owner: LocalDefId, idx: usize, body: &mir::Body<'tcx>) -> J {
    let did = owner.to_def_id();
    let cx = Cx {
        tcx,
        body,
        def: owner,
        env: TypingEnv::post_analysis(tcx, did),
    };
    let (locals, dbg, blocks) = dump_code(tcx, &cx);
    J::obj(vec![
        ("key", J::s(format!("{}::promoted[{}]", def_key(tcx, did), idx))),
        ("uid", J::s(format!("{}::{{promoted#{}}}", uid(tcx, did), idx))),
        ("kind", J::s("Promoted")),
        ("name", J::Null),
        ("vis", J::Null),
        ("parent", J::s(uid(tcx, did))),
        ("impl_self", J::Null),
        ("impl_trait", J::Null),
        ("derived", J::Bool(false)),
        ("captures", J::Arr(Vec::new())),
        ("arg_count", J::Int(0)),
        ("span", span_json(tcx, body.span)),
        ("locals", J::Arr(locals)),
        ("debug", J::Arr(dbg)),
        ("blocks", J::Arr(blocks)),
    ])
}

fn dump_body<'tcx>(tcx: TyCtxt<'tcx>, ldid: LocalDefId) -> J {
    let did = ldid.to_def_id();
    let body = tcx.optimized_mir(did);
    let cx = Cx {
        tcx,
        body,
        def: ldid,
        env: TypingEnv::post_analysis(tcx, did),
    };
    let kind = tcx.def_kind(did);
    let (locals, dbg, blocks) = dump_code(tcx, &cx);

    // enclosing impl / trait info
    let mut impl_self = J::Null;
    let mut impl_trait = J::Null;
    let mut name = J::Null;
    let mut parent = J::Null;
    let mut vis = J::Null;
    let mut derived = false;
    let mut captures = Vec::new();
    match kind {
        DefKind::Closure => {
            parent = J::s(uid(tcx, tcx.parent(did)));
            for c in tcx.closure_captures(ldid).iter() {
                captures.push(J::obj(vec![
                    ("name", J::s(c.to_string(tcx))),
                    ("by_ref", J::Bool(c.is_by_ref())),
                ]));
            }
        }
        DefKind::AssocFn => {
            let p = tcx.parent(did);
            name = J::s(tcx.item_name(did).to_string());
            vis = J::s(vis_str(tcx, tcx.visibility(did)));
            if let DefKind::Impl { of_trait } = tcx.def_kind(p) {
                let self_ty = tcx.type_of(p).instantiate_identity().skip_norm_wip();
                impl_self = J::s(self_key(tcx, self_ty));
                if of_trait {
                    let r = tcx.impl_trait_ref(p).instantiate_identity().skip_norm_wip();
                    impl_trait = J::s(path_str(tcx, r.def_id));
                }
                derived = tcx.is_automatically_derived(p);
            } else {
                impl_trait = J::s(path_str(tcx, p));
            }
        }
        DefKind::Fn => {
            name = J::s(tcx.item_name(did).to_string());
            vis = J::s(vis_str(tcx, tcx.visibility(did)));
        }
        _ => {}
    }

    J::obj(vec![
        ("key", J::s(def_key(tcx, did))),
        ("uid", J::s(uid(tcx, did))),
        ("kind", J::s(format!("{:?}", kind))),
        ("name", name),
        ("vis", vis),
        ("parent", parent),
        ("impl_self", impl_self),
        ("impl_trait", impl_trait),
        ("derived", J::Bool(derived)),
        ("captures", J::Arr(captures)),
        ("arg_count", J::Int(body.arg_count as i128)),
        ("span", span_json(tcx, body.span)),
        ("locals", J::Arr(locals)),
        ("debug", J::Arr(dbg)),
        ("blocks", J::Arr(blocks)),
    ])
}

impl<'a, 'tcx> Cx<'a, 'tcx> {
    fn place(&self, p: &Place<'tcx>) -> J {
        let tcx = self.tcx;
        let mut proj = Vec::new();
        let mut pty = mir::PlaceTy::from_ty(self.body.local_decls[p.local].ty);
        for elem in p.projection.iter() {
            match elem {
                PlaceElem::Deref => proj.push(J::obj(vec![("k", J::s("deref"))])),
                PlaceElem::Field(f, _fty) => {
                    let idx = f.as_usize();
                    let mut fname = J::Null;
                    let mut owner = J::Null;
                    let mut variant = J::Null;
                    match pty.ty.kind() {
                        ty::Adt(def, _) => {
                            let vidx = pty.variant_index.unwrap_or(rustc_abi::FIRST_VARIANT);
                            if !def.is_union() && vidx.as_usize() < def.variants().len() {
                                let v = def.variant(vidx);
                                if idx < v.fields.len() {
                                    fname = J::s(v.fields[rustc_abi::FieldIdx::from_usize(idx)].name.to_string());
                                }
                                if def.is_enum() {
                                    variant = J::s(v.name.to_string());
                                }
                            }
                            owner = J::s(path_str(tcx, def.did()));
                        }
                        ty::Closure(cdid, _) => {
                            if let Some(l) = cdid.as_local() {
                                let caps = tcx.closure_captures(l);
                                if idx < caps.len() {
                                    fname = J::s(caps[idx].to_string(tcx));
                                }
                            }
                            owner = J::s("closure");
                        }
                        ty::Tuple(_) => {
                            owner = J::s("tuple");
                        }
                        _ => {}
                    }
                    proj.push(J::obj(vec![
                        ("k", J::s("field")),
                        ("idx", J::Int(idx as i128)),
                        ("name", fname),
                        ("owner", owner),
                        ("variant", variant),
                    ]));
                }
                PlaceElem::Downcast(name, vidx) => {
                    let mut vname = name.map(|n| n.to_string());
                    if vname.is_none() {
                        if let ty::Adt(def, _) = pty.ty.kind() {
                            vname = Some(def.variant(vidx).name.to_string());
                        }
                    }
                    proj.push(J::obj(vec![
                        ("k", J::s("downcast")),
                        ("variant", J::opt_s(vname)),
                        ("idx", J::Int(vidx.as_u32() as i128)),
                    ]));
                }
                PlaceElem::Index(l) => proj.push(J::obj(vec![
                    ("k", J::s("index")),
                    ("local", J::Int(l.as_u32() as i128)),
                ])),
                PlaceElem::ConstantIndex { offset, from_end, .. } => proj.push(J::obj(vec![
                    ("k", J::s("cindex")),
                    ("offset", J::Int(offset as i128)),
                    ("from_end", J::Bool(from_end)),
                ])),
                _ => proj.push(J::obj(vec![("k", J::s("other")), ("s", J::s(format!("{:?}", elem)))])),
            }
            pty = pty.projection_ty(tcx, elem);
        }
        J::obj(vec![
            ("local", J::Int(p.local.as_u32() as i128)),
            ("proj", J::Arr(proj)),
        ])
    }

    fn constant(&self, c: &mir::ConstOperand<'tcx>) -> J {
        let tcx = self.tcx;
        let ty = c.const_.ty();
        let mut fields = vec![("k", J::s("const")), ("ty", ty_json(tcx, ty))];
        if let ty::FnDef(did, args) = ty.kind() {
            fields.push(("fn", self.callee(*did, args)));
        } else {
            let mut val = J::Null;
            match ty.kind() {
                ty::Bool | ty::Int(_) | ty::Uint(_) | ty::Char => {
                    if let Some(si) = c.const_.try_eval_scalar_int(tcx, self.env) {
                        let size = si.size();
                        val = match ty.kind() {
                            ty::Int(_) => J::Int(si.to_int(size)),
                            _ => J::Int(si.to_uint(size) as i128),
                        };
                    }
                }
                _ => {}
            }
            fields.push(("val", val));
            let s = with_no_trimmed_paths!(format!("{}", c.const_));
            let s = if s.len() > 200 { s[..200].to_string() } else { s };
            fields.push(("s", J::s(s)));
            if let Const::Unevaluated(u, _) = c.const_ {
                fields.push(("uneval", J::s(path_str(tcx, u.def))));
                if let Some(pi) = u.promoted {
                    fields.push(("promoted", J::s(format!("{}::{{promoted#{}}}", uid(tcx, u.def), pi.as_usize()))));
                }
            }
        }
        J::obj(fields)
    }

    fn operand(&self, o: &Operand<'tcx>) -> J {
        match o {
            Operand::Copy(p) => J::obj(vec![("k", J::s("copy")), ("place", self.place(p))]),
            Operand::Move(p) => J::obj(vec![("k", J::s("move")), ("place", self.place(p))]),
            Operand::Constant(c) => self.constant(c),
            #[allow(unreachable_patterns)]
            _ => J::obj(vec![("k", J::s("otherop")), ("s", J::s(format!("{:?}", o)))]),
        }
    }

    fn callee(&self, did: DefId, args: GenericArgsRef<'tcx>) -> J {
        let tcx = self.tcx;
        let key = def_key(tcx, did);
        let mut tr = J::Null;
        let mut self_ty = J::Null;
        let name = tcx.opt_item_name(did).map(|n| n.to_string());
        if matches!(tcx.def_kind(did), DefKind::AssocFn) {
            let p = tcx.parent(did);
            match tcx.def_kind(p) {
                DefKind::Trait => {
                    tr = J::s(path_str(tcx, p));
                    if let Some(t) = args.iter().next().and_then(|a| a.as_type()) {
                        self_ty = ty_json(tcx, t);
                    }
                }
                DefKind::Impl { of_trait } => {
                    if of_trait {
                        let r = tcx.impl_trait_ref(p).instantiate_identity().skip_norm_wip();
                        tr = J::s(path_str(tcx, r.def_id));
                    }
                    let st = tcx.type_of(p).instantiate(tcx, args).skip_norm_wip();
                    self_ty = ty_json(tcx, st);
                }
                _ => {}
            }
        }
        // resolve trait method calls to the impl when possible
        let mut resolved = J::Null;
        let mut resolved_self = J::Null;
        let mut resolved_uid = J::Null;
        if let Ok(Some(inst)) = Instance::try_resolve(tcx, self.env, did, args) {
            let rd = inst.def_id();
            if rd != did {
                resolved = J::s(def_key(tcx, rd));
                resolved_uid = J::s(uid(tcx, rd));
                if matches!(tcx.def_kind(rd), DefKind::AssocFn) {
                    let p = tcx.parent(rd);
                    if let DefKind::Impl { .. } = tcx.def_kind(p) {
                        let st = tcx.type_of(p).instantiate(tcx, inst.args).skip_norm_wip();
                        resolved_self = ty_json(tcx, st);
                    }
                }
            }
        }
        J::obj(vec![
            ("def", J::s(key)),
            ("uid", J::s(uid(tcx, did))),
            ("name", J::opt_s(name)),
            ("trait", tr),
            ("self_ty", self_ty),
            ("local", J::Bool(did.is_local())),
            (
                "substs",
                J::Arr(
                    args.iter()
                        .filter_map(|a| a.as_type())
                        .map(|a| ty_json(tcx, a))
                        .collect(),
                ),
            ),
            ("resolved", resolved),
            ("resolved_uid", resolved_uid),
            ("resolved_self", resolved_self),
        ])
    }

    fn rvalue(&self, rv: &Rvalue<'tcx>) -> J {
        let tcx = self.tcx;
        match rv {
            Rvalue::Use(o, ..) => J::obj(vec![("k", J::s("use")), ("op", self.operand(o))]),
            Rvalue::Ref(_, bk, p) => J::obj(vec![
                ("k", J::s("ref")),
                ("mut", J::Bool(matches!(bk, BorrowKind::Mut { .. }))),
                ("place", self.place(p)),
            ]),
            Rvalue::RawPtr(k, p) => J::obj(vec![
                ("k", J::s("rawptr")),
                ("mut", J::Bool(format!("{:?}", k).contains("Mut"))),
                ("place", self.place(p)),
            ]),
            Rvalue::BinaryOp(op, b) => {
                let (l, r) = &**b;
                J::obj(vec![
                    ("k", J::s("binop")),
                    ("op", J::s(binop_str(*op))),
                    ("l", self.operand(l)),
                    ("r", self.operand(r)),
                ])
            }
            Rvalue::UnaryOp(op, o) => J::obj(vec![
                ("k", J::s("unop")),
                (
                    "op",
                    J::s(match op {
                        UnOp::Not => "Not".to_string(),
                        UnOp::Neg => "Neg".to_string(),
                        other => format!("{:?}", other),
                    }),
                ),
                ("op1", self.operand(o)),
            ]),
            Rvalue::Discriminant(p) => J::obj(vec![("k", J::s("discr")), ("place", self.place(p))]),
            Rvalue::Aggregate(kind, ops) => {
                let mut f = vec![("k", J::s("agg"))];
                match &**kind {
                    AggregateKind::Adt(did, vidx, _args, _, _) => {
                        let def = tcx.adt_def(*did);
                        let v = def.variant(*vidx);
                        f.push(("agg", J::s("adt")));
                        f.push(("path", J::s(path_str(tcx, *did))));
                        f.push(("variant", J::s(v.name.to_string())));
                        f.push(("vidx", J::Int(vidx.as_u32() as i128)));
                        f.push(("is_enum", J::Bool(def.is_enum())));
                        f.push((
                            "fields",
                            J::Arr(v.fields.iter().map(|fd| J::s(fd.name.to_string())).collect()),
                        ));
                    }
                    AggregateKind::Tuple => f.push(("agg", J::s("tuple"))),
                    AggregateKind::Array(_) => f.push(("agg", J::s("array"))),
                    AggregateKind::Closure(did, _) => {
                        f.push(("agg", J::s("closure")));
                        f.push(("def", J::s(def_key(tcx, *did))));
                        f.push(("uid", J::s(uid(tcx, *did))));
                    }
                    other => {
                        f.push(("agg", J::s("other")));
                        f.push(("s", J::s(format!("{:?}", other))));
                    }
                }
                f.push(("ops", J::Arr(ops.iter().map(|o| self.operand(o)).collect())));
                J::obj(f)
            }
            Rvalue::Cast(kind, o, t) => J::obj(vec![
                ("k", J::s("cast")),
                (
                    "cast",
                    J::s(match kind {
                        CastKind::IntToInt => "IntToInt".to_string(),
                        CastKind::Transmute => "Transmute".to_string(),
                        other => format!("{:?}", other),
                    }),
                ),
                ("op", self.operand(o)),
                ("ty", ty_json(tcx, *t)),
                ("from", ty_json(tcx, o.ty(&self.body.local_decls, tcx))),
            ]),
            Rvalue::CopyForDeref(p) => J::obj(vec![
                ("k", J::s("use")),
                ("op", J::obj(vec![("k", J::s("copy")), ("place", self.place(p))])),
            ]),
            Rvalue::Repeat(o, _) => J::obj(vec![("k", J::s("repeat")), ("op", self.operand(o))]),
            other => J::obj(vec![("k", J::s("other")), ("s", J::s(format!("{:?}", other)))]),
        }
    }

    fn bb(&self, b: BasicBlock) -> J {
        J::Int(b.as_u32() as i128)
    }

    fn terminator(&self, t: &mir::Terminator<'tcx>) -> J {
        let tcx = self.tcx;
        let span = span_json(tcx, t.source_info.span);
        match &t.kind {
            TerminatorKind::Goto { target } => J::obj(vec![("k", J::s("goto")), ("target", self.bb(*target))]),
            TerminatorKind::SwitchInt { discr, targets } => {
                let mut ts = Vec::new();
                for (v, b) in targets.iter() {
                    ts.push(J::Arr(vec![J::Int(v as i128), self.bb(b)]));
                }
                J::obj(vec![
                    ("k", J::s("switch")),
                    ("discr", self.operand(discr)),
                    ("discr_ty", ty_json(tcx, discr.ty(self.body, tcx))),
                    ("targets", J::Arr(ts)),
                    ("otherwise", self.bb(targets.otherwise())),
                    ("span", span),
                ])
            }
            TerminatorKind::Return => J::obj(vec![("k", J::s("return")), ("span", span)]),
            TerminatorKind::Unreachable => J::obj(vec![("k", J::s("unreachable"))]),
            TerminatorKind::Drop { place, target, .. } => J::obj(vec![
                ("k", J::s("drop")),
                ("place", self.place(place)),
                ("target", self.bb(*target)),
            ]),
            TerminatorKind::Call { func, args, destination, target, .. } => {
                let mut f = vec![("k", J::s("call"))];
                match func.const_fn_def() {
                    Some((did, gargs)) => f.push(("callee", self.callee(did, gargs))),
                    None => {
                        f.push(("callee", J::Null));
                        f.push(("func", self.operand(func)));
                    }
                }
                f.push(("args", J::Arr(args.iter().map(|a| self.operand(&a.node)).collect())));
                f.push(("dest", self.place(destination)));
                f.push((
                    "target",
                    match target {
                        Some(b) => self.bb(*b),
                        None => J::Null,
                    },
                ));
                f.push(("span", span));
                J::obj(f)
            }
            TerminatorKind::Assert { cond, expected, target, msg, .. } => J::obj(vec![
                ("k", J::s("assert")),
                ("cond", self.operand(cond)),
                ("expected", J::Bool(*expected)),
                ("target", self.bb(*target)),
                ("msg", J::s(assert_kind(msg))),
                ("span", span),
            ]),
            TerminatorKind::UnwindResume => J::obj(vec![("k", J::s("resume"))]),
            TerminatorKind::FalseEdge { real_target, .. } => {
                J::obj(vec![("k", J::s("goto")), ("target", self.bb(*real_target))])
            }
            TerminatorKind::FalseUnwind { real_target, .. } => {
                J::obj(vec![("k", J::s("goto")), ("target", self.bb(*real_target))])
            }
            other => J::obj(vec![("k", J::s("otherterm")), ("s", J::s(format!("{:?}", other)))]),
        }
    }
}

fn assert_kind<'tcx>(m: &mir::AssertMessage<'tcx>) -> String {
    use mir::AssertKind::*;
    match m {
        Overflow(op, ..) => format!("Overflow:{}", binop_str(*op)),
        BoundsCheck { .. } => "BoundsCheck".to_string(),
        OverflowNeg(_) => "OverflowNeg".to_string(),
        DivisionByZero(_) => "DivisionByZero".to_string(),
        RemainderByZero(_) => "RemainderByZero".to_string(),
        _ => "Other".to_string(),
    }
}

fn binop_str(op: BinOp) -> String {
    format!("{:?}", op)
}

#[allow(dead_code)]
fn unused(_: &Cx<'_, '_>) {}
